"""C18 — the registry reflects exactly the live registrations and cannot be knocked over.

Correspondence: the real `rpyc.utils.registry` servers against Rpyc.Registry
(lean/RpycModel/Srv/Registry.lean) through `drv_registry`, with no sockets and no wall clock:

  base  a subclass of the real `RegistryServer` with scripted `_recv` / `_send`;
  udp   the real `UDPRegistryServer` (`_recv`, `_send` as written) over a stand-in datagram socket;
  tcp   the real `TCPRegistryServer` (`_recv`, `_send` as written) over a stand-in listener whose accepted
        sockets deliver a payload at once, or nothing (a silent client), and whose `accept` fails with EMFILE
        when `fd limit` accepted sockets are open (what the kernel does).

`time` in the registry module's namespace is a virtual clock (exact: `Fraction` seconds) for the duration of
a run and restored afterwards.  The real `_work` loop runs over a scripted history; after every event the
reply handed to the transport, the notifications fired, the whole `services` table (both levels in dict
order, with times) and whether the loop is still running are compared with the model.

 (a) histories of register / unregister / query / clock moves from several hosts and ports with several
     aliases (ASCII and non-ASCII, case variants), sprinkled with malformed datagrams and silent TCP clients;
 (b) datagram streams over a small populated table: every byte string of length <= 1 and a sample (thorough:
     all) of length 2, c04's mutation corpus applied to well-formed commands and to valid encodings, random
     bytes, and every value shape of c04 in place of magic / command / args / name / names / port.

Direct oracle (real code only): a reference map written from the statement.
"""
import errno
import logging
import sys
import socket
import threading
import warnings
import time as _walltime
from fractions import Fraction

import valtext
from lineproto import run_driver, DriverError
from pipeline import Corr
from prng import Rng

import c04

ID = "C18"
LEAN_MODULE = "RpycModel.Props.C18"
NAMESPACE = "Rpyc.Props.C18"
GEN = ["Registry.lean", "Brine.lean"]
DRIVERS = ["drv_registry"]
TRUSTED = [
    "the interpreter: CPython %d.%d.%d at /venv/bin/python - two facts are measured on it and are proof obligations "
    "(all_brine_values_hashable: `slice` is hashable from 3.12 on, before that a register with a slice port is refused "
    "AFTER `_add_service` has created an empty inner dict; logger_warn_survives: `Logger.warn` exists until 3.12, on 3.13 "
    "the first wrong-magic / unknown-command datagram ends `_work`); the model has both other branches" % sys.version_info[:3],
    "modelled, not verified: Python's `==`/hash on dict keys (numeric tower, frozensets as sets) as `keyCode`; "
    "tuple/str/bytes/frozenset iteration and argument-count errors of a call; `str.upper`/`str.lower` of non-ASCII "
    "text and frozenset iteration order are supplied by the harness from the running interpreter; the stand-in "
    "sockets (datagram truncation at the requested size, `socket.timeout` after the configured timeout, EMFILE "
    "when the descriptor limit is reached, a dropped socket object is closed) stand for the kernel; a handful of "
    "histories run on the real servers over real loopback sockets (own __init__, bind, listen(10), settimeout, start())",
    "not modelled (skipped by the correspondence, counted): a NaN inside a port or host (NaN dict keys are equal by object "
    "identity only), TAG_SLICE applied to a frozenset; the kernel's listen backlog "
    "(`listen(10)`: connections beyond it wait or are refused by the kernel while the registry sits in a silent client's TIMEOUT)",
]
ASSUMPTIONS = [
    "membership is the stored table: an entry exists from its first register until unregister or until a query "
    "prunes it; a stale entry that is refreshed before any query pruned it stays the same member (no notification); "
    "a query never returns a stale entry; stale entries under names nobody queries stay stored",
    "the reply compared is what the registry hands to its transport; a reply larger than the transport's datagram "
    "(or than the MAX_DGRAM_SIZE bytes rpyc's own clients read) is outside the model",
    "case-insensitive means Python's str.upper(): exact for ASCII names; for other text it identifies what upper() identifies "
    "('straße' and 'STRASSE' meet; 'STRAẞE' does not meet 'straße'; 'İstanbul' does not meet its own lower()) - the "
    "registry's behaviour, compared as such (upper/lower of non-ASCII text come from the running interpreter)",
    "callbacks on_service_added / on_service_removed may raise; the registry logs and carries on (exercised)",
    "logging calls cannot raise: `_work` calls self.logger.warn(...) outside every try (wrong magic, unknown command) and "
    "logger.exception / debug elsewhere; true of a real logging.Logger on this interpreter (obligation "
    "logger_warn_survives; a quarter of the correspondence and all real-socket histories run with one at DEBUG level), "
    "not of a user-supplied logger whose methods raise",
    "KNOWN FINDING C18:tcp-silent-client-outlasts-default-client-timeout (theorem "
    "C18_counterexample_silent_client_outlasts_default_client; real-socket probe in known_probes, armed while the finding is "
    "listed): over TCP the registry is never refused or stopped, but each connection that sends nothing costs everyone queued "
    "behind it TCPRegistryServer.TIMEOUT (3000 ms), more than the 2000 ms after which rpyc's own TCPRegistryClient gives up "
    "and returns () - a silent wrong answer; what is proved is the part that holds (everyone is accepted, the cost is "
    "exactly TIMEOUT per silent connection)",
    "`stored_can_always_be_sent` assumes: histories of fewer than 2^32 datagrams from the empty registry; each datagram a "
    "genuine byte string as `_recv` returns it (at most MAX_DGRAM_SIZE bytes); the host text the transport reports is "
    "something brine.dump accepts; iterating a frozenset yields members of it (`EnvOk`); `work_total` / "
    "`registry_never_dies` assume nothing",
    "the interpreter's recursion limit is an environment fact (`Env.loadOverflows`, `Env.dumpOverflows`, universally "
    "quantified in the theorems; in the correspondence observed per event by watching brine.load / brine.dump inside the "
    "registry module): a query whose reply cannot be dumped is not answered (and, with the register-time check, such an "
    "address is never stored)",
]
EXPLANATION = ("Theorems over all histories of datagrams (every byte string) and all clocks: a query answers exactly the "
               "entries stored under the upper-cased name whose refresh is not older than the pruning interval, by refresh "
               "time then registration order, and the table refines the abstract map (NAME, address) -> last refresh; "
               "notifications are in bijection with membership changes (per step and per history); every datagram of every "
               "history leaves the loop running (whatever brine.load returns can be dumped again; a name gains at most "
               "one server per datagram), a datagram that is not a well-formed command changes nothing at all, a "
               "well-formed one only the entries it names, and no datagram touches a live registration of another host "
               "(stated on the sender's host, independent of the model's parsing; the malformed classes are also stated "
               "on the decoded value itself); case-insensitivity explicit; every TCP client is accepted whatever "
               "earlier clients did and k silent ones cost exactly k x TIMEOUT (3000 ms each, more than a default client's "
               "2000 ms patience: known finding with counterexample theorem).  Facts about the interpreter and about the code "
               "(hashable slice, Logger.warn, reply dump guarded, register refuses an unsendable address, TCP _recv closes "
               "unanswered sockets) are measured on the live code and are proof obligations with the other branch modelled; "
               "the recursion limit is a quantified environment fact.")


def reg():
    from rpyc.utils import registry
    return registry


def brine():
    from rpyc.core import brine as b
    return b


# ------------------------------------------------------------------------------------------ the real code, scripted
class Hang(BaseException):
    """a blocking call that would never return (a recv without timeout on a silent client)"""


class Clock:
    """stands in for the `time` module inside rpyc.utils.registry; exact"""
    def __init__(self):
        self.ms = 0

    def time(self):
        return Fraction(self.ms, 1000)

    def sleep(self, dt):
        self.ms += int(round(dt * 1000))


class NullLogger:
    def _n(self, *a, **k):
        pass
    debug = info = warn = warning = error = exception = critical = _n


class _Sink(logging.Handler):
    """formats every record (so that a bad format string would show) and keeps nothing"""
    errors = 0

    def emit(self, record):
        self.format(record)

    def handleError(self, record):
        _Sink.errors += 1


def real_logger():
    """a genuine logging.Logger, as the registry gets in production (`logging.getLogger(...)`), at DEBUG level"""
    lg = logging.Logger("rpyc-verif-c18", level=logging.DEBUG)
    h = _Sink()
    h.setFormatter(logging.Formatter("%(levelname)s %(message)s"))
    lg.addHandler(h)
    return lg


_CLASSES = {}


def classes():
    """recording subclasses of the real servers (built once per imported registry module)"""
    r = reg()
    if _CLASSES.get("module") is r:
        return _CLASSES
    class Rec(object):
        def on_service_added(self, name, addrinfo):
            self.notes.append((1, name, addrinfo))
            if self.cb_raises:
                raise RuntimeError("callback failed")

        def on_service_removed(self, name, addrinfo):
            self.notes.append((0, name, addrinfo))
            if self.cb_raises:
                raise RuntimeError("callback failed")

        def _get_logger(self):
            return NullLogger()

    class Base(Rec, r.RegistryServer):
        def _recv(self):
            ev = self.script.next()
            return ev[2], (ev[1], 40000)

        def _send(self, data, addrinfo):
            self.script.sent(data)

    class Udp(Rec, r.UDPRegistryServer):
        pass

    class Tcp(Rec, r.TCPRegistryServer):
        pass
    _CLASSES.update(module=r, base=Base, udp=Udp, tcp=Tcp)
    return _CLASSES


class FakeUdpSock:
    def __init__(self, script):
        self.script = script

    def getsockname(self):
        return ("0.0.0.0", 18811)

    def recvfrom(self, n):
        ev = self.script.next()
        return ev[2][:n], (ev[1], 40000)      # a datagram longer than the buffer is cut, as the kernel does

    def sendto(self, data, addr):
        self.script.sent(data)

    def close(self):
        pass


class FakeSock:
    """an accepted TCP connection"""
    def __init__(self, script, ev):
        self.script, self.ev = script, ev
        self.timeout = None
        self.closed = False
        self.peer = (ev[2], 50000 + ev[1])
        script.open.add(id(self))

    def getpeername(self):
        return self.peer

    def settimeout(self, t):
        self.timeout = t

    def recv(self, n):
        if self.ev[0] == "s":
            if self.timeout is None:
                raise Hang()
            self.script.clock.ms += int(round(self.timeout * 1000))
            raise socket.timeout("timed out")
        return self.ev[3][:n]

    def send(self, data):
        self.script.sent(data)
        return len(data)

    def close(self):
        self.closed = True
        self.script.open.discard(id(self))

    def __del__(self):
        self.script.open.discard(id(self))


class FakeListener:
    def __init__(self, script, fd_limit):
        self.script, self.fd_limit = script, fd_limit

    def getsockname(self):
        return ("0.0.0.0", 18811)

    def accept(self):
        ev = self.script.next()
        if len(self.script.open) >= self.fd_limit:
            self.script.cur["accepted"] = False
            raise OSError(errno.EMFILE, "Too many open files")
        s = FakeSock(self.script, ev)
        return s, s.peer

    def close(self):
        pass


class BrineWatch:
    """stands in for `brine` inside rpyc.utils.registry for the duration of a run: the real module; it only notes when
    load / dump hit the interpreter's recursion limit (and lets the error through)"""
    def __init__(self, real, script):
        self._real, self._script = real, script

    def load(self, data):
        try:
            return self._real.load(data)
        except RecursionError:
            if self._script.cur is not None:
                self._script.cur["rl"] = True
            raise

    def dump(self, obj):
        try:
            return self._real.dump(obj)
        except RecursionError:
            if self._script.cur is not None:
                self._script.cur["rd"] = True
            raise

    def __getattr__(self, name):
        return getattr(self._real, name)


class Script:
    """feeds the events of one history to the running `_work` loop and records what each one did"""
    def __init__(self, clock, events):
        self.clock, self.events = clock, events
        self.i = 0
        self.records = []
        self.cur = None
        self.open = set()
        self.srv = None
        self.send_fails = False

    def finalize(self, **extra):
        if self.cur is None:
            return
        rec, srv = self.cur, self.srv
        rec["notes"] = tuple((k, n, a[0], a[1]) if type(a) is tuple and len(a) == 2 else (k, n, a, "?") for k, n, a in srv.notes[rec.pop("n0"):])
        rec["services"] = snapshot(srv.services)
        rec["elapsed"] = self.clock.ms - rec.pop("t0")
        rec["tracked"] = len(getattr(srv, "_connected_sockets", ()))
        rec["open"] = len(self.open)
        rec.update(extra)
        self.records.append(rec)
        self.cur = None

    def next(self):
        self.finalize()
        while self.i < len(self.events):
            ev = self.events[self.i]
            self.i += 1
            if ev[0] == "t":
                self.clock.ms = ev[1]
                continue
            if ev[0] == "x":                  # a hiccup of the transport, not an event of the history
                if ev[1] == "send-fails":
                    self.send_fails = True
                    continue
                if ev[1] == "timeout":
                    raise socket.timeout("timed out")
                raise OSError(errno.ECONNRESET, "Connection reset by peer")
            self.cur = dict(kind=ev[0], alive=True, hang=False, accepted=True, reply=None, n0=len(self.srv.notes), t0=self.clock.ms)
            return ev
        self.srv.active = False
        raise socket.timeout("script exhausted")

    def sent(self, data):
        self.cur["reply"] = data
        if self.send_fails:                   # the datagram / segment is handed over, then the transport reports a failure
            self.send_fails = False
            raise OSError(errno.ECONNREFUSED, "Connection refused")


def ms_of(t):
    v = t * 1000
    return int(v) if v == int(v) else "non-integral:%r" % (t,)


def snapshot(services):
    return tuple((name, tuple((a[0], a[1], ms_of(t)) if type(a) is tuple and len(a) == 2 else (a, "?", ms_of(t))
                              for a, t in inner.items())) for name, inner in services.items())


def run_real(mode, pruning_ms, fd_limit, events, cb_raises=False, real_log=False, reclimit=None, pad=0):
    """run the real `_work` over the history; returns the list of per-event records.  `reclimit`: run the loop under
    this recursion limit (the harness itself raises it); `pad`: extra frames below `_work` (the depth at which a nested
    value stops being loadable / dumpable depends on the parity of the stack)"""
    with warnings.catch_warnings():
        warnings.simplefilter("ignore", DeprecationWarning)      # Logger.warn
        return _run_real(mode, pruning_ms, fd_limit, events, cb_raises, real_log, reclimit, pad)


def _padded(fn, pad):
    return fn() if pad <= 0 else _padded(fn, pad - 1)


def _run_real(mode, pruning_ms, fd_limit, events, cb_raises, real_log, reclimit=None, pad=0):
    r = reg()
    cls = classes()[mode]
    clock = Clock()
    script = Script(clock, events)
    srv = cls.__new__(cls)
    srv.notes, srv.cb_raises, srv.script = [], cb_raises, script
    sock = FakeUdpSock(script) if mode != "tcp" else FakeListener(script, fd_limit)
    pruning = None if pruning_ms is None else Fraction(pruning_ms, 1000)
    r.RegistryServer.__init__(srv, sock, pruning_timeout=pruning, logger=real_logger() if real_log else NullLogger())
    if mode == "tcp":
        srv._connected_sockets = {}
    script.srv = srv
    saved, saved_brine, saved_limit = r.time, r.brine, sys.getrecursionlimit()
    r.time = clock
    r.brine = BrineWatch(saved_brine, script)
    try:
        srv.active = True
        try:
            if reclimit:
                sys.setrecursionlimit(reclimit)
            try:
                _padded(srv._work, pad)
            finally:
                sys.setrecursionlimit(saved_limit)
        except Hang:
            script.finalize(hang=True, alive=False)
        except Exception as ex:  # noqa: the loop died (a RecursionError out of `_work` is the registry's, never hidden)
            script.finalize(alive=False, died=valtext.err_name(ex))
        else:
            script.finalize()
    finally:
        r.time, r.brine = saved, saved_brine
        sys.setrecursionlimit(saved_limit)
    return script.records


def impl_value(mode, records):
    """the python value the model's output line denotes"""
    b = brine()
    out = []
    prev = repr(())
    for rec in records:
        if rec["hang"]:
            out.append("HANG")
            break
        reply = ()
        if rec["reply"] is not None:
            try:
                reply = (b.load(rec["reply"]),)
            except Exception as ex:  # noqa
                reply = ("undecodable reply", valtext.err_name(ex))
        now = repr(rec["services"])          # the table is written out only when the event changed it
        tail = (rec["alive"], reply, rec["notes"], None if now == prev else rec["services"])
        prev = now
        if mode == "tcp":
            out.append((rec["accepted"], rec["elapsed"], rec["tracked"]) + tail)
        else:
            out.append(tail)
        if not rec["alive"]:
            break
    return tuple(out)


# ------------------------------------------------------------------------------------------ the real servers on real sockets
def real_classes():
    """recording subclasses of the real UDP / TCP servers, constructed the normal way (sockets, bind, listen, settimeout)"""
    r = reg()
    if _CLASSES.get("real-module") is r:
        return _CLASSES
    base = classes()["udp"].__mro__[1]      # the recording mix-in

    class RUdp(base, r.UDPRegistryServer):
        notes, cb_raises = (), False

    class RTcp(base, r.TCPRegistryServer):
        notes, cb_raises = (), False
    _CLASSES.update({"real-module": r, "real-udp": RUdp, "real-tcp": RTcp})
    return _CLASSES


SYNC = None


def run_real_sockets(mode, pruning_ms, payloads):
    """the real `UDPRegistryServer` / `TCPRegistryServer`, built by its own __init__ on 127.0.0.1:0 and run by `start()`
    in a thread, driven through real sockets; payload None = a TCP client that sends nothing.  The clock inside the
    registry module is virtual and stands still.  Returns (records, died) in the shape of `run_real`."""
    r, b = reg(), brine()
    cls = real_classes()["real-" + mode]
    clock = Clock()
    clock.ms = 5000
    saved = r.time
    r.time = clock
    recs = []
    try:
        srv = cls(host="127.0.0.1", port=0, pruning_timeout=Fraction(pruning_ms, 1000), logger=real_logger())
        srv.notes = []
        th = threading.Thread(target=srv.start, daemon=True)
        with warnings.catch_warnings():
            warnings.simplefilter("ignore", DeprecationWarning)
            th.start()
            addr = ("127.0.0.1", srv.port)
            deadline = _walltime.time() + 2
            while not srv.active and _walltime.time() < deadline:
                _walltime.sleep(0.005)
            sync = b.dump(("RPYC", "QUERY", ("__no_such_service__",)))
            a = s2 = None
            if mode == "udp":
                a = socket.socket(socket.AF_INET, socket.SOCK_DGRAM)
                s2 = socket.socket(socket.AF_INET, socket.SOCK_DGRAM)
                a.bind(("127.0.0.1", 0))
                s2.bind(("127.0.0.1", 0))
                s2.settimeout(4)
                a.settimeout(0.001)
            for data in payloads:
                n0 = len(srv.notes)
                rec = dict(kind="d" if mode == "udp" else ("s" if data is None else "c"), alive=True, hang=False, accepted=True,
                           reply=None, elapsed=0, tracked=0, open=0)
                if mode == "udp":
                    a.sendto(data, addr)
                    s2.sendto(sync, addr)       # answered after `data` has been dealt with: the loop is sequential
                    try:
                        s2.recvfrom(65535)
                    except socket.timeout:
                        rec["alive"] = False
                    try:
                        rec["reply"] = a.recvfrom(65535)[0]
                    except (socket.timeout, BlockingIOError):
                        pass
                else:
                    t0 = _walltime.time()
                    c = socket.create_connection(addr, timeout=8)
                    try:
                        if data is not None:
                            if data:
                                c.sendall(data)
                            c.shutdown(socket.SHUT_WR)
                        got = b""
                        while True:           # until the registry closes the connection (after its reply, or unanswered)
                            try:
                                chunk = c.recv(65535)
                            except socket.timeout:
                                rec["alive"] = False
                                break
                            if not chunk:
                                break
                            got += chunk
                        rec["reply"] = got or None
                        rec["wall"] = _walltime.time() - t0
                    finally:
                        c.close()
                    # the next accept proves the loop got back to `_recv`
                rec["notes"] = tuple((k, n, x[0], x[1]) for k, n, x in srv.notes[n0:])
                rec["services"] = snapshot(srv.services)
                recs.append(rec)
                if not rec["alive"]:
                    break
            for x in (a, s2):
                if x is not None:
                    x.close()
            try:
                srv.close()
            except ValueError:
                pass
            if mode == "tcp":
                try:
                    socket.create_connection(addr, timeout=1).close()      # wake `accept`
                except OSError:
                    pass
            th.join(5)
    finally:
        r.time = saved
    return recs


def real_socket_cases(ctx, r):
    pool = wellformed_pool(r)
    out = []
    for k in range(ctx.budget(3, 12)):
        pay = [cmd_register(["calc", "Db"], 18812), cmd_register(["CALC"], 7), cmd_query("calc")]
        pay += [r.choice(pool) if r.chance(2, 3) else garbage(r) for _ in range(r.range(6, 14))]
        pay += [cmd_query("CALC"), cmd_unregister(7), cmd_query("calc")]
        out.append(("udp", 10000, pay))
    for k in range(ctx.budget(2, 8)):
        pay = [cmd_register(["calc", "Db"], 18812), dump(("RPYX", "QUERY", ("calc",))), b"", cmd_query("calc")]
        pay += [r.choice(pool) if r.chance(2, 3) else garbage(r) for _ in range(r.range(3, 8))]
        if k == 0:
            pay += [None]                  # one silent client: costs the real TIMEOUT
        pay += [cmd_query("CALC"), b"\xff\xff", cmd_unregister(18812), cmd_query("calc")]
        out.append(("tcp", 10000, pay))
    return out


def client_server_histories(ctx, c, r):
    """rpyc's own client classes against rpyc's own servers over real loopback sockets: what `register` / `discover` /
    `unregister` return is compared with the model's replies to the same requests, the final table with the model's"""
    R, b = reg(), brine()
    for mode, Srv, Cli in (("udp", "real-udp", "UDPRegistryClient"), ("tcp", "real-tcp", "TCPRegistryClient"), ("udp", "real-udp", "UDPRegistryClient")):
        calls = [("register", ("calc", "Db"), 18812), ("discover", "CALC"), ("register", ("calc",), 7), ("discover", "calc")]
        for _ in range(r.range(3, 7)):
            k = r.below(3)
            calls.append([("register", tuple(case_variant(r, r.choice(["calc", "db", "x"])) for _ in range(r.range(1, 2))), r.choice([7, 18812, 9])),
                          ("discover", case_variant(r, r.choice(["calc", "db", "x", "nope"]))), ("unregister", r.choice([7, 18812, 9]))][k])
        calls += [("unregister", 7), ("discover", "calc"), ("discover", "db")]
        class FloatClock:                      # the clients do arithmetic with time.time() and hand it to settimeout
            @staticmethod
            def time():
                return 5000.0
        saved = R.time
        R.time = FloatClock
        got = []
        try:
            try:
                srv = real_classes()[Srv](host="127.0.0.1", port=0, pruning_timeout=Fraction(10 ** 6, 1000), logger=real_logger())
            except OSError as ex:
                c.count("skipped:real-sockets-unavailable(%s)" % type(ex).__name__)
                continue
            srv.notes = []
            th = threading.Thread(target=srv.start, daemon=True)
            with warnings.catch_warnings():
                warnings.simplefilter("ignore", DeprecationWarning)
                th.start()
                while not srv.active:
                    _walltime.sleep(0.005)
                kw = dict(bcast=False) if mode == "udp" else {}
                cli = getattr(R, Cli)(ip="127.0.0.1", port=srv.port, timeout=3, logger=NullLogger(), **kw)
                for call in calls:
                    if call[0] == "register":
                        got.append(cli.register(call[1], call[2], interface="127.0.0.1"))
                    elif call[0] == "discover":
                        got.append(cli.discover(call[1]))
                    else:
                        cli.unregister(call[1])
                        got.append(cli.discover("__sync__") if mode == "udp" else None)     # UDP unregister does not wait
                table = snapshot(srv.services)
                try:
                    srv.close()
                except ValueError:
                    pass
                if mode == "tcp":
                    try:
                        socket.create_connection(("127.0.0.1", srv.port), timeout=1).close()
                    except OSError:
                        pass
                th.join(5)
        finally:
            R.time = saved
        # the same requests through the model
        events, k = [("t", 5000000)], 0
        for call in calls:
            data = (cmd_register(call[1], call[2]) if call[0] == "register" else cmd_query(call[1]) if call[0] == "discover"
                    else cmd_unregister(call[1]))
            events.append(("d", "127.0.0.1", data) if mode == "udp" else ("c", k, "127.0.0.1", data))
            k += 1
        mv = valtext.from_text(run_driver([op_line(mode, 10 ** 6, 1000, events)], exe="drv_registry")[0])
        mv = [x[3:] if mode == "tcp" else x for x in mv]
        want, final = [], ()
        for call, x in zip(calls, mv):
            reply = x[1][0] if x[1] else None
            want.append(reply == "OK" if call[0] == "register" else reply if call[0] == "discover"
                        else (() if mode == "udp" else None))
            if x[3] is not None:
                final = x[3]
        c.evaluations += len(calls)
        c.count("real-clients-vs-real-server:%s-calls" % mode, len(calls))
        c.signatures.add("real-clients:%s" % mode)
        if valtext.canon(tuple(got)) != valtext.canon(tuple(want)) or valtext.canon(table) != valtext.canon(final):
            c.disagreements.append(dict(case=dict(kind="real-clients", mode=mode, calls=[list(map(str, x)) for x in calls]),
                                        impl=(repr(got) + " | " + repr(table))[-700:], model=(repr(want) + " | " + repr(final))[-700:],
                                        source="real-clients"))


def real_socket_correspondence(ctx, c, r):
    """a handful of histories on the real servers over real loopback sockets against the model"""
    R = reg()
    tcp_timeout = R.TCPRegistryServer.TIMEOUT
    for mode, pruning, pay in real_socket_cases(ctx, r):
        try:
            recs = run_real_sockets(mode, pruning, pay)
        except OSError as ex:
            c.count("skipped:real-sockets-unavailable(%s)" % type(ex).__name__)
            continue
        events = [("t", 5000)]
        for k, d in enumerate(pay):
            if mode == "udp":
                events.append(("d", "127.0.0.1", d))
            elif d is None:
                events += [("s", k, "127.0.0.1"), ("t", 5000)]
            else:
                events.append(("c", k, "127.0.0.1", d))
        line = run_driver([op_line(mode, pruning, 1000, events, [x for x in recs])], exe="drv_registry")[0]
        if line in ("not-modelled", "bad-op"):
            c.count("skipped:real-sockets-" + line)
            continue
        mv = valtext.from_text(line)
        if mode == "tcp":
            mv = tuple(x[3:] for x in mv)
        for rec in recs:
            rec.setdefault("hang", False)
        iv = impl_value("udp", recs)
        c.evaluations += len(recs)
        c.count("real-sockets:%s-events" % mode, len(recs))
        ok = valtext.canon(mv) == valtext.canon(iv)
        for rec in recs:
            if rec["kind"] == "s":
                c.count("real-sockets:tcp-silent-client")
                if not (tcp_timeout - 0.5 <= rec.get("wall", 0) <= tcp_timeout + 2.0):
                    ok = False
        c.signatures.add("real-sockets:%s:%d" % (mode, min(len(recs), 12)))
        if not ok:
            c.disagreements.append(dict(case=dict(kind="real-sockets", mode=mode, pruning_ms=pruning, fd_limit=1000,
                                                  events=enc_events(events)),
                                        impl=valtext.canon(iv)[-700:], model=valtext.canon(mv)[-700:],
                                        walls=[round(rec.get("wall", 0), 2) for rec in recs], source="real-sockets"))


# ------------------------------------------------------------------------------------------ op lines for the model
def nonascii_strs(v, acc, budget):
    t = type(v)
    if budget[0] <= 0:
        return
    budget[0] -= 1
    if t is str:
        if any(ord(c) > 127 for c in v):
            acc.add(v)
    elif t in (tuple, frozenset):
        for x in v:
            nonascii_strs(x, acc, budget)
    elif t is slice:
        for x in (v.start, v.stop, v.step):
            nonascii_strs(x, acc, budget)


def hints_for(data):
    """interpreter facts the model needs for this datagram: upper/lower of non-ASCII text in it, and the iteration
    order of every frozenset the code iterates (the datagram itself, args, names)"""
    try:
        v = brine().load(data)
    except BaseException:  # noqa
        return []
    hints = []
    strs = set()
    nonascii_strs(v, strs, [400])
    for s in sorted(strs):     # `names` given as one text is iterated character by character
        for ch in s:
            if ord(ch) > 127 and len(strs) < 600:
                strs = strs | {ch}
    for s in sorted(strs):
        st = valtext.to_text(s)
        try:
            hints.append("U %s %s" % (st, valtext.to_text(s.upper())))
            hints.append("L %s %s" % (st, valtext.to_text(s.lower())))
        except Exception:  # noqa
            pass
    fsets = []
    if type(v) is frozenset:
        fsets.append(v)
    top = tuple(v) if type(v) in (tuple, frozenset) else ()
    if len(top) == 3:
        args = top[2]
        if type(args) is frozenset:
            fsets.append(args)
        if type(args) in (tuple, frozenset):
            for x in tuple(args):
                if type(x) is frozenset:
                    fsets.append(x)
    for f in fsets:
        items = tuple(f)
        hints.append("F %s %s" % (valtext.to_text(f), valtext.to_text(items)))
    return hints


def op_line(mode, pruning_ms, fd_limit, events, recs=None):
    """`recs`: the records of the real run of these events; from them only the two facts about the INTERPRETER are
    taken (did brine.load / brine.dump hit the recursion limit inside the registry during that event)"""
    r = reg()
    pr = pruning_ms if pruning_ms is not None else int(r.DEFAULT_PRUNING_TIMEOUT * 1000)
    toks = ["reg", mode, str(pr), str(fd_limit)]
    k = 0
    for ev in events:
        if ev[0] == "x":
            continue
        if ev[0] == "t":
            toks += ["t", str(ev[1])]
            continue
        rec = recs[k] if recs is not None and k < len(recs) else {}
        k += 1
        limit = (["RL"] if rec.get("rl") else []) + (["RD"] if rec.get("rd") else [])
        if ev[0] == "d":
            data = ev[2]
            seen = data[:r.MAX_DGRAM_SIZE] if mode == "udp" else data
            h = hints_for(seen) + limit
            toks += ["d", data.hex() or "-", valtext.to_text(ev[1]), str(len(h))] + h
        elif ev[0] == "c":
            data = ev[3]
            h = hints_for(data[:r.MAX_DGRAM_SIZE]) + limit
            toks += ["c", str(ev[1]), data.hex() or "-", valtext.to_text(ev[2]), str(len(h))] + h
        elif ev[0] == "s":
            toks += ["s", str(ev[1])]
    return " ".join(toks)


# ------------------------------------------------------------------------------------------ generators
HOSTS = ["10.0.0.1", "10.0.0.2", "fe80::1", "h"]
PORTS = [18812, 18813, 7, 0]
ALIASES = ["calc", "CALC", "Calc", "db", "Db", "x", "svc.v2", "été", "straße", "ǆ", "ı", "i", "",
           "MASTER", "master"]
PRUNINGS = [3000, 10000, 10000, None, 1, 0, -1000]
ODD_HOSTS = [None, 5, b"h", ("a", 1), 2.5, ""]          # what a transport never reports; the code only stores and returns it


def dump(v):
    return brine().dump(v)


def cmd_register(names, port):
    return dump(("RPYC", "REGISTER", (tuple(names), port)))


def cmd_unregister(port):
    return dump(("RPYC", "UNREGISTER", (port,)))


def cmd_query(name):
    return dump(("RPYC", "QUERY", (name,)))


def case_variant(r, s):
    k = r.below(4)
    return s if k == 0 else s.upper() if k == 1 else s.lower() if k == 2 else s.swapcase()


GARBAGE = [b"", b"\x00", b"\xff", b"\x12", b"\x12\x08\x0d", bytes([0x12, 0x00, 0x00]),
           lambda: dump(("RPYC", 5, ())), lambda: dump(("RPYC", None, ("calc",))), lambda: dump(("RPYX", "QUERY", ("calc",))),
           lambda: dump(("rpyc", "QUERY", ("calc",))), lambda: dump((b"RPYC", "QUERY", ("calc",))),
           lambda: dump(("RPYC", "NOPE", ())), lambda: dump(("RPYC", b"QUERY", ("calc",))),
           lambda: dump(("RPYC", "QUERY", ())), lambda: dump(("RPYC", "QUERY", ("a", "b"))),
           lambda: dump(("RPYC", "QUERY", (5,))), lambda: dump(("RPYC", "QUERY", None)),
           lambda: dump(("RPYC", "REGISTER", (("calc",),))), lambda: dump(("RPYC", "REGISTER", (5, 18812))),
           lambda: dump(("RPYC", "REGISTER", ((b"calc",), 18812))), lambda: dump(("RPYC", "REGISTER", (("calc", 5), 18812))),
           lambda: dump(("RPYC", "UNREGISTER", ())), lambda: dump(("RPYC", "UNREGISTER", (1, 2))),
           lambda: dump(("RPYC", "QUERY")), lambda: dump(("RPYC", "QUERY", ("calc",), 1)), lambda: dump("RPYC"),
           lambda: dump(("RPYC", "", ())), lambda: dump(("RPYC", "QUERYİ", ("calc",))),
           lambda: dump(("RPYC", "_work", ())), lambda: dump(("RPYC", "query ", ("calc",))),
           lambda: dump(("RPYC", "QUERY", ("calc",)))[:-3], lambda: cmd_register(["calc", "db"], 18812)[:-1],
           lambda: dump((("RPYC",), "QUERY", ("calc",))), lambda: dump(frozenset(["RPYC", "QUERY", ("calc",)])),
           lambda: dump(("RPYC", "QUERY", frozenset(["calc"]))), lambda: dump(("RPYC", "QUERY", "x")),
           lambda: dump(("RPYC", "UNREGISTER", b"\x07")), lambda: dump(("RPYC", "REGISTER", ("xy", 7))),
           lambda: dump(("RPYC", "REGISTER", (frozenset(["calc", "db"]), 7)))]


def garbage(r):
    g = r.choice(GARBAGE)
    return g() if callable(g) else g


def gen_history(r, mode, monotone=False):
    """a history of well-formed commands with known meaning, clock moves, and now and then a malformed datagram or a
    silent TCP client; returns (pruning_ms, fd_limit, events, meaning) where meaning[i] describes events[i]"""
    pruning = r.choice(PRUNINGS)
    pr = pruning if pruning is not None else int(reg().DEFAULT_PRUNING_TIMEOUT * 1000)
    fd_limit = r.choice([1000, 1000, 1000, 3, 2, 1]) if mode == "tcp" else 1000
    hosts = HOSTS[:r.range(1, len(HOSTS))]
    if mode == "base" and r.chance(1, 6):
        hosts = hosts[:2] + [r.choice(ODD_HOSTS), r.choice(ODD_HOSTS)]
    ports = PORTS[:r.range(1, len(PORTS))]
    aliases = [r.choice(ALIASES) for _ in range(r.range(1, 5))]
    events, meaning = [], []
    now = r.choice([0, 0, 5000, 10 ** 9])
    peer = [0]

    def emit(host, data, what):
        if mode == "tcp":
            p = peer[0] if r.chance(9, 10) else r.below(peer[0] + 1)
            peer[0] += 1
            host = HOSTS[p % len(HOSTS)]
            what = dict(what, host=host)
            events.append(("c", p, host, data))
        else:
            events.append(("d", host, data))
        meaning.append(what)
    events.append(("t", now))
    meaning.append(dict(kind="clock", now=now))
    for _ in range(r.range(4, 28)):
        k = r.below(20)
        host = r.choice(hosts)
        if k < 7:
            names = tuple(case_variant(r, r.choice(aliases)) for _ in range(r.range(1, 3)))
            port = r.choice(ports)
            emit(host, cmd_register(names, port), dict(kind="register", host=host, names=names, port=port))
        elif k < 10:
            port = r.choice(ports)
            emit(host, cmd_unregister(port), dict(kind="unregister", host=host, port=port))
        elif k < 15:
            name = case_variant(r, r.choice(aliases))
            emit(host, cmd_query(name), dict(kind="query", host=host, name=name))
        elif k == 17 and r.chance(1, 2):
            what = r.choice(["timeout", "reset", "send-fails"] if mode != "base" else ["timeout", "reset"])
            events.append(("x", what))
            meaning.append(dict(kind="hiccup"))
        elif k < 18:
            now += r.choice([0, 1, 999, 1000, 2000, pr - 1, pr, pr + 1, pr // 2, 2 * pr + 5, 1, 1000, -1, -1000, -pr, -3 * abs(pr) - 7])
            if monotone and events and now < max([e[1] for e in events if e[0] == "t"] or [now]):
                now = max(e[1] for e in events if e[0] == "t")
            events.append(("t", now))
            meaning.append(dict(kind="clock", now=now))
        elif k == 18 and mode == "tcp":
            p = peer[0]
            peer[0] += 1
            events.append(("s", p, HOSTS[p % len(HOSTS)]))
            meaning.append(dict(kind="silent"))
        else:
            emit(host, garbage(r), dict(kind="other", host=host))
    return pruning, fd_limit, events, meaning


def prefix_events():
    """a small populated table in front of a datagram stream"""
    return [("t", 1000), ("d", "10.0.0.1", cmd_register(["calc", "db"], 18812)), ("t", 2000),
            ("d", "10.0.0.2", cmd_register(["Calc"], 18812)), ("d", "10.0.0.1", cmd_register(["calc"], 7)), ("t", 9000)]


def dumpable_shapes(r, n):
    b = brine()
    out = []
    for v in c04.boundary_values() + [c04.gen_value(r, 3) for _ in range(n)]:
        try:
            if c04.depth_of(v) <= 60 and len(b.dump(v)) <= 1200:
                out.append(v)
        except Exception:  # noqa
            pass
    return out


def shaped_datagrams(r, shapes):
    """every value shape in place of each field of a command"""
    out = []
    for v in shapes:
        k = r.below(4)
        name, port = r.choice(["calc", "CALC", "db", "zz"]), r.choice([18812, 7, 5])
        for t in ((v, "QUERY", (name,)), ("RPYC", v, (name,)), ("RPYC", "QUERY", v), ("RPYC", "REGISTER", v),
                  ("RPYC", "UNREGISTER", v), ("RPYC", "QUERY", (v,)), ("RPYC", "REGISTER", (v, port)),
                  ("RPYC", "REGISTER", ((name,), v)), ("RPYC", "REGISTER", ((name, v), port)), ("RPYC", "UNREGISTER", (v,)),
                  v, (v, v, v)):
            if k and r.chance(1, 2):
                continue
            try:
                out.append(dump(t))
            except Exception:  # noqa
                pass
    return out


def has_nan(v):
    t = type(v)
    if t is float:
        return v != v
    if t is complex:
        return v.real != v.real or v.imag != v.imag
    if t in (tuple, frozenset):
        return any(has_nan(x) for x in v)
    if t is slice:
        return has_nan(v.start) or has_nan(v.stop) or has_nan(v.step)
    return False


def host_shape_cases(r, shapes):
    """every value shape as the HOST the transport reports (base class only: a real transport reports text)"""
    hosts = [v for v in shapes if not has_nan(v) and len(dump(v)) <= 200]
    out = []
    for i in range(0, len(hosts), 12):
        ev = [("t", 1000), ("d", "10.0.0.1", cmd_register(["calc"], 7))]
        for h in hosts[i:i + 12]:
            ev += [("d", h, cmd_register(["calc", "db"], 7)), ("d", h, cmd_query("CALC")), ("d", h, cmd_register(["calc"], 7)),
                   ("d", h, cmd_unregister(7)), ("d", h, cmd_query("db"))]
        out.append(ev)
    return out


DEEP_LIMIT = 1000       # the interpreter's default recursion limit, under which a registry normally runs


def nested(depth, leaf):
    """brine encoding of `leaf` wrapped in `depth` one-element tuples, built without recursion"""
    return bytes([0x10]) * depth + dump(leaf)


def deep_cases(ctx):
    """values nested near the recursion limit as port and as name: the depth at which brine.load still succeeds but
    brine.dump of the reply (which nests the port as deep again) no longer does is one single depth, and which one
    depends on the parity of the stack below `_work` - so a whole window of depths, both parities, several leaves
    (they need different numbers of frames to load and to dump).  Run under the default recursion limit."""
    out = []
    # where does the registry, at the stack depth it runs at here, stop being able to load a nested port at all
    top = DEEP_LIMIT // 2 + 8
    probe = [("t", 0)] + [("d", "10.0.0.9", dump(("RPYC", "REGISTER", (("probe%d" % d,), 7)))[:-1] + nested(d, 7))
                          for d in range(top - 120, top)]
    recs = run_real("base", 10 ** 9, 1000, probe, reclimit=DEEP_LIMIT)
    loaded = [d for d, rec in zip(range(top - 120, top), recs) if not rec.get("rl")]
    edge = max(loaded) if loaded else top - 20
    wide, narrow = range(edge - 14, edge + 5), range(edge - 7, edge + 4)
    leaves = [(7, wide), (300, narrow), ("x", narrow), (b"", narrow), ((), narrow), (frozenset(), narrow), (1.5, narrow)]
    if ctx.tier == "thorough":
        leaves = [(l, range(edge - 150, edge + 6)) for l, _ in leaves]
    k = 0
    for leaf, depths in leaves:
        for depth in depths:
            for pad in (0, 1):
                mode = ("base", "udp", "tcp")[k % 3]
                k += 1
                head = dump(("RPYC", "REGISTER", (("deep",), 7)))[:-1]
                reg_deep_port = head + nested(depth, leaf)
                reg_deep_name = dump(("RPYC", "REGISTER", (7, 7)))[:-2] + nested(depth, leaf) + dump(7)
                q_deep_name = dump(("RPYC", "QUERY", (7,)))[:-1] + nested(depth, leaf)
                seq = [cmd_register(["calc"], 18812), reg_deep_port, cmd_query("deep"), cmd_query("DEEP"), reg_deep_name,
                       q_deep_name, cmd_unregister(7), cmd_query("calc"), cmd_query("deep")]
                if mode == "tcp":
                    ev = [("t", 1000)] + [("c", i, "10.0.0.1", d) for i, d in enumerate(seq)]
                else:
                    ev = [("t", 1000)] + [("d", "10.0.0.1", d) for d in seq]
                out.append(("deep", mode, 10000, 1000, ev, False, k % 5 == 0, DEEP_LIMIT, pad))
    return out


def wellformed_pool(r):
    out = []
    for _ in range(60):
        names = [case_variant(r, r.choice(ALIASES)) for _ in range(r.range(1, 3))]
        out += [cmd_register(names, r.choice(PORTS)), cmd_unregister(r.choice(PORTS)), cmd_query(case_variant(r, r.choice(ALIASES)))]
    for cmd in ("query", "Query", "QUERY", "qUERY", "register", "Register", "unregister", "UnRegister", "QUERYı", "ıquery"):
        out += [dump(("RPYC", cmd, ("calc",))), dump(("RPYC", cmd, (("calc",), 7))), dump(("RPYC", cmd, (7,)))]
    return out


def datagram_corpus(ctx, r):
    shapes = dumpable_shapes(r, ctx.budget(250, 4000))
    out = [b""] + [bytes([a]) for a in range(256)]
    two = [bytes([a, b]) for a in range(256) for b in range(256)]
    if ctx.tier == "thorough":
        out += two
        exhaustive2 = True
    else:
        out += [two[r.below(len(two))] for _ in range(1500)] + [bytes([a, b]) for a in (0x10, 0x11, 0x12, 0x13, 0x14, 0x1a, 0x19, 0x08)
                                                                 for b in range(0, 256, 3)]
        exhaustive2 = False
    pool = wellformed_pool(r)
    valid = c04.valid_encodings(r, ctx.budget(100, 1500))
    valid = [e for e in valid if len(e) <= 1600]
    for _ in range(ctx.budget(8500, 120000)):
        out.append(c04.mutate(r, r.choice(pool)))
    for _ in range(ctx.budget(3500, 60000)):
        out.append(c04.mutate(r, r.choice(valid)))
    for _ in range(ctx.budget(1500, 40000)):
        n = r.below(14) + 1
        bs = bytearray(r.bytes(n))
        if r.chance(2, 3):
            bs[0] = r.below(0x20)
        out.append(bytes(bs))
    out += valid + pool
    out += shaped_datagrams(r, shapes)
    big = dump(("RPYC", "REGISTER", (("a" * 1490,), 18812)))
    out += [big, big[:1500], dump(("RPYC", "REGISTER", (("calc",) + ("x" * 200,) * 7, 18812))), b"\x00" * 1501,
            dump(("RPYC", "QUERY", ("c" * 1600,)))]
    return out, exhaustive2, shapes


# ------------------------------------------------------------------------------------------ correspondence
def classify(mode, data):
    """which branch of `_work` a datagram takes, judged from outside (for the distribution only)"""
    r, b = reg(), brine()
    if mode in ("udp", "tcp"):
        data = data[:r.MAX_DGRAM_SIZE]
    try:
        v = b.load(data)
    except BaseException:  # noqa
        return "undecodable"
    try:
        magic, cmd, args = v
    except Exception:  # noqa
        return "not-a-triple"
    if type(magic) is not str or magic != "RPYC":
        return "wrong-magic"
    if type(cmd) is not str:
        return "non-text-command"
    if cmd.lower() not in ("query", "register", "unregister"):
        return "unknown-command"
    try:
        n = len(tuple(args))
    except Exception:  # noqa
        return "args-not-iterable"
    want = dict(query=1, register=2, unregister=1)[cmd.lower()]
    if n != want:
        return "wrong-arg-count"
    return cmd.lower()


def run_case(mode, pruning, fd_limit, events, cb_raises=False, real_log=False, reclimit=None, pad=0):
    recs = run_real(mode, pruning, fd_limit, events, cb_raises, real_log, reclimit, pad)
    return recs, valtext.canon(impl_value(mode, recs))


def canon_model(line):
    if line in ("not-modelled", "bad-op"):
        return line
    try:
        return valtext.canon(valtext.from_text(line))
    except ValueError as ex:     # the poison code point: an upper()/lower() the harness did not supply
        return "unreadable model output (%s): %s" % (ex, line[-300:])


def correspondence(ctx):
    c = Corr()
    c.rule = ("(a) seeded histories of register/unregister/query/clock moves from up to 4 hosts x 4 ports x 15 aliases "
              "(case variants, non-ASCII, empty), pruning intervals {0, 1 ms, 3 s, 10 s, default}, with malformed datagrams "
              "and (tcp) silent clients and descriptor limits mixed in, clocks that also go backwards, a negative pruning "
              "interval, non-text hosts (base class), a quarter with a real logging.Logger, on the scripted base class, the "
              "real UDP server and the real TCP server; every c04 value shape as the host; a handful of histories on the "
              "real servers over real loopback sockets (own __init__/start(), one silent TCP client at the real TIMEOUT); "
              "rpyc's own client classes against its own servers over real sockets; transport hiccups (recv/accept timeouts and "
              "resets, sends that fail); a family of values nested around the depth at which the registry's brine.load / "
              "brine.dump hit the recursion limit (every depth there, both stack parities, 7 leaf types, as port and as name, "
              "under the default limit 1000); every unanswered datagram is also checked to have left no trace; the statement "
              "oracle (real code only) runs on ~700 histories of every run; (b) datagram streams over a populated table: all byte strings of length <= 1, a sample "
              "(thorough: all) of length 2, c04's mutations of well-formed commands and of valid encodings, random bytes, "
              "every c04 value shape in place of magic/command/args/name/names/port. Compared after every event: reply, "
              "notifications, whole services table in dict order with times, loop alive (tcp: accepted, elapsed, tracked "
              "sockets). Non-trivial = the event is not an undecodable datagram on an unchanged table; distinct = distinct "
              "(mode, branch taken, reply kind, notification count, table size class).")
    r = Rng(ctx.seed).fork("c18")
    t0 = _walltime.time()
    cases = []      # (tag, mode, pruning, fd_limit, events, cb_raises)
    for i in range(ctx.budget(2100, 30000)):
        mode = ("base", "udp", "tcp")[i % 3]
        pruning, fd_limit, events, _m = gen_history(r, mode)
        cases.append(("history", mode, pruning, fd_limit, events, r.chance(1, 5), i % 4 == 1))
    corpus, exhaustive2, shapes = datagram_corpus(ctx, r)
    for ev in host_shape_cases(r, shapes):
        cases.append(("host-shapes", "base", 10000, 1000, ev, False, False))
    n_dgrams = len(corpus)
    batch = 40
    for i in range(0, len(corpus), batch):
        chunk = corpus[i:i + batch]
        mode = ("base", "udp", "tcp")[(i // batch) % 3]
        ev = prefix_events()
        pruning = r.choice([10000, 10000, 3000, None])
        if mode == "tcp":
            ev = [e if e[0] == "t" else ("c", 900 + k, e[1], e[2]) for k, e in enumerate(ev)]
            ev += [("c", k, HOSTS[k % 3], d) for k, d in enumerate(chunk)]
        else:
            odd = mode == "base" and (i // batch) % 6 == 0
            ev += [("d", ODD_HOSTS[k % len(ODD_HOSTS)] if odd and k % 3 == 0 else HOSTS[k % 3], d) for k, d in enumerate(chunk)]
        cases.append(("datagrams", mode, pruning, 1000, ev, False, (i // batch) % 4 == 2))
    cases = [x + (None, 0) for x in cases] + deep_cases(ctx)
    lines, impl = [], []
    for tag, mode, pruning, fd_limit, events, cb, real_log, reclimit, pad in cases:
        # (a RecursionError raised by the registry is recorded inside run_real as the death of its loop; one raised here
        # can only come from the harness's own decoding of a deep reply for comparison)
        recs, want = run_case(mode, pruning, fd_limit, events, cb, real_log, reclimit, pad)
        if tag == "deep":
            c.count("deep:histories")
            for rec in recs:
                if rec.get("rl"):
                    c.count("deep:brine.load hit the recursion limit inside the registry")
                if rec.get("rd"):
                    c.count("deep:brine.dump(reply) hit the recursion limit inside the registry")
        lines.append(op_line(mode, pruning, fd_limit, events, recs))
        impl.append((tag, mode, pruning, fd_limit, events, recs, want, dict(reclimit=reclimit, pad=pad)))
        if real_log:
            c.count("run-with-real-logging.Logger")
    ctx.log("real code: %d histories, %d datagrams in %.1fs" % (len([x for x in cases if x[0] == "history"]), n_dgrams,
                                                              _walltime.time() - t0))
    try:
        outs = run_driver(lines, exe="drv_registry")
    except DriverError as ex:
        c.error = str(ex)
        return c
    for (tag, mode, pruning, fd_limit, events, recs, want, kw), got_line in zip(impl, outs):
        got = canon_model(got_line)
        evs = [e for e in events if e[0] not in ("t", "x")]
        if got == "not-modelled":
            c.count("skipped:not-modelled(NaN port / slice over frozenset)")
            # the stream up to the offending datagram is still compared: every prefix in one driver call
            cuts = [cut_events(events, k) for k in range(len(evs))]
            gs = run_driver([op_line(mode, pruning, fd_limit, cut, recs) for cut in cuts], exe="drv_registry")
            for cut, gl in zip(cuts, gs):
                g = canon_model(gl)
                if g == "not-modelled":
                    break
                _r, w = run_case(mode, pruning, fd_limit, cut, False, **kw)
                c.evaluations += 1
                if g != w:
                    c.disagreements.append(dict(case=dict(kind="history", mode=mode, pruning_ms=pruning, fd_limit=fd_limit, reclimit=kw["reclimit"], pad=kw["pad"],
                                                          events=enc_events(cut)), impl=w[-600:], model=g[-600:]))
                    break
            continue
        prev_snap = repr(())
        for k_ev, (rec, e) in enumerate(zip(recs, evs)):
            c.evaluations += 1
            snap_now = repr(rec["services"])
            if rec["reply"] is None and rec["alive"] and rec["accepted"]:
                # a datagram that was not answered was refused: it must have left no trace at all
                if snap_now != prev_snap or rec["notes"]:
                    c.count("REFUSED-DATAGRAM-LEFT-RESIDUE")
                    c.disagreements.append(dict(case=dict(kind="history", mode=mode, pruning_ms=pruning, fd_limit=fd_limit, reclimit=kw["reclimit"], pad=kw["pad"],
                                                          events=enc_events(cut_events(events, k_ev))),
                                                impl="refused datagram changed the table: %s -> %s" % (prev_snap[-300:], snap_now[-300:]),
                                                model="(a refused datagram changes nothing)", source=tag))
                else:
                    c.count("refused:no-trace")
            prev_snap = snap_now
            data = e[2] if e[0] == "d" else e[3] if e[0] == "c" else None
            br = "silent-client" if data is None else classify(mode, data)
            c.count("%s:%s" % (mode, br))
            c.count("reply:" + ("none" if rec["reply"] is None else "sent"))
            if not rec["alive"]:
                c.count("loop-died")
            if mode == "tcp" and not rec["accepted"]:
                c.count("tcp:accept-refused(EMFILE)")
            if not (br == "undecodable" and not rec["notes"]):
                nserv = sum(len(x[1]) for x in rec["services"])
                c.signatures.add("%s:%s:%s:%d:%d" % (mode, br, "r" if rec["reply"] is not None else "-", min(len(rec["notes"]), 4),
                                                    min(nserv, 6)))
        if got != want:
            k = first_difference(mode, pruning, fd_limit, events, **kw) if len(c.disagreements) < 25 else None
            c.disagreements.append(dict(case=dict(kind="history", mode=mode, pruning_ms=pruning, fd_limit=fd_limit, reclimit=kw["reclimit"], pad=kw["pad"],
                                                  events=enc_events(cut_events(events, k) if k is not None else events)),
                                        impl=want[-600:], model=got[-600:], source=tag))
        elif len(c.samples) < 12 and (len(lines) < 12 or c.evaluations % 1013 < 25):
            c.samples.append(dict(mode=mode, events=enc_events(events)[:6], outcome=want[:300]))
    statement_oracle_sample(ctx, c, r)
    try:
        real_socket_correspondence(ctx, c, r)
        client_server_histories(ctx, c, r)
    except DriverError as ex:
        c.error = str(ex)
        return c
    R_ = reg()
    c.extra["tcp_patience"] = dict(server_timeout_ms=int(R_.TCPRegistryServer.TIMEOUT * 1000), client_default_timeout_ms=2000,
                                   note="see theorem tcp_delay_and_patience: silent clients tolerated by a default-timeout client "
                                        "= (client - 1) // server")
    import inspect as _insp
    c.extra["tcp_patience"]["client_default_timeout_ms"] = int(_insp.signature(R_.TCPRegistryClient.__init__).parameters["timeout"].default * 1000)
    c.extra["tcp_patience"]["silent_clients_tolerated"] = ((c.extra["tcp_patience"]["client_default_timeout_ms"] - 1)
                                                           // c.extra["tcp_patience"]["server_timeout_ms"])
    c.extra["logging_format_errors_with_real_logger"] = _Sink.errors
    c.extra["theorem_kinds"] = dict(
        obligations_on_generated_facts=["commands_are_modelled", "client_requests_understood", "reregister_within_pruning",
                                        "tcp_recv_closes_unreplied", "all_brine_values_hashable", "logger_warn_survives",
                                        "reply_dump_is_guarded", "datagram_bounded"],
        structural_facts=["query_order", "registration_order", "stored_iff_view", "received_is_genuine", "tcp_client_is_workStep",
                          "tcp_silent_step"],
        counterexamples=["C18_counterexample_unguarded_reply_dump (repaired)",
                         "C18_counterexample_silent_client_outlasts_default_client (known finding)"],
        note="every other theorem of Rpyc.Props.C18 carries a clause of the property")
    c.extra["observations"] = [
        "outside the statement (it is about the registry's answer, which is correct here) and assumed away: a reply is one "
        "datagram / one recv(MAX_DGRAM_SIZE) on the client side; with about 76 or more servers under one name (reply > 1500 "
        "bytes) rpyc's own UDPRegistryClient.discover / TCPRegistryClient.discover raise TypeError from brine.load of the "
        "truncated reply, and above 65507 bytes UDPRegistryServer._send swallows EMSGSIZE so the query gets no answer"]
    c.extra["datagrams"] = n_dgrams
    c.extra["histories"] = len([x for x in cases if x[0] == "history"])
    c.extra["exhaustive_datagrams_up_to_1_byte"] = 257
    if exhaustive2:
        c.extra["exhaustive_datagrams_of_2_bytes"] = 65536
    c.exhaustive = False
    return c


def statement_oracle_sample(ctx, c, r):
    """the statement oracle (real code only, no model) on every run: the boundary histories, the deep-value family and a
    seeded sample of histories with an advancing clock.  A failure is filed with the disagreements, so that the search
    that follows starts from it."""
    n = 0
    t0 = _walltime.time()
    fam = [(h[0], h[1], h[2], h[3], None, {}) for h in boundary_histories()]
    fam += [(x[1], x[2], x[3], x[4], None, dict(reclimit=x[7], pad=x[8])) for x in deep_cases(ctx)]
    for i in range(ctx.budget(600, 6000)):
        mode = ("base", "udp", "tcp")[i % 3]
        pruning, fd_limit, events, meaning = gen_history(r, mode, monotone=True)
        fam.append((mode, pruning, fd_limit, events, meaning, {}))
    known = getattr(ctx, "known_signatures", set())
    for mode, pruning, fd_limit, events, meaning, kw in fam:
        res = oracle_history(mode, pruning, fd_limit, events, meaning or meaning_of(events), **kw)
        n += 1
        if res and res[1] not in known:
            c.count("STATEMENT-ORACLE-FAILED:" + res[1])
            c.disagreements.append(dict(case=dict(kind="history", mode=mode, pruning_ms=pruning, fd_limit=fd_limit,
                                                  reclimit=kw.get("reclimit"), pad=kw.get("pad", 0), events=enc_events(events)),
                                        impl=res[0][:600], model="(the statement)", source="statement-oracle"))
    c.count("statement-oracle:histories-checked", n)
    c.extra["statement_oracle"] = dict(histories=n, seconds=round(_walltime.time() - t0, 1),
                                       what="reference map from the statement on the real code only; query answers exact up to "
                                            "order among equal refresh times; notifications against announced membership, "
                                            "independent of when stale entries are dropped; malformed classes change nothing; "
                                            "foreign live registrations untouched; loop alive; TCP delay <= TIMEOUT")


def cut_events(events, k):
    """the history up to and including its k-th (0-based) non-clock event"""
    out, n = [], 0
    for e in events:
        out.append(e)
        if e[0] not in ("t", "x"):
            if n == k:
                break
            n += 1
    return out


def first_difference(mode, pruning, fd_limit, events, **kw):
    n = len([e for e in events if e[0] not in ("t", "x")])
    for k in range(n):
        cut = cut_events(events, k)
        try:
            _r, w = run_case(mode, pruning, fd_limit, cut, False, **kw)
            g = canon_model(run_driver([op_line(mode, pruning, fd_limit, cut, _r)], exe="drv_registry")[0])
        except Exception:  # noqa
            return k
        if g != w:
            return k
    return None


def enc_events(events):
    out = []
    for e in events:
        if e[0] in ("t", "x"):
            out.append([e[0], e[1]])
        elif e[0] == "d":
            out.append(["d", e[1], e[2].hex()])
        elif e[0] == "c":
            out.append(["c", e[1], e[2], e[3].hex()])
        else:
            out.append(["s", e[1], e[2]])
    return out


def dec_events(events):
    out = []
    for e in events:
        if e[0] in ("t", "x"):
            out.append((e[0], e[1]))
        elif e[0] == "d":
            out.append(("d", e[1], bytes.fromhex(e[2])))
        elif e[0] == "c":
            out.append(("c", e[1], e[2], bytes.fromhex(e[3])))
        else:
            out.append(("s", e[1], e[2]))
    return out


# ------------------------------------------------------------------------------------------ direct oracle (statement, real code only)
class Reference:
    """The statement's registry, independent of WHEN an implementation drops stale entries:
    R: (NAME, host, port) -> last refresh, for what was registered and not unregistered since;
    P: the pairs whose last notification was `added` (what a listener believes to be there)."""
    def __init__(self, pruning_ms):
        self.R, self.P, self.pruning = {}, set(), pruning_ms

    def stale(self, key, now):
        return key not in self.R or self.R[key] < now - self.pruning

    def live(self, name, now):
        """(refresh time, address) of the servers a query for `name` must list, oldest refresh first"""
        name = name.upper()
        return sorted(((t, (k[1], k[2])) for k, t in self.R.items() if k[0] == name and t >= now - self.pruning),
                      key=lambda x: x[0])

    def notes(self, notes, now, may_add=(), may_remove_addr=None):
        """apply the notifications of one event; returns a complaint or None.  `added` only for a pair the event
        registers and that is not believed present; `removed` only for a pair believed present that the event
        unregisters or that is stale at this moment (an implementation may drop stale entries whenever it likes)"""
        seen = set()
        for kind, name, host, port in notes:
            key = (name, host, port)
            if (kind, key) in seen:
                return "%s fired twice for %r" % ("added" if kind else "removed", key)
            seen.add((kind, key))
            if kind == 1:
                if key not in may_add:
                    return "added fired for %r, which this event does not register" % (key,)
                if key in self.P:
                    return "added fired for %r, which was already announced and not removed since" % (key,)
                self.P.add(key)
            else:
                if key not in self.P:
                    return "removed fired for %r, which is not announced as present" % (key,)
                if not ((may_remove_addr is not None and (host, port) == may_remove_addr) or self.stale(key, now)):
                    return "removed fired for %r, which is neither unregistered by this event nor stale" % (key,)
                self.P.discard(key)
        return None


def flat_table(services):
    return dict(((name, h, p), t) for name, inner in services for h, p, t in inner)


def oracle_history(mode, pruning, fd_limit, events, meaning, reclimit=None, pad=0):
    """None if the statement holds on this run of the real code, else (description, signature).
    `meaning[i]` says what events[i] is meant to be (a generated well-formed command, or 'other')."""
    r = reg()
    pr = pruning if pruning is not None else int(r.DEFAULT_PRUNING_TIMEOUT * 1000)
    recs = run_real(mode, pruning, fd_limit, events, False, False, reclimit, pad)
    ref = Reference(pr)
    now = 0
    k = 0
    snap = repr(())
    prev_services = ()
    tcp_timeout = int(round(r.TCPRegistryServer.TIMEOUT * 1000))
    for e, m in zip(events, meaning):
        if e[0] == "x":
            continue
        if e[0] == "t":
            if e[1] < now:
                return None          # the statement's clock only advances; what follows is for the correspondence alone
            now = e[1]
            continue
        if k >= len(recs):
            return "the registry stopped before event %d (%r)" % (k, m.get("kind")), "loop-stopped"
        rec = recs[k]
        k += 1
        if rec["hang"]:
            return ("event %d (%s): the registry blocks for ever in recv on a client that sends nothing" % (k - 1, m["kind"]),
                    "tcp-silent-client-blocks")
        if not rec["alive"]:
            return ("event %d (%s): the registry's loop terminated with %s" % (k - 1, m["kind"], rec.get("died")),
                    "loop-died:" + m["kind"])
        if mode == "tcp":
            if rec["elapsed"] > tcp_timeout:
                return "event %d delayed the registry by %d ms > TIMEOUT" % (k - 1, rec["elapsed"]), "tcp-delay"
            now += rec["elapsed"]
            if not rec["accepted"]:
                if m["kind"] in ("query", "register", "unregister"):
                    return ("event %d: a well-formed %s from %s was not accepted: the registry is out of descriptors, %d "
                            "sockets of earlier unanswered requests are still open" % (k - 1, m["kind"], m["host"], rec["open"]),
                            "tcp-unreplied-sockets-exhaust-descriptors")
                continue
        prev_snap, snap_now = snap, repr(rec["services"])
        snap = snap_now
        reply = None
        if rec["reply"] is not None:
            try:
                reply = brine().load(rec["reply"])
            except Exception:  # noqa
                return "event %d: the reply is not decodable" % (k - 1), "reply-undecodable"
        if m["kind"] == "register":
            keys = [(n.upper(), m["host"], m["port"]) for n in m["names"]]
            bad = ref.notes(rec["notes"], now, may_add=set(keys))
            if bad:
                return "event %d (register): %s" % (k - 1, bad), "notifications:register"
            for key in keys:
                ref.R[key] = now
                if key not in ref.P:
                    return ("event %d (register): %r became registered and no `added` was fired (notifications %r)"
                            % (k - 1, key, rec["notes"]), "notifications:register")
        elif m["kind"] == "unregister":
            addr = (m["host"], m["port"])
            bad = ref.notes(rec["notes"], now, may_remove_addr=addr)
            if bad:
                return "event %d (unregister): %s" % (k - 1, bad), "notifications:unregister"
            for key in [x for x in ref.R if (x[1], x[2]) == addr]:
                del ref.R[key]
            left = [x for x in ref.P if (x[1], x[2]) == addr]
            if left:
                return ("event %d (unregister): %r was unregistered and no `removed` was fired (notifications %r)"
                        % (k - 1, left, rec["notes"]), "notifications:unregister")
        elif m["kind"] == "query":
            bad = ref.notes(rec["notes"], now)
            if bad:
                return "event %d (query): %s" % (k - 1, bad), "notifications:query"
            ans = ref.live(m["name"], now)
            times = dict((a, t) for t, a in ans)
            # exactly the live servers, oldest refresh first; the statement leaves the order among equal refresh times open
            ok = (type(reply) is tuple and len(reply) == len(ans) and all(type(a) is tuple and a in times for a in reply)
                  and len(set(reply)) == len(reply)
                  and all(times[reply[i]] <= times[reply[i + 1]] for i in range(len(reply) - 1)))
            if not ok:
                return ("event %d: query %r at %d ms answered %r, the registrations (refresh time, server) say %r"
                        % (k - 1, m["name"], now, reply, ans),
                        "query-unanswered:unsendable-address-registered" if (reply is None and rec.get("rd")) else "query-answer")
        else:
            before, after = flat_table(prev_services), flat_table(rec["services"])
            strict = ("a connection that sends nothing" if e[0] == "s"
                      else strictly_malformed(mode, e[2] if e[0] == "d" else e[3]))
            if rec["reply"] is None and (snap_now != prev_snap or rec["notes"]):
                return ("event %d (%s): a datagram that was refused (no answer) changed the table: %s -> %s, notifications %r"
                        % (k - 1, m["kind"], prev_snap[-200:], snap_now[-200:], rec["notes"]), "refused-datagram-altered")
            if strict:
                # the statement's own classes of malformed datagram: nothing at all may change
                if rec["notes"] or snap_now != prev_snap:
                    return ("event %d: a datagram with %s from %s changed the registrations: %r -> %r, notifications %r"
                            % (k - 1, strict, m.get("host"), before, after, rec["notes"]), "malformed-datagram-altered:" + strict)
            # anything else may touch only what it names: entries of its own host, and stale entries (which no
            # query would return) may be dropped
            for key, t in before.items():
                if key[1] != m.get("host") and t >= now - pr and after.get(key) != t:
                    return ("event %d: a datagram from %s altered the live registration %r" % (k - 1, m.get("host"), key),
                            "foreign-registration-altered")
            for key in after:
                if key[1] != m.get("host") and key not in before:
                    return "event %d: a datagram from %s created %r" % (k - 1, m.get("host"), key), "foreign-registration-created"
            # follow whatever it legitimately did to its own host's entries
            for key in before:
                if key not in after:
                    ref.R.pop(key, None)
            ref.R.update(after)
            for kind, name, host, port in rec["notes"]:
                (ref.P.add if kind == 1 else ref.P.discard)((name, host, port))
        prev_services = rec["services"]
    return None


def strictly_malformed(mode, data):
    """the classes of malformed datagram the statement lists, judged with brine.load alone; None if the datagram
    is in none of them (then only the weaker own-host rule is demanded)"""
    r, b = reg(), brine()
    if mode in ("udp", "tcp"):
        data = data[:r.MAX_DGRAM_SIZE]
    try:
        v = b.load(data)
    except BaseException:  # noqa
        return "undecodable bytes"
    if type(v) is frozenset:
        return None
    if type(v) in (str, bytes):
        return "no (magic, command, args) triple"
    if type(v) is not tuple or len(v) != 3:
        return "no (magic, command, args) triple"
    magic, cmd, args = v
    if type(magic) is not str or magic != "RPYC":
        return "wrong magic"
    if type(cmd) is not str:
        return "a non-text command"
    if cmd.lower() not in ("query", "register", "unregister"):
        return "an unknown command"
    if type(args) is not tuple:
        return None if type(args) in (frozenset, str, bytes) else "arguments that are not a sequence"
    want = dict(query=1, register=2, unregister=1)[cmd.lower()]
    if len(args) != want:
        return "a wrong argument count"
    if cmd.lower() == "query" and type(args[0]) is not str:
        return "a wrong argument type"
    if cmd.lower() == "register":
        names = args[0]
        if type(names) in (tuple, frozenset):
            if any(type(x) is not str for x in names):
                return "a wrong argument type"
        elif type(names) is not str:
            return "a wrong argument type"
    return None


def meaning_of(events):
    """recover what each event of a stored history is: a strictly well-formed command of the shape the generators
    emit (text names, tuple arguments), or 'other'"""
    b = brine()
    out = []
    for e in events:
        if e[0] == "x":
            out.append(dict(kind="hiccup"))
            continue
        if e[0] == "t":
            out.append(dict(kind="clock", now=e[1]))
            continue
        if e[0] == "s":
            out.append(dict(kind="silent"))
            continue
        host, data = (e[1], e[2]) if e[0] == "d" else (e[2], e[3])
        m = dict(kind="other", host=host)
        try:
            v = b.load(data)
            if type(v) is tuple and len(v) == 3 and v[0] == "RPYC" and type(v[1]) is str and type(v[2]) is tuple:
                cmd, a = v[1].lower(), v[2]
                if cmd == "query" and len(a) == 1 and type(a[0]) is str:
                    m = dict(kind="query", host=host, name=a[0])
                elif cmd == "unregister" and len(a) == 1 and type(a[0]) is int:
                    m = dict(kind="unregister", host=host, port=a[0])
                elif (cmd == "register" and len(a) == 2 and type(a[0]) is tuple and a[0] and all(type(x) is str for x in a[0])
                      and type(a[1]) is int):
                    m = dict(kind="register", host=host, names=a[0], port=a[1])
        except BaseException:  # noqa
            pass
        out.append(m)
    return out


def boundary_histories():
    """the histories the statement's clauses point at"""
    Q, R, U = cmd_query, cmd_register, cmd_unregister
    A, B = "10.0.0.1", "10.0.0.2"
    hs = []
    for mode in ("base", "udp", "tcp"):
        def D(host, data, peer=[0]):
            if mode == "tcp":
                peer[0] += 1
                return ("c", peer[0], host, data)
            return ("d", host, data)
        hs += [
            (mode, 10000, 1000, [("t", 0), D(A, R(["calc"], 1)), D(B, R(["CALC", "db"], 2)), D(A, dump(("RPYC", 5, ()))),
                                 D(B, Q("Calc"))]),
            (mode, 10000, 1000, [("t", 0), D(A, R(["a"], 1)), D(B, R(["b"], 1)), D(A, U(1)), D(B, Q("a")), D(B, Q("b"))]),
            (mode, 10000, 1000, [("t", 0), D(A, R(["a"], 1)), ("t", 10000), D(B, R(["a"], 2)), D(B, Q("A")), ("t", 10001),
                                 D(B, Q("a")), ("t", 30000), D(A, R(["a"], 1)), D(A, Q("a"))]),
            (mode, 10000, 1000, [("t", 5), D(A, R(["a"], 2)), D(A, R(["a"], 1)), D(B, R(["a"], 1)), D(A, R(["a"], 2)), D(B, Q("a"))]),
            (mode, 10000, 1000, [("t", 0), D(A, R(["a"], 1)), ("t", 20000), D(A, R(["a"], 1)), D(B, Q("a")), D(A, U(1)), D(A, U(1))]),
            (mode, 10000, 1000, [("t", 0), D(A, R(["a", "A", "b"], 1)), D(A, b"\xff\xff"), D(A, b""), D(B, dump(("RPYX", "QUERY", ("a",)))),
                                 D(B, dump(("RPYC", "UNREGISTER", (1, 2)))), D(B, Q("B"))]),
        ]
    T = lambda k, host, data: ("c", k, host, data)  # noqa
    hs += [("tcp", 10000, 1000, [("t", 0), T(1, A, R(["a"], 1)), ("s", 2, B), T(3, B, Q("a")), ("s", 4, B), ("s", 5, A), T(6, B, Q("a"))]),
           ("tcp", 10000, 1000, [("t", 0), T(1, A, R(["a"], 1)), T(2, B, Q("a")[:5]), T(3, B, b""), T(4, B, Q("a"))])]
    for limit in (1, 2, 4):
        ev = [("t", 0), T(1, A, R(["a"], 1))]
        ev += [T(10 + i, B, dump(("RPYX", "QUERY", ("a",)))) for i in range(limit)]
        ev += [T(50, A, Q("a"))]
        hs.append(("tcp", 10000, limit, ev))
    return hs


def shrink(mode, pruning, fd_limit, events, sig, **kw):
    """drop events while the same failure remains"""
    cur = list(events)
    changed = True
    while changed and len(cur) > 1:
        changed = False
        for i in range(len(cur) - 1, -1, -1):
            trial = cur[:i] + cur[i + 1:]
            try:
                res = oracle_history(mode, pruning, fd_limit, trial, meaning_of(trial), **kw)
            except BaseException:  # noqa
                res = None
            if res and res[1] == sig:
                cur = trial
                changed = True
    return cur


def oracle_search(ctx, corr, broken):
    r = Rng(ctx.seed).fork("c18-search")
    deadline = _walltime.time() + ctx.budget(60, 600)
    known = getattr(ctx, "known_signatures", set())

    def candidates():
        for d in corr.disagreements[:200]:
            cs = d.get("case", {})
            if cs.get("kind") in ("history", "real-sockets"):
                yield (cs["mode"], cs["pruning_ms"], cs["fd_limit"], dec_events(cs["events"]), None,
                       dict(reclimit=cs.get("reclimit"), pad=cs.get("pad", 0)))
        for h in boundary_histories():
            yield h + (None, {})
        for x in deep_cases(ctx):
            yield x[1], x[2], x[3], x[4], None, dict(reclimit=x[7], pad=x[8])
        i = 0
        while _walltime.time() < deadline:
            mode = ("base", "udp", "tcp")[i % 3]
            i += 1
            pruning, fd_limit, events, meaning = gen_history(r, mode)
            yield mode, pruning, fd_limit, events, meaning, {}
    for mode, pruning, fd_limit, events, meaning, kw in candidates():
        # (a RecursionError of the registry's own never reaches this point: run_real records it as the death of the loop)
        res = oracle_history(mode, pruning, fd_limit, events, meaning or meaning_of(events), **kw)
        if res and res[1] not in known:
            msg, sig = res
            small = shrink(mode, pruning, fd_limit, events, sig, **kw)
            res2 = oracle_history(mode, pruning, fd_limit, small, meaning_of(small), **kw) or res
            return (dict(kind="history", mode=mode, pruning_ms=pruning, fd_limit=fd_limit, events=enc_events(small),
                         reclimit=kw.get("reclimit"), pad=kw.get("pad", 0)),
                    res2[0], res2[1])
    return None


def replay(case):
    mode, pruning, fd_limit = case["mode"], case["pruning_ms"], case["fd_limit"]
    events = dec_events(case["events"])
    out = dict(case=case)
    kw = dict(reclimit=case.get("reclimit"), pad=case.get("pad", 0))
    recs, want = run_case(mode, pruning, fd_limit, events, **kw)
    out["implementation"] = want
    out["implementation_events"] = [dict((k, (v.hex() if isinstance(v, bytes) else v)) for k, v in rec.items()) for rec in recs]
    res = oracle_history(mode, pruning, fd_limit, events, meaning_of(events), **kw)
    out["oracle"] = res[0] if res else "holds"
    try:
        out["model"] = canon_model(run_driver([op_line(mode, pruning, fd_limit, events, recs)], exe="drv_registry")[0])
    except DriverError as ex:
        out["model"] = "driver: %s" % ex
    out["agree"] = out["model"] == want
    return out


PATIENCE_SIGNATURE = "C18:tcp-silent-client-outlasts-default-client-timeout"


def listed_signatures():
    import json
    import os
    try:
        with open(os.path.join(os.path.dirname(os.path.abspath(__file__)), "..", "..", "known_findings.json")) as f:
            return set(k.get("signature") for k in json.load(f).get("findings", []))
    except Exception:  # noqa
        return set()


def probe_silent_client_vs_default_timeout():
    """real sockets, real classes on both sides: a TCPRegistryServer built and started the normal way, a server registered
    through TCPRegistryClient, ONE idle connection opened, then TCPRegistryClient(ip, port) with its DEFAULT timeout asks
    for the registered name.  Reproduces = it returns () although the name is registered."""
    r = reg()
    srv = r.TCPRegistryServer(host="127.0.0.1", port=0, logger=NullLogger())
    th = threading.Thread(target=srv.start, daemon=True)
    idle = None
    with warnings.catch_warnings():
        warnings.simplefilter("ignore", DeprecationWarning)
        th.start()
        try:
            deadline = _walltime.time() + 2
            while not srv.active and _walltime.time() < deadline:
                _walltime.sleep(0.005)
            cli = r.TCPRegistryClient("127.0.0.1", srv.port, logger=NullLogger())          # default timeout
            cli.register(("foo",), 12345, interface="127.0.0.1")
            before = cli.discover("foo")
            idle = socket.create_connection(("127.0.0.1", srv.port), timeout=5)   # connects and sends nothing
            _walltime.sleep(0.05)
            t0 = _walltime.time()
            behind = cli.discover("foo")
            took = _walltime.time() - t0
        finally:
            if idle is not None:
                idle.close()
            try:
                srv.close()
            except ValueError:
                pass
            try:
                socket.create_connection(("127.0.0.1", srv.port), timeout=1).close()
            except OSError:
                pass
            th.join(5)
    reproduces = before == (("127.0.0.1", 12345),) and behind == ()
    text = ("TCP registry, real sockets: TCPRegistryClient.discover('foo') with the default timeout (%g s) returned %r before and "
            "%r after %.2f s behind ONE idle connection (server TIMEOUT %g s): a registered name is reported as unknown"
            % (cli.timeout, before, behind, took, r.TCPRegistryServer.TIMEOUT))
    return reproduces, text


def known_probes(ctx):
    """defects the model carries (a `..._counterexample` theorem), replayed on the real code"""
    out = []
    if PATIENCE_SIGNATURE in listed_signatures():         # armed once the finding is listed in known_findings.json
        try:
            rep, text = probe_silent_client_vs_default_timeout()
            out.append((PATIENCE_SIGNATURE, rep, text))
        except OSError as ex:
            ctx.log("known probe %s skipped: no real sockets (%r)" % (PATIENCE_SIGNATURE, ex))
    A, B = "10.0.0.1", "10.0.0.2"
    limit = 4
    ev = [("t", 0), ("c", 1, A, cmd_register(["a"], 1))]
    ev += [("c", 10 + i, B, dump(("RPYX", "QUERY", ("a",)))) for i in range(limit)]
    ev += [("c", 50, A, cmd_query("a"))]
    recs = run_real("tcp", 10000, limit, ev)
    last = recs[-1]
    reproduces = (not last["accepted"]) or last["reply"] is None
    out.append(("tcp-unreplied-sockets-exhaust-descriptors", reproduces,
                "TCP registry: each request that gets no reply (wrong magic, unknown command, failing command, undecodable "
                "or empty payload) leaves its accepted socket open in _connected_sockets; after %d such clients with room for "
                "%d sockets a well-formed query is %s (tracked sockets: %d)" % (
                    limit, limit, "not accepted (EMFILE)" if not last["accepted"] else "answered", last["tracked"])))
    return out
