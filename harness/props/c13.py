"""C13 — threads sharing a connection never cross, duplicate or lose replies (layer L8 Serve).

Correspondence (trace acceptance): the REAL `Connection` / `AsyncResult` / `BgServingThread` code runs on real
threads under the line-level cooperative scheduler of harness/sched_serve.py (receive lock, condition, channel,
seq counter and callbacks table replaced on the instance by scheduler-aware / logging stand-ins; virtual time).
Every shared action the code performs is logged in the alphabet of lean/RpycModel/Conc/Serve/Model.lean; the
compiled model (drv_serve) must be able to take every logged action with the same observed result, and must
end with the same per-thread results, callbacks table, per-frame dispatch counts and virtual time.
Schedules: exhaustive within a preemption bound (stateless DFS with replay) for the small configurations,
seeded random schedules for the larger ones; the peer answers outstanding requests in every order the
explorer picks; time may be advanced early.

Direct oracle (real code only, from the statement): seqs distinct; every frame received by one thread and
dispatched exactly once; every call returns the peer's answer to that very request (or a timeout not before
its deadline, and only if no reply to it was dispatched before that deadline), each result published at most once; no state in which no thread can run while data is unread.
After the peer closes the stream every thread inside a call must terminate (EOFError): none stays parked in
poll() or on the condition.  A caller that stays blocked after its reply HAS been processed (and the stream is
still open) is C14's subject (known finding F3) and is counted, not flagged, here.
"""
import hashlib
import time

import sched_serve as ss
from lineproto import run_driver, DriverError
from pipeline import Corr
from prng import Rng

ID = "C13"
LEAN_MODULE = "RpycModel.Props.C13"
NAMESPACE = "Rpyc.Props.C13"
GEN = []
DRIVERS = ["drv_serve"]
TRUSTED = [
    "modelled, not verified: GIL atomicity of next(itertools.count()), dict.__setitem__/dict.pop, attribute stores, "
    "Lock.acquire(False)/release; threading.Condition semantics (wait releases the condition's lock, notify_all wakes "
    "exactly the current wait-set); Connection._send is atomic here (C12 is the theorem about it); poll()+recv() is one "
    "step (both reads happen under the receive lock — theorem receive_exclusive)",
    "harness/sched_serve.py: settrace line scheduler, scheduler-aware Lock/Condition/channel stand-ins, AST location of "
    "the statements mapped to model steps, virtual clock behind rpyc.lib.time and rpyc.utils.helpers.time",
]
ASSUMPTIONS = [
    "the peer sends only replies/exceptions to outstanding requests, one per request, and may close the stream at any "
    "point (requests from the peer, i.e. nested dispatch inside serve(), are C08/C01's subject)",
    "Connection.close() is one atomic step (marks closed, spends one seq on HANDLE_CLOSE, closes the channel, clears the "
    "callbacks table); transport errors other than end-of-stream are C11's subject",
    "three thread kinds: callers (AsyncResult.wait: serve(ttl)), BgServingThread (serve(0) loop) and polling threads "
    "(conn.poll_all(d) / AsyncResult.ready: serve(timeout, wait_for_lock=False)); a poll_all that spins on a taken "
    "receive lock is parked by the harness until another thread acts or time passes (stuttering)",
    "BgServingThread's sleep is an abstract always-enabled step in the model (any sleep duration)",
    "a caller blocked after its reply was processed (C14 / F3) is not a C13 failure: no data is pending then",
    "a request made by the dispatching thread itself while it dispatches (the INSPECT round trip of _unbox for a reference "
    "to a user-class instance) is a fresh logical thread of the model (the locks have no owner); EOF during such a nested "
    "call, incoming REQUEST frames and handlers' nested serve() are not generated (C08/C01); AsyncResult.add_callback is "
    "traced line by line (its readiness test and its append can be separated by another thread's publication); a "
    "callback lost that way is flagged only when the measured Gen.Async.addCallbackAtomic is true (until then it is "
    "C15's recorded finding and only counted); serve_all/serve_threaded receivers are "
    "represented by a caller without expiry whose request is never answered (the same serve(None) loop)",
    "by-reference results: proxies are kept alive until the end of a run, so their finalizers' HANDLE_DEL notices "
    "(C10's subject) do not occur inside the schedules",
]
EXPLANATION = (
    "SAFETY theorems over all reachable states of the interleaving machine (any number of callers, background threads and "
    "polling threads, line granularity, peer answering in any order / repeating answers / closing the stream, time passing "
    "anywhere): seq_unique + seq_fresh_on_call; dispatch_once + one_receiver + receive_exclusive; own_reply (AT MOST once) + "
    "caller_gets_own_reply + frames_are_answers; no_lost_wakeup; waiter_woken_with_data (for a thread asleep on the "
    "condition while data is unread / the stream ended, an enabled lock holder, pending notifier or condition-lock holder "
    "exists) -- no_deadlock_with_data and no_parking_after_eof are the weak 'some non-sleeping thread is enabled' forms, "
    "which a spinning poller satisfies trivially; publication_order + reader_sees_value. No fairness / termination theorem: "
    "'exactly once' is at most once + accounted for. The correspondence is exhaustive only within the preemption bounds and "
    "only where the evidence key exhaustive_within_preemption_bound says complete=true; the rest is time-capped DFS and "
    "seeded random schedules.")

CONFIGS = {
    # name: case.  Thread ids: clients 1..n, background thread n+1.  Timeouts in virtual time units.
    "2c": dict(clients=[[5], [6]], bg=False),
    "1c+bg": dict(clients=[[5]], bg=True),
    "2c+bg": dict(clients=[[5], [6]], bg=True),
    "3c": dict(clients=[[5], [6], [7]], bg=False),
    "3c+bg": dict(clients=[[5], [6], [7]], bg=True, exc=[1]),
    "2c-2calls-tick": dict(clients=[[2, 3], [4]], bg=False, early_tick=True),
    "2c+bg-tick-exc": dict(clients=[[2], [3, 2]], bg=True, early_tick=True, exc=[0]),
    "2c-none": dict(clients=[[None], [4]], bg=False),
    "3c-none+bg": dict(clients=[[None], [3], [None]], bg=True),
    # the peer may close the stream at any point ("E"); schedules in which it never does are included
    "2c-eof": dict(clients=[[None], [6]], bg=False, eof=True),
    "1c+bg-eof": dict(clients=[[5]], bg=True, eof=True),
    "2c+bg-eof-tick": dict(clients=[[4, 3], [None]], bg=True, eof=True, early_tick=True),
    "3c-eof": dict(clients=[[3], [None], [5]], bg=False, eof=True, exc=[1]),
    # polling threads: conn.poll_all(d) / AsyncResult.ready = serve(timeout, wait_for_lock=False)
    "1c+poller": dict(clients=[[None]], pollers=[[0]]),
    "1c+poller-ready": dict(clients=[[5]], pollers=[["ready", 1]]),
    "2c+poller": dict(clients=[[None], [5]], pollers=[["ready"]]),
    "2c+poller+bg-eof": dict(clients=[[None], [4]], pollers=[[0, "ready", 2]], bg=True, eof=True),
    "1c+2pollers-tick": dict(clients=[[3, None]], pollers=[[1, 0], ["ready", "ready"]], early_tick=True),
    # results that travel by reference (proxies) on a connection with a DEBUG logger and a real handler
    "2c+bg-byref-log": dict(clients=[[None], [6]], bg=True, byref=True, logger=True),
    # references to instances of a user class: _unbox makes an INSPECT round trip on the dispatching thread (it runs as a
    # fresh logical thread of the model); callers with callbacks; a caller the peer never answers (= a serve(None) receiver)
    "2c+bg-userclass": dict(clients=[[6], [None]], bg=True, byref="user", callbacks=True),
    "2c+poller-userclass-log": dict(clients=[[None], [7]], pollers=[[0, 1]], byref="user", logger=True),
    "3c-serve-none": dict(clients=[[5], [None], [6]], mute=[2], callbacks=True),
    "1c+bg-callbacks": dict(clients=[[6, 5]], bg=True, callbacks=True),
    # two background threads; BgServingThread.stop() requested at any moment; timeouts 0 and negative (= no expiry);
    # a peer that repeats an answer
    "2c+2bg": dict(clients=[[5], [None]], bg=2),
    "2c+2bg-stop-tick": dict(clients=[[4], [6]], bg=2, stop_bg=True, early_tick=True),
    "2c+bg-timeouts<=0": dict(clients=[[0, 0], [-1]], bg=True),
    "2c+poller-timeouts<=0": dict(clients=[[-2], [0]], pollers=[[0]]),
    "2c-dup": dict(clients=[[None], [5]], dup=[0]),
    "2c+bg-dup": dict(clients=[[4], [4]], bg=True, dup=[1]),
    "2c-callbacks": dict(clients=[[None], [5]], callbacks=True),
    # conn.sync_request with a finite sync_request_timeout; the peer never answers client 1, whose call times out while
    # client 2 issues its request
    "2c-sync-timeout": dict(clients=[[3], [3]], sync=3, mute=[1], early_tick=True),
    "3c-sync-timeout+bg": dict(clients=[[2], [4], [4]], sync=4, mute=[1], bg=True, early_tick=True),
    "2c+poller-byref-log-eof": dict(clients=[[5], [None]], pollers=[[0, "ready"]], byref=True, logger=True, eof=True),
}

def timeout_scripts(n_max):
    """client 1's sync_request runs into its timeout; after k further steps of client 1 (k = 0..n_max; with every line a
    scheduling point these are the lines of the timeout path and of whatever it calls) client 2 registers its request,
    client 1 finishes, client 2 is answered"""
    return [("2c-sync-timeout", [("block", 1), ("tick",), ("run", 1, "w9"), ("step", 1, k), ("run", 2, "c1"), ("block", 1),
                                 ("block", 2), ("peer", 1), ("block", 2)]) for k in range(n_max + 1)]


# add_callback racing with the publication by another thread: the caller tests readiness (not ready), the background
# thread receives and publishes, the caller appends
CALLBACK_SCRIPTS = [
    ("1c+bg-callbacks", [("run", 1, "c2"), ("peer", 0), ("run", 1, "a0"), ("run", 2, "d5"), ("block", 2), ("block", 1)]),
    ("1c+bg-callbacks", [("run", 1, "c2"), ("peer", 0), ("run", 2, "d4"), ("run", 1, "a0"), ("block", 2), ("block", 1)]),
]


# publication order: the background thread is stopped right after the `_is_ready = True` line was reached (whatever
# stores precede it have run), the caller then tests readiness and reads the result
PUBLICATION_SCRIPTS = [
    ("1c+bg-eof", [("run", 1, "c3"), ("peer", 0), ("run", 2, "d5"), ("block", 1), ("block", 2)]),
    ("1c+bg-eof", [("run", 1, "c3"), ("peer", 0), ("run", 2, "d4"), ("block", 1), ("block", 2)]),
    ("1c+bg-eof", [("run", 1, "c3"), ("peer", 0), ("run", 2, "d3"), ("block", 1), ("block", 2)]),
]


# directed schedules with a polling thread as the receiver: the poller holds the receive lock while a caller
# (no expiry) fails the try-lock and parks on the condition; the poller's poll times out / receives a reply
POLLER_SCRIPTS = [
    ("1c+poller", [("run", 2, "s3"), ("block", 1), ("block", 2), ("peer", 0)]),
    ("1c+poller", [("run", 2, "s3"), ("block", 1), ("peer", 0), ("block", 2)]),
    ("1c+poller", [("run", 1, "c2"), ("peer", 0), ("run", 2, "n2"), ("block", 1), ("block", 2)]),
    ("2c+poller", [("run", 3, "s3"), ("block", 1), ("block", 2), ("peer", 1), ("block", 3), ("peer", 0)]),
    ("2c+poller", [("run", 3, "s3"), ("block", 1), ("run", 2, "c3"), ("peer", 1), ("block", 3), ("block", 2), ("peer", 0)]),
]

# directed end-of-stream schedules: one thread in poll(), the other parked on the condition (no expiry), then EOF;
# EOF before anybody serves; EOF while a reply is unread; EOF between a caller's send and its wait
EOF_SCRIPTS = [
    ("2c-eof", [("block", 1), ("block", 2), ("eof",)]),
    ("2c-eof", [("block", 2), ("block", 1), ("eof",)]),
    ("2c-eof", [("eof",)]),
    ("2c-eof", [("run", 1, "c2"), ("run", 2, "c3"), ("peer", 1), ("eof",)]),
    ("2c-eof", [("run", 1, "c2"), ("eof",), ("block", 1)]),
    ("1c+bg-eof", [("block", 2), ("run", 1, "s2"), ("eof",)]),
    ("1c+bg-eof", [("run", 1, "s3"), ("block", 2), ("eof",)]),
    ("3c-eof", [("block", 1), ("block", 2), ("block", 3), ("eof",)]),
]


def trace_key(run):
    return hashlib.md5((repr(sorted(run.case.items(), key=str)) + " ".join(run.sched.trace)).encode()).hexdigest()[:16]


def nontrivial(run):
    """a schedule is non-trivial if threads really met: a failed try-lock, a condition wait, a reply received by a
    thread other than its requester, a timed-out poll, a dropped or late reply"""
    tr = run.sched.trace
    if any(":s2:fail" in t or ":zz:" in t or t.endswith(":p0:none") or ":nocb" in t or ":d2:expired" in t or t == "eof"
           for t in tr):
        return True
    owner = dict((q, t) for (t, q) in run.issued)
    sent = dict((fid, seq) for (fid, seq, _e, _v) in run.frames_sent)
    return any(owner.get(sent.get(fid)) != t for (fid, t) in run.received)


class Collector:
    def __init__(self, ctx, corr, name):
        self.ctx, self.c, self.name = ctx, corr, name
        self.runs = []

    def __call__(self, run):
        self.runs.append(run)
        if len(self.runs) >= 400:
            self.flush()

    def flush(self):
        runs, self.runs = self.runs, []
        if not runs:
            return
        c = self.c
        lines = ["serve trace " + " ".join(r.sched.trace) for r in runs]
        outs = run_driver(lines, exe="drv_serve")
        for r, got in zip(runs, outs):
            c.evaluations += 1
            want = "ok " + r.summary()
            c.count("config:" + self.name)
            c.count("outcome:" + r.outcome)
            for tok in r.sched.trace:
                p = tok.split(":")
                if p[0] == "eof":
                    c.count("peer closed the stream")
                elif p[0] == "run" and p[2] in ("s2", "zz", "d2", "w0", "w9", "d0", "x0") or p[0] == "chk":
                    c.count("branch:" + ":".join(p[2:4]) if p[0] == "run" else "observed:blocked-" + ("ready" if p[2] == "R" else "notready"))
                elif p[0] == "run" and p[2] == "p0":
                    c.count("branch:p0:" + (p[3] if p[3] in ("none", "eof") else "frame"))
                elif p[0] == "run" and p[2] == "c2" and p[-1] == "closed":
                    c.count("branch:c2:send-on-closed-connection")
                elif p[0] == "run" and p[2] == "d1":
                    c.count("branch:d1:" + p[4])
            for res in r.results.values():
                for (_q, text, _t) in res:
                    c.count("result:" + text.split(":")[0] + (":exc" if text.startswith("value:1") else ""))
            for _lost in ss.lost_callbacks(r):
                c.count("callback registered during the publication never ran (add_callback race; %s)"
                        % ("flagged" if ss.ADD_CALLBACK_ATOMIC else "C15's finding, not flagged"))
            stalls = ss.stalls_of(r)
            for st in stalls:
                c.count("c14-stall-observed(not a C13 failure):" + st["signature"].split(":")[-1])
            if nontrivial(r):
                c.signatures.add(trace_key(r))
            case = dict(kind="schedule", config=self.name, case=r.case, choices=[ch for (ch, _o, _c) in r.choices])
            if r.table_replaced is not None:
                c.disagreements.append(dict(case=case, impl="guard: conn._request_callbacks was rebound to another object during the "
                                            "run (at trace index %d)" % r.table_replaced, model=got[:300],
                                            trace=" ".join(r.sched.trace)[:6000]))
                continue
            if got != want:
                c.disagreements.append(dict(case=case, impl=want[:600], model=got[:600], trace=" ".join(r.sched.trace)[:6000]))
                continue
            bad = ss.c13_violations(r)
            if bad:
                c.disagreements.append(dict(case=case, impl="oracle: %s: %s" % bad[0], model=got[:300],
                                            trace=" ".join(r.sched.trace)[:6000]))
            elif len(c.samples) < 12 and c.evaluations % 211 == 7:
                c.samples.append(dict(config=self.name, schedule=" ".join(case["choices"])[:300], outcome=want[:200]))


def correspondence(ctx):
    c = Corr()
    c.rule = ("one case = one schedule (list of grants to threads / peer answers / early clock advances) of one "
              "configuration of the real Connection under the line scheduler; exhaustive within the stated preemption "
              "bound (stateless DFS) for the small configurations, seeded random schedules otherwise. Distinct = distinct "
              "sequence of shared actions (the whole trace); non-trivial = the threads met: a failed try-lock, a condition "
              "wait, a reply received by another thread than its requester, a timed-out poll, or a late/dropped reply.")
    try:
        env = ss.locate_statements()
    except Exception as ex:  # noqa
        c.error = "could not locate the modelled statements in the source: %r" % (ex,)
        return c
    if env[2]:
        c.error = "statements the model has a step for were not found by shape: %s" % ", ".join(env[2])
        return c
    t_end = time.time() + ctx.budget(52, 720)
    rng = Rng(ctx.seed).fork("c13")
    exhaustive = {}
    try:
        # 1. exhaustive within a preemption bound
        # (configuration, preemption bound, cap on schedules, share of the remaining time)
        # 0. directed end-of-stream schedules
        col = Collector(ctx, c, "eof/directed")
        for name, script in EOF_SCRIPTS:
            ch = ss.DirectedChooser(script)
            col(ss.run_case(dict(CONFIGS[name]), ch, env))
        atomic = ss.measure_add_callback_atomic()
        c.extra["add_callback_atomic_measured"] = atomic
        ctx.log("add_callback registration atomic w.r.t. publication (measured, Gen.Async.addCallbackAtomic): %s%s"
                % (atomic, "" if atomic else " -> lost callbacks are counted, not flagged (C15's finding)"))
        for name, script in POLLER_SCRIPTS + timeout_scripts(3) + CALLBACK_SCRIPTS + PUBLICATION_SCRIPTS:
            ch = ss.DirectedChooser(script)
            col(ss.run_case(dict(CONFIGS[name]), ch, env))
        col.flush()
        # the -eof configurations contain every schedule of the plain ones (the peer need not close the stream)
        plan = ctx.budget([("1c+bg-eof", 1, 500, 0.2), ("1c+poller", 2, 1500, 0.25), ("2c-eof", 1, 3000, 0.6),
                           ("2c+poller", 1, 700, 0.45)],
                          [("1c+bg-eof", 2, 30000, 0.1), ("1c+poller", 2, 5000, 0.1), ("1c+poller-ready", 2, 20000, 0.1),
                           ("2c-eof", 1, 10000, 0.15), ("2c+poller", 1, 40000, 0.35), ("2c", 2, 200000, 0.45),
                           ("2c+bg", 1, 60000, 0.4), ("2c-eof", 2, 100000, 0.5), ("3c", 1, 60000, 0.5)])
        for name, bound, cap, frac in plan:
            col = Collector(ctx, c, name + "/dfs%d" % bound)
            share = time.time() + (t_end - time.time()) * frac
            n, complete = ss.dfs(dict(CONFIGS[name]), bound, env, max_runs=cap, deadline=share, visit=col)
            col.flush()
            exhaustive["%s preemption<=%d" % (name, bound)] = dict(schedules=n, complete=complete)
            ctx.log("dfs %s bound %d: %d schedules, complete=%s" % (name, bound, n, complete))
        # 2. seeded random schedules (preemption bound 2 in the quick tier, 3 in the thorough tier, plus unbounded walks)
        names = sorted(CONFIGS)
        n_rand = ctx.budget(1000, 40000)
        col = None
        k = 0
        while k < n_rand and time.time() < t_end:
            name = names[k % len(names)]
            r = rng.fork("s%d" % k)
            mp = r.choice([ctx.budget(2, 3), ctx.budget(2, 3), None])
            ch = ss.RandomChooser(r, stick=r.below(7), max_preempt=mp)
            run = ss.run_case(dict(CONFIGS[name]), ch, env)
            if col is None or col.name != name + "/random":
                if col is not None:
                    col.flush()
                col = Collector(ctx, c, name + "/random")
            col(run)
            k += 1
        if col is not None:
            col.flush()
        ctx.log("random: %d schedules" % k)
    except DriverError as ex:
        c.error = str(ex)
        return c
    except ss.HarnessError as ex:
        c.error = "scheduler lost control: %s" % ex
        return c
    c.extra["exhaustive_within_preemption_bound"] = exhaustive
    c.exhaustive = False
    return c


# ---------------------------------------------------------------------------------------------- direct oracle
def run_choices(case, choices, park_all):
    env = ss.locate_statements()
    ch = ss.PrefixChooser(choices)
    return ss.run_case(dict(case), ch, env, park_all=park_all)


def shrink(case, choices, park_all, sig):
    """shorten the choice prefix while the same violation signature persists (the default policy completes it)"""
    best = list(choices)
    lo = 0
    while lo < len(best):
        cand = best[:lo]
        try:
            r = run_choices(case, cand, park_all)
        except ss.HarnessError:
            lo += 1
            continue
        if any(s == sig for (s, _t) in ss.c13_violations(r)):
            best = cand
            break
        lo += max(1, len(best) // 16)
    return best


BOUNDARY = [
    dict(clients=[[None], [None]], bg=False),
    dict(clients=[[None], [None], [None]], bg=False),
    dict(clients=[[3], [3]], bg=True, early_tick=True),
    dict(clients=[[None], [None]], bg=False, dup=[0]),      # the peer repeats a reply: the callback must not fire twice
    dict(clients=[[4], [4]], bg=True, dup=[1]),
    dict(clients=[[None], [None]], bg=False, eof=True),
    dict(clients=[[None], [None], [None]], bg=False, eof=True),
    dict(clients=[[None]], bg=True, eof=True),
]


def oracle_search(ctx, corr, broken):
    env = ss.locate_statements()
    if env[2]:
        return None         # statements not located (source and loaded code out of step?): the oracles cannot be trusted
    deadline = time.time() + ctx.budget(28, 600)
    known = getattr(ctx, "known_signatures", set())

    def examine(case, choices, park_all):
        try:
            r = run_choices(case, choices, park_all)
        except ss.HarnessError:
            return None
        for sig, text in ss.c13_violations(r):
            if sig in known:
                continue
            ch = shrink(case, [c for (c, _o, _c) in r.choices], park_all, sig)
            r2 = run_choices(case, ch, park_all)
            texts = [t for (s, t) in ss.c13_violations(r2) if s == sig] or [text]
            return (dict(kind="schedule", case=case, choices=ch, park_all=park_all), texts[0] + " | trace: " +
                    " ".join(r2.sched.trace)[:1500], sig)
        return None

    # 1. cases the correspondence disagreed on
    for d in corr.disagreements[:60]:
        cs = d.get("case", {})
        if "case" in cs:
            f = examine(cs["case"], cs.get("choices", []), False)
            if f:
                return f
    # 2. the directed end-of-stream schedules
    for name, script in EOF_SCRIPTS:
        try:
            run = ss.run_case(dict(CONFIGS[name]), ss.DirectedChooser(script), env)
        except ss.HarnessError:
            continue
        if [v for v in ss.c13_violations(run) if v[0] not in known]:
            f = examine(dict(CONFIGS[name]), [c for (c, _o, _c) in run.choices], False)
            if f:
                return f
    for name, script in POLLER_SCRIPTS + PUBLICATION_SCRIPTS + CALLBACK_SCRIPTS:
        try:
            run = ss.run_case(dict(CONFIGS[name]), ss.DirectedChooser(script), env)
        except ss.HarnessError:
            continue
        if [v for v in ss.c13_violations(run) if v[0] not in known]:
            f = examine(dict(CONFIGS[name]), [c for (c, _o, _c) in run.choices], False)
            if f:
                return f
    for name, script in timeout_scripts(16):      # every line of protocol.py / async_.py a scheduling point
        try:
            run = ss.run_case(dict(CONFIGS[name]), ss.DirectedChooser(script), env, park_all=True)
        except ss.HarnessError:
            continue
        if [v for v in ss.c13_violations(run) if v[0] not in known]:
            f = examine(dict(CONFIGS[name]), [c for (c, _o, _c) in run.choices], True)
            if f:
                return f
    # 3. boundary corpus and fresh schedules, every line a scheduling point (park_all)
    rng = Rng(ctx.seed).fork("c13-search")
    cases = BOUNDARY + [dict(v) for v in CONFIGS.values()]
    k = 0
    while time.time() < deadline:
        case = cases[k % len(cases)]
        r = rng.fork("o%d" % k)
        ch = ss.RandomChooser(r, stick=r.below(5), max_preempt=r.choice([1, 2, 3, None]))
        try:
            run = ss.run_case(dict(case), ch, env, park_all=True)
        except ss.HarnessError:
            k += 1
            continue
        bad = [v for v in ss.c13_violations(run) if v[0] not in known]
        if bad:
            f = examine(case, [c for (c, _o, _c) in run.choices], True)
            if f:
                return f
        k += 1
    return None


def replay(case):
    out = dict(case=case)
    r = run_choices(case["case"], case.get("choices", []), bool(case.get("park_all")))
    out["outcome"] = r.outcome
    out["implementation"] = "ok " + r.summary()
    out["trace"] = " ".join(r.sched.trace)
    out["oracle"] = ["%s: %s" % v for v in ss.c13_violations(r)] or "holds"
    out["c14_stalls"] = [dict((k, v) for k, v in st.items() if k != "at") for st in ss.stalls_of(r)]
    try:
        out["model"] = run_driver(["serve trace " + " ".join(r.sched.trace)], exe="drv_serve")[0]
    except DriverError as ex:
        out["model"] = "driver error: %s" % ex
    return out
