"""C15 — asynchronous results: one final outcome, callbacks once and in order, timeouts exact.

Correspondence: the real `AsyncResult` / `Timeout` / `Connection.serve|poll_all|_dispatch|
_seq_request_callback|async_request|sync_request` / `timed` against Rpyc.Async
(lean/RpycModel/Async/Model.lean) through `drv_async`.

 (a) scripted channel: a REAL `Connection` whose `_channel` is a scripted in-memory channel driven by a
     virtual clock behind `rpyc.lib.time`; every event order (no bound on which) up to a length is
     enumerated for each timeout in {None, -1, 0, 1, 3}: the reply dispatched now / put into the channel
     now, clock advance short of and past the expiry, two callback registrations, every query, wait; and
     seeded longer sequences that add delayed replies, unrelated requests that keep the serving thread
     busy, re-arming, duplicate replies, sync_request / timed / async_request(timeout=).
 (b) whole connections over the deterministic network (simnet): sync_request with a configured timeout
     and `timed` against a service that sleeps in virtual time and calls back into the client.
Compared per event: what the call returned or raised, the virtual instant afterwards; at the end the
slots of the result, the callback log with instants, the registry entry, the busy log.
Direct oracle (real code only): the property statement as Python predicates over one event sequence.
"""
import itertools
import sys
import time as _walltime

from lineproto import run_driver, DriverError
from pipeline import Corr
from prng import Rng

ID = "C15"
LEAN_MODULE = "RpycModel.Props.C15"
NAMESPACE = "Rpyc.Props.C15"
GEN = ["Async.lean"]
DRIVERS = ["drv_async"]
TRUSTED = [
    "modelled, not verified: the virtual clock and the scripted channel stand in for time.time() and select(); "
    "a message readable exactly at a deadline is taken as readable (for a reply the outcome is the same either way, "
    "since `expired` uses >=); one thread drives the connection (thread hand-off is C13/C14)",
    "not modelled: rpyc.lib.compat.PollingPoll.poll converts the remaining time with `if timeout: timeout = 1000*timeout` "
    "(what a sub-millisecond timeleft does there is not modelled); a foreign reply has zero duration in the model: a slow "
    "callback of ANOTHER result delays a timeout without any request being served (verified on the real code); "
    "`Timeout` built from NaN (infinite) or +inf (finite, never expires); `set_expiry(Timeout(...))` sharing a deadline object",
]
ASSUMPTIONS = [
    "arrival of a reply means the instant it is dispatched (`AsyncResult.__call__` runs), not the instant its bytes "
    "reach the socket: a reply that sits unread in the channel past the expiry is discarded, as the code does",
    "the clock is monotone and time is integral: the model's clock is a natural number of ticks that never runs backwards "
    "and timeouts are whole ticks (checked at 1 s, 0.25 s and 1/1024 s per tick, exact in floating point). "
    "rpyc.lib.Timeout reads the wall clock time.time(): a backwards step of the wall clock makes wait() raise late, a "
    "forwards step makes it raise earlier than the requested number of seconds; sums that are not exact in floating point "
    "can move a tie between a deadline and an arrival either way",
    "KNOWN FINDING C15:set_expiry-revives-expired-result (known_findings.json; reproduced on every run by known_probes): "
    "`set_expiry` on an expired result makes it pending again (theorem rearm_revives; `X1 T1 x X5 x T1 AF7 v`), and if its "
    "reply had already been discarded it can then never complete (`X1 C1 T1 AF7 XN x r w` waits for ever).  The theorems "
    "state expiry-is-final for as long as the expiry is not re-armed; the oracle holds re-armed results to finality and "
    "skips exactly that signature; readiness-is-final is unconditional",
    "PROBED, NOT CLAIMED: the error of a raising user callback is re-raised out of `__call__` into whichever call is "
    "serving the connection (Gen.Async.callbackErrorPropagates, measured, no obligation): an unrelated synchronous call "
    "then raises the callback's error and loses its own reply, a BgServingThread dies and later results never become "
    "ready - pre-existing behaviour (identical before fix 5a9cd90), caused by misbehaving user code; reproducer "
    "fixes/probe_C15_raising_callback_surfaces_in_serving_call.py",
    "callbacks of the single-request worlds return normally; `__call__` with raising / re-entrant callbacks is `callR`, whose "
    "loop is measured on the source (Gen.Async.callbacksAllRun): obligation callbacks_all_run + theorem C15_callbacks (every "
    "callback runs exactly once, in order, raising ones included; the first error is re-raised after the loop).  A "
    "BaseException that is not an Exception (KeyboardInterrupt, SystemExit) still leaves the loop at once: not modelled",
    "the connection stays open (EOFError handling is C11)",
]
EXPLANATION = ("Property theorems over all event sequences and all timeout values (None, negative = infinite, zero, positive): "
               "readiness is final (value and is_exc never change, later replies ignored); expiry while pending is final "
               "until re-armed (later replies discarded, no callback runs, every wait raises); callbacks run exactly once "
               "in registration order at the arrival instant, or at once when registered later; wait never raises before "
               "the deadline and raises exactly at max(deadline, call instant) unless the last serve started a request "
               "no later than the deadline, in which case at that request's end; a sync request times out exactly tau after "
               "it was issued; several requests on one connection (replies carry their request's number) are projections of "
               "one connection and reach each other only as environment events, so finality holds per request whatever is "
               "done with the others; `__call__` with ANY callbacks (raising, re-entrant): every one runs exactly once in order, "
               "the first error re-raised after the loop (under the measured obligation callbacks_all_run). "
               "NOT counted as property theorems (one-step unfoldings of the transcription, kept in Async/Lemmas.lean): "
               "timeout_finite_iff, timeout_deadline, infinite_never_expires, late_reply_discarded, "
               "reply_accepted_when_pending, callback_after_ready_runs_at_once, sync_is_async_plus_timeout, "
               "timed_is_async_with_timeout, each_request_own_deadline.")

TIMEOUTS = [None, -1, 0, 1, 3]


# ------------------------------------------------------------------------------------------ real code on a scripted channel
class Hang(Exception):
    """the poll would block forever (no deadline, nothing in flight)"""


class Blocked(BaseException):
    """the real code did not come back from one call within the bound (a lock that is never released, a wait that is
    never woken): an observation (`BLOCKED`), never a hang of the check"""


class Watchdog:
    """Every call into the real code runs under a bound without paying for a thread per call: a periodic SIGALRM looks at
    a progress counter; when the harness has been inside ONE real-code call for two ticks, `Blocked` is raised in the main
    thread (lock acquisition and condition waits are interruptible).  Outside real-code calls (driver subprocess, file
    I/O) nothing is raised."""
    TICK = 1.0
    blocked = 0          # how often the bound was hit in this run (each costs 2-3 s: capped by the callers)
    progress = 0
    inside = False
    seen = (-1, 0)
    installed = False

    @classmethod
    def install(cls):
        import signal
        import threading
        if cls.installed or threading.current_thread() is not threading.main_thread():
            return
        def tick(_sig, _frm):
            if not cls.inside:
                cls.seen = (-1, 0)
                return
            if cls.seen[0] == cls.progress:
                cls.seen = (cls.progress, cls.seen[1] + 1)
                if cls.seen[1] >= 2:
                    cls.seen = (-1, 0)
                    cls.blocked += 1
                    raise Blocked()
            else:
                cls.seen = (cls.progress, 0)
        import atexit
        signal.signal(signal.SIGALRM, tick)
        signal.setitimer(signal.ITIMER_REAL, cls.TICK, cls.TICK)
        # the timer must be gone before the interpreter resets the handler at exit (SIGALRM's default action kills)
        atexit.register(lambda: signal.setitimer(signal.ITIMER_REAL, 0))
        cls.installed = True

    depth = 0

    @classmethod
    def enter(cls):
        cls.progress += 1
        cls.depth += 1
        cls.inside = True

    @classmethod
    def leave(cls):
        cls.depth = max(0, cls.depth - 1)
        cls.inside = cls.depth > 0


class under_bound:
    """`with under_bound():` - the real-code calls inside run under the watchdog (Blocked is raised out of the block)"""

    def __enter__(self):
        Watchdog.install()
        Watchdog.enter()

    def __exit__(self, *exc):
        Watchdog.leave()
        return False


def guarded_call(fn):
    """fn() on the real code under the watchdog"""
    Watchdog.install()
    Watchdog.enter()
    try:
        return fn()
    finally:
        Watchdog.leave()


class BadSequence(Exception):
    """the event sequence itself is ill-formed (a wrapper called before it was made); never a finding"""


class Spin(Exception):
    """the code under test keeps polling without the clock moving or anything being consumed (in real time: a busy
    loop); reported as an observation instead of hanging the check"""


class Clock:
    """stands in for the `time` module inside rpyc.lib (what Timeout reads)"""
    def __init__(self, now=0):
        self.now = now

    def time(self):
        return self.now

    def sleep(self, dt):
        if dt and dt > 0:
            self.now += dt


class ScriptChannel:
    """what Connection needs of a Channel; `queue` holds (instant readable, symbolic message)"""
    def __init__(self, sim):
        self.sim = sim
        self.queue = []
        self._closed = False
        self.idle_polls = 0

    @property
    def closed(self):
        return self._closed

    def close(self):
        self._closed = True

    def fileno(self):
        return 7

    def poll(self, timeout):
        from rpyc.lib import Timeout
        t = Timeout(timeout)
        clock = self.sim.clock
        if self.queue:
            at = self.queue[0][0]
            if at <= clock.now:
                return True
            if not t.finite or at <= t.tmax:
                clock.now = at
                return True
        if not t.finite:
            raise Hang()
        if t.tmax > clock.now:
            clock.now = t.tmax
            self.idle_polls = 0
        else:
            self.idle_polls += 1
            if self.idle_polls > 200:
                self.idle_polls = 0
                raise Spin()
        return False

    def recv(self):
        self.idle_polls = 0
        _at, msg = self.queue.pop(0)
        self.sim.recvlog.append((self.sim.now_ticks(), msg[0], msg[1] if msg[0] == "O" else 0,
                                 msg[1] if msg[0] == "R" else None))
        return self.sim.encode(msg)

    def send(self, data):
        self.sim.on_send(data)


def blind(line):
    """the model's line as seen by an application that dropped the result: slots, readyAt and expiry hidden"""
    import re
    head, st = line.split(" st ", 1)
    m = re.match(r"\S+ \S+ \S+ cb\[[^\]]*\] (log\[[^\]]*\]) ra\S+ (live\S+ ch\d+ busy\[[^\]]*\]) ttl\S+$", st)
    return line if not m else "%s st ? ? ? cb[?] %s ra? %s ttl?" % (head, m.group(1), m.group(2))


def no_ra(line):
    """once the application has dropped a result the harness cannot tell at which instant it became ready: the ghost
    `readyAt` is left out of the comparison for such sequences (the callback log carries the instants that matter)"""
    import re
    return re.sub(r" ra\S+ live", " ra? live", line)


class CB:
    """a callback with an identity; records (id, instant) in the log of the request it was registered on"""
    __slots__ = ("cid", "sim", "log", "owner")

    def __init__(self, cid, sim, log=None, owner=None):
        self.cid, self.sim, self.log, self.owner = cid, sim, (sim.cblog if log is None else log), owner

    def __call__(self, res):
        ok = (self.sim.res is None or res is self.sim.res) if self.owner is None else res is self.owner
        self.log.append((self.cid, self.sim.now_ticks(), ok))


def fmt_t(x):
    """virtual instants are whole ticks"""
    return str(int(x)) if x == int(x) else repr(x)


class Sim:
    """one real Connection over a scripted channel + the result under test"""

    def __init__(self, t0=0, unit=1, first_request=True):
        """unit: seconds per tick of the model's clock (1, or a power of two below 1: fractional timeouts and instants
        that are exact in floating point)"""
        import rpyc.lib
        from rpyc.core import consts
        from rpyc.core.service import VoidService
        Watchdog.install()
        self.consts = consts
        self.unit = unit
        self.recvlog = []              # (instant the message was taken, kind "R"/"O", duration, ordinal or None)
        self.seqs = []                 # real sequence number of the k-th request issued through this harness
        self.clock = Clock(t0 * unit)
        self.saved_time = rpyc.lib.time
        rpyc.lib.time = self.clock
        self.chan = ScriptChannel(self)
        with under_bound():
            self.conn = VoidService()._connect(self.chan, {})
        self.cblog = []
        self.busy = []
        self.reply_times = []
        self.ra = None
        self.ra_for = None
        self.wrapper = None
        self.res = None
        self.seq = None
        self.other_seq = 10 ** 6
        self.proxy = None
        lab, self.sleeper_id = self.conn._box(self._sleeper)
        if first_request:
            with under_bound():
                self.res = self.conn.async_request(consts.HANDLE_PING, "x")

    def now_ticks(self):
        return self.clock.now / self.unit

    def secs(self, tau):
        return None if tau is None else tau * self.unit

    def close(self):
        import rpyc.lib
        rpyc.lib.time = self.saved_time
        self.conn._closed = True       # nothing to tell a scripted peer when the connection object is collected

    # -- hooks called by the channel
    def _sleeper(self, d):
        self.busy.append((self.now_ticks(), d / self.unit))
        self.clock.sleep(d)
        return d

    def on_send(self, data):
        from rpyc.core import brine
        msg, seq, _args = brine.load(data)
        if msg == self.consts.MSG_REQUEST and _args[0] != self.consts.HANDLE_DEL:
            self.seq = seq
            self.seqs.append(seq)
            cb = rc_get(self.conn._request_callbacks, seq)
            if cb is not None and type(cb).__name__ == "AsyncResult":
                self.res = cb

    def encode(self, msg):
        from rpyc.core import brine, vinegar
        c = self.consts
        if msg[0] == "R":
            # ("R", ordinal of the request it answers, is_exc, payload): a reply carries the sequence number of ITS request
            _r, ordinal, exc, payload = msg
            self.reply_times.append((self.now_ticks(), ordinal))
            if ordinal < len(self.seqs):
                seq = self.seqs[ordinal]
            else:       # the request has not been issued yet: the peer answers ahead of time with the number it will get
                seq = (self.seqs[-1] if self.seqs else -1) + 1 + (ordinal - len(self.seqs))
            if exc:
                try:
                    raise KeyError(payload)
                except KeyError:
                    t, v, tb = sys.exc_info()
                return brine.dump((c.MSG_EXCEPTION, seq, vinegar.dump(t, v, tb, True, True)))
            return brine.dump((c.MSG_REPLY, seq, (c.LABEL_VALUE, payload)))
        self.other_seq += 1
        return brine.dump((c.MSG_REQUEST, self.other_seq, (c.HANDLE_CALL, (c.LABEL_TUPLE, (
            (c.LABEL_LOCAL_REF, self.sleeper_id), (c.LABEL_VALUE, (msg[1] * self.unit,)), (c.LABEL_VALUE, ()))))))

    def own_reply_times(self, ordinal=None):
        ordinal = len(self.seqs) - 1 if ordinal is None else ordinal
        return [t for t, o in self.reply_times if o == ordinal]

    def focus_ordinal(self):
        return len(self.seqs) - 1

    publish_error = None

    def _publish(self, data):
        try:
            self.conn._dispatch(data)
        except Exception as ex:  # noqa  (reported by the event that started the publisher)
            self.publish_error = ex

    # -- events
    def _payload(self, obj):
        if obj is None:
            return "N"
        if isinstance(obj, BaseException):
            return str(obj.args[0]) if obj.args else "?"
        return str(obj)

    def apply(self, tok):
        """one event on the real objects -> `<observation>@<instant>`.  Whatever the real code raises is an observation:
        the timeout error (`TO`, from wait / value / sync_request only), the stored remote exception itself (`exc:<payload>`,
        from value / sync_request only), anything else `raised:<class>`; nothing propagates into the harness."""
        from rpyc.core.async_ import AsyncResultTimeout
        c = tok[0]
        if Watchdog.blocked >= 12:
            return "BLOCKED@%s" % fmt_t(self.now_ticks())     # (the real code keeps blocking: not called again in this run)
        Watchdog.enter()
        try:
            out = self._event(tok)
        except BadSequence:
            raise
        except Blocked:
            out = "BLOCKED"
        except Hang:
            out = "HANG"
        except Spin:
            out = "SPIN"
        except Exception as ex:  # noqa
            stored = getattr(self.res, "_obj", None)
            if c in "vwY" and isinstance(ex, AsyncResultTimeout) and ex is not stored:
                out = "TO"
            elif c in "vY" and ex is stored:
                out = "exc:" + self._payload(ex)
            else:
                out = "raised:" + type(ex).__name__
        finally:
            Watchdog.leave()
        res = self.res
        self.chan.idle_polls = 0
        if res is not None and res._is_ready and self.ra_for is not res and self.own_reply_times():
            # the reply that was accepted is the first one dispatched for this request (it pops the registry entry)
            self.ra, self.ra_for = self.own_reply_times()[0], res
        return "%s@%s" % (out, fmt_t(self.now_ticks()))

    def _event(self, tok):
        c, res = tok[0], self.res
        if res is None and c in "XCGrexvw":
            raise BadSequence("the application no longer holds the result")
        if c in "QYZK" and not (c == "K" and self.wrapper is None):
            # a fresh request: its result has a callback log and a ready instant of its own (callbacks of earlier
            # results keep writing to the logs they were registered with)
            self.cblog, self.ra, self.ra_for = [], None, None
        if c == "X":
            res.set_expiry(self.secs(parse_tau(tok[1:])))
            out = "-"
        elif c == "A":
            self.conn._dispatch(self.encode(("R", self.focus_ordinal(), tok[1] == "T", int(tok[2:]))))
            out = "-"
        elif c == "S":
            d, m = tok[1:].split(":", 1)
            if m[0] == "O":
                msg = ("O", int(m[1:]))
            elif m[0] == "N":        # the reply to the request that will be issued next
                msg = ("R", len(self.seqs), m[1] == "T", int(m[2:]))
            elif ":" in m:           # R<k>:<T|F><v>: the reply to request k
                k, rest = m[1:].split(":")
                msg = ("R", int(k), rest[0] == "T", int(rest[1:]))
            else:                    # the reply to the request issued last
                msg = ("R", len(self.seqs) - 1, m[1] == "T", int(m[2:]))
            self.chan.queue.append((self.clock.now + int(d) * self.unit, msg))
            out = "-"
        elif c == "U":
            self.conn.serve(self.secs(parse_tau(tok[1:])))
            self.chan.idle_polls = 0
            out = "-"
        elif c == "G":
            # add_callback(c) with the reply delivered by ANOTHER thread between add_callback's test of `_is_ready` and its
            # append: the result's list is one whose first append lets the publisher run (and gives it 50 ms: with an
            # exclusion in place it has to wait for the registration to finish, without one it is done at once)
            import threading
            cid, m = tok[1:].split(":")
            data = self.encode(("R", self.focus_ordinal(), m[0] == "T", int(m[1:])))
            publisher = threading.Thread(target=self._publish, args=(data,), daemon=True, name="publisher")
            sim_self = self

            class PausingList(list):
                armed = True

                def append(lst, item):
                    if lst.armed:
                        lst.armed = False
                        publisher.start()
                        publisher.join(0.03)
                    list.append(lst, item)
            res._callbacks = PausingList(res._callbacks)
            res.add_callback(CB(int(cid), self))
            if not publisher.is_alive() and not publisher.ident:
                publisher.start()          # (the result was ready: nothing was appended; the reply is a duplicate)
            publisher.join(3)
            if publisher.is_alive():
                raise Blocked()
            if self.publish_error is not None:
                err, self.publish_error = self.publish_error, None
                raise err
            out = "-"
        elif c == "P":
            self.conn.poll_all(self.secs(parse_tau(tok[1:])))
            self.chan.idle_polls = 0
            out = "-"
        elif c == "V":
            self.conn.serve(0)
            self.chan.idle_polls = 0
            out = "-"
        elif c == "C":
            res.add_callback(CB(int(tok[1:]), self))
            out = "-"
        elif c == "r":
            out = tri(res.ready)
        elif c == "e":
            out = tri(res.error)
        elif c == "x":
            out = tri(res.expired)
        elif c == "v":
            out = "val:" + self._payload(res.value)
        elif c == "w":
            out = "-" if res.wait() is None else "?"
        elif c == "T":
            self.clock.sleep(int(tok[1:]) * self.unit)
            out = "-"
        elif c == "Y":
            self.conn._config["sync_request_timeout"] = self.secs(parse_tau(tok[1:]))
            out = "val:" + self._payload(self.conn.sync_request(self.consts.HANDLE_PING, "x"))
        elif c == "Q":
            self.res = self.conn.async_request(self.consts.HANDLE_PING, "x", timeout=self.secs(parse_tau(tok[1:])))
            out = "-"
        elif c == "Z":
            import rpyc
            if self.proxy is None:
                self.proxy = self.conn._unbox((self.consts.LABEL_REMOTE_REF, ("builtins.function", 11, 12)))
            self.timed = rpyc.timed(self.proxy, self.secs(parse_tau(tok[1:])))
            self.res = self.timed()
            out = "-"
        elif c == "W":
            import rpyc
            if self.proxy is None:
                self.proxy = self.conn._unbox((self.consts.LABEL_REMOTE_REF, ("builtins.function", 11, 12)))
            self.wrapper = rpyc.timed(self.proxy, self.secs(parse_tau(tok[1:])))      # made now, called later (K), maybe repeatedly
            out = "-"
        elif c == "D":
            # the application lets go of the result: from here on only the library references it (or does not)
            import gc
            if self.res is None:
                raise BadSequence("D twice")
            self.res = self.ra_for = res = None
            gc.collect(0)
            out = "-"
        elif c == "K":
            if self.wrapper is None:
                raise BadSequence("K before W")
            self.res = self.wrapper()
            out = "-"
        else:
            raise BadSequence("bad token %r" % tok)
        return out

    def state(self):
        res = self.res
        if res is None:
            # dropped: the slots cannot be looked at; the callback log, the registry entry, the channel and the busy log can
            return "st ? ? ? cb[?] log[%s] ra? live%s ch%d busy[%s] ttl?" % (
                ",".join("%d@%s" % (cid, fmt_t(t)) for cid, t, _ok in self.cblog),
                "T" if self.seq in self.conn._request_callbacks else "F", len(self.chan.queue),
                ",".join("%s@%s" % (fmt_t(s), fmt_t(d)) for s, d in self.busy))
        bad = [e for e in self.cblog if not e[2]]
        return "st %s %s %s cb[%s] log[%s]%s ra%s live%s ch%d busy[%s] ttl%s" % (
            tri(res._is_ready), tri(res._is_exc), self._payload(res._obj),
            ",".join(str(getattr(f, "cid", "?")) for f in res._callbacks),
            ",".join("%d@%s" % (cid, fmt_t(t)) for cid, t, _ok in self.cblog), "!wrong-arg" if bad else "",
            "N" if self.ra is None else fmt_t(self.ra),
            "T" if self.seq in self.conn._request_callbacks else "F", len(self.chan.queue),
            ",".join("%s@%s" % (fmt_t(s), fmt_t(d)) for s, d in self.busy),
            fmt_t(res._ttl.tmax / self.unit) if res._ttl.finite else "inf")

    # -- snapshots for prefix-sharing enumeration (the result under test is the only one)
    def snapshot(self):
        r = self.res
        return (self.clock.now, list(self.chan.queue), r._is_ready, r._is_exc, r._obj, list(r._callbacks), r._ttl,
                rc_items(self.conn._request_callbacks), len(self.cblog), len(self.busy), len(self.reply_times), self.ra,
                self.ra_for, r._conn)

    def restore(self, s):
        r = self.res
        (self.clock.now, q, r._is_ready, r._is_exc, r._obj, cbs, r._ttl, rc, n1, n2, n3, self.ra, self.ra_for,
         r._conn) = s
        self.chan.queue[:] = q
        r._callbacks[:] = cbs
        rc_restore(self.conn._request_callbacks, rc)
        del self.cblog[n1:], self.busy[n2:], self.reply_times[n3:]


def rc_get(rc, key):
    """`conn._request_callbacks` through the mapping protocol only (whatever kind of mapping it is)"""
    try:
        return rc[key]
    except KeyError:
        return None


def rc_keys(rc):
    return list(rc.keys())      # (`iter()` of rpyc's WeakValueDict is not an iterator; `keys()` works on every mapping)


def rc_items(rc):
    out = []
    for k in rc_keys(rc):
        v = rc_get(rc, k)
        if v is not None:
            out.append((k, v))
    return out


def rc_restore(rc, items):
    keep = dict(items)
    for k in rc_keys(rc):
        if k not in keep:
            del rc[k]
    for k, v in items:
        rc[k] = v


class MultiSim(Sim):
    """several live requests on one real connection; the token language of `async multi`"""

    def __init__(self, t0=0, unit=1):
        Sim.__init__(self, t0, unit, first_request=False)
        self.results, self.logs, self.ras = [], [], []
        self.focus = None

    def focus_ordinal(self):
        return self.focus if self.focus is not None else len(self.seqs) - 1

    def apply(self, tok):
        if tok[0] == "Q":
            with under_bound():
                self.results.append(self.conn.async_request(self.consts.HANDLE_PING, "x",
                                                            timeout=self.secs(parse_tau(tok[1:]))))
            self.logs.append([])
            self.ras.append(None)
            out = "-@%s" % fmt_t(self.now_ticks())
        elif tok[0].isdigit():
            k, inner = tok.split(".", 1)
            k = int(k)
            if k >= len(self.results) or inner[0] not in "XCrexvwA":
                raise BadSequence(tok)
            self.focus, self.res, self.cblog = k, self.results[k], self.logs[k]
            try:
                if inner[0] == "C":
                    with under_bound():
                        self.res.add_callback(CB(int(inner[1:]), self, self.logs[k], self.res))
                    out = "-@%s" % fmt_t(self.now_ticks())
                else:
                    out = Sim.apply(self, inner)
            finally:
                self.focus = None
        elif tok[0] in "TVUS":
            self.res = None
            out = Sim.apply(self, tok)
        else:
            raise BadSequence(tok)
        for k, r in enumerate(self.results):
            mine = self.own_reply_times(k)
            if r._is_ready and self.ras[k] is None and mine:
                self.ras[k] = mine[0]
        return out

    def states(self):
        out = []
        for k, r in enumerate(self.results):
            self.res, self.cblog, self.ra, self.seq = r, self.logs[k], self.ras[k], self.seqs[k]
            out.append("| " + Sim.state(self))
        return out


def run_impl_multi(t0, toks, unit=1):
    sim = MultiSim(t0, unit)
    try:
        out = [sim.apply(t) for t in toks]
        return " ".join(out + sim.states())
    finally:
        sim.close()


class CallbackBug(Exception):
    """a user-defined exception class for callbacks that fail"""


RAISES = [RuntimeError, KeyError, CallbackBug]


class RCB:
    """a callback that may register further callbacks from inside itself, read the value, issue a request, and raise"""

    def __init__(self, spec, sim, log):
        self.spec, self.sim, self.log = spec, sim, log

    def __call__(self, res):
        cid, raises, adds, extra = self.spec
        self.log.append("%d@%s" % (cid, fmt_t(self.sim.now_ticks())))
        for a in adds:
            res.add_callback(RCB((a, False, [], None), self.sim, self.log))
        if extra == "value":
            try:
                res.value
            except KeyError:
                pass
        elif extra == "request":
            self.sim.conn.async_request(self.sim.consts.HANDLE_PING, "y")
        if raises:
            raise RAISES[cid % len(RAISES)]("callback %d" % cid)


def call_case_line(case):
    expired, now, exc, specs = case
    return "async call %s %d %s 7 %s" % ("T" if expired else "F", now, "T" if exc else "F", " ".join(
        "c%d%s%s" % (cid, "!" if raises else "", "+" + ",".join(map(str, adds)) if adds else "")
        for cid, raises, adds, _x in specs))


def run_call_case(case):
    """`AsyncResult.__call__` alone on the real code with such callbacks: the reply is dispatched, then the result is
    looked at: slots, stored callbacks, log, whether the dispatch raised; and afterwards that the value stays available
    and nothing runs again"""
    expired, now, exc, specs = case
    if Watchdog.blocked >= 4 and any(sp[2] for sp in specs):
        return "BLOCKED: (not run: the dispatch of a reply with a re-entrant callback blocked %d times already)" % Watchdog.blocked
    sim = Sim(0)
    try:
        log = []
        if expired:
            sim.res.set_expiry(0)
        sim.clock.sleep(now)
        objs = [RCB(sp, sim, log) for sp in specs]
        for o in objs:
            sim.res.add_callback(o)
        raised = "F"
        res = sim.res
        Watchdog.enter()
        try:
            sim.conn._dispatch(sim.encode(("R", 0, exc, 7)))
        except tuple(RAISES) as ex:
            raised = "T" if str(ex.args[0]).startswith("callback ") else "!" + type(ex).__name__
        except Blocked:
            return "BLOCKED: the dispatch of the reply did not come back (log so far [%s])" % ",".join(log)
        except Exception as ex:  # noqa
            raised = "!" + type(ex).__name__
        finally:
            Watchdog.leave()
        sim.res = res          # (a callback that issued a request of its own must not change which result is looked at)
        line = "st %s %s %s cb[%s] log[%s] raised%s" % (
            tri(res._is_ready), tri(res._is_exc), sim._payload(res._obj),
            ",".join(str(f.spec[0]) for f in res._callbacks), ",".join(log), raised)
        # afterwards: the value is (still) available iff ready, and no callback runs again whatever is served
        n = len(log)
        after = []
        sim.chan.queue.append((sim.clock.now, ("R", 0, False, 9)))
        for tok in ("V", "r", "v", "T1", "V", "v"):
            after.append(sim.apply(tok).rsplit("@", 1)[0])
        want_after = ["-", "T", ("exc:7" if exc else "val:7"), "-", "-", ("exc:7" if exc else "val:7")] if not expired else None
        if want_after and (after != want_after or len(log) != n):
            line += " !afterwards:%s,log+%d" % (",".join(after), len(log) - n)
        return line
    finally:
        sim.close()


def call_cases():
    """all lists of up to 3 callbacks over {returns, raises, registers two more, registers one and raises, reads the value,
    issues a request} x reply kind, and a few on an expired result"""
    kinds = [lambda i: (i, False, [], None), lambda i: (i, True, [], None), lambda i: (i, False, [10 * i, 10 * i + 1], None),
             lambda i: (i, True, [10 * i], None), lambda i: (i, False, [], "value"), lambda i: (i, False, [], "request")]
    out = []
    for n in (0, 1, 2, 3):
        for combo in itertools.product(range(len(kinds)), repeat=n):
            specs = [kinds[k](i + 1) for i, k in enumerate(combo)]
            out.append((False, 5, sum(combo) % 2 == 1, specs))
    out.append((True, 5, False, [kinds[0](1), kinds[1](2)]))
    out.append((True, 0, True, [kinds[1](1)]))
    return out


def gen_multi(r):
    """2-3 live requests: replies in any order, late replies to an abandoned request crossing the next one, results waited
    on alternately"""
    toks, n = [], 0
    for _ in range(r.range(3, 14)):
        k = r.below(12)
        if n == 0 or (k == 0 and n < 3):
            toks.append("Q" + tau_tok(r.choice(TIMEOUTS + [2, 5])))
            n += 1
        elif k <= 2:
            toks.append("S%d:R%d:%s%d" % (r.choice([0, 1, 2, 3, 5]), r.below(n), r.choice("TF"), r.range(1, 9)))
        elif k == 3:
            toks.append(r.choice(["S%d:O%d" % (r.below(4), r.choice([0, 1, 3])), "T%d" % r.choice([1, 2, 4]), "V",
                                  "U%d" % r.below(4)]))
        else:
            toks.append("%d.%s" % (r.below(n), r.choice(["v", "w", "r", "x", "e", "v", "w", "C%d" % r.range(1, 9),
                                                         "X" + tau_tok(r.choice(TIMEOUTS)), "A%s%d" % (r.choice("TF"), r.range(1, 9))])))
    return toks


def multi_corpus():
    return [
        # the late reply of an abandoned request arrives while the next request is waited for
        "Q2 S5:R0:F11 0.v T1 QN S3:R1:F22 1.v 0.r 0.x".split(),
        "Q1 0.C1 S4:R0:F11 0.w Q3 1.C2 S1:R1:T22 1.v 0.x 1.x".split(),
        # replies in the opposite order of the requests; waiting on one serves the other
        "QN QN 0.C1 1.C2 S1:R1:F22 S2:R0:F11 0.v 1.r 1.v".split(),
        "Q3 Q3 S1:O3 S1:R0:F1 S1:R1:F2 1.v 0.v".split(),
        # alternately
        "QN Q2 S3:R0:F1 S1:R1:F2 1.w 0.r 0.w 1.x T5 1.v".split(),
        "Q0 QN S0:R0:F1 S0:R1:F2 1.v 0.v 0.x".split(),
        "QN 0.AF1 QN S0:R0:F5 V 0.v 1.r".split(),
    ]


def tri(b):
    return "N" if b is None else "T" if b is True else "F" if b is False else "?%r" % (b,)


def parse_tau(s):
    return None if s == "N" else int(s)


def tau_tok(tau):
    return "N" if tau is None else str(tau)


def run_impl(t0, toks, unit=1):
    """one sequence on a fresh real connection -> the line the model must print"""
    sim = Sim(t0, unit)
    try:
        out = [sim.apply(t) for t in toks]
        out.append(sim.state())
        return " ".join(out)
    finally:
        sim.close()


# ------------------------------------------------------------------------------------------ enumeration
def enum_orders(symbols, depth):
    """all sequences of exactly `depth` events from a multiset of symbols [(token, multiplicity)]; the k-th use of the
    callback symbol registers callback k"""
    counts = [m for _s, m in symbols]
    seq = []

    def rec():
        if len(seq) == depth:
            yield tuple(seq)
            return
        for i, (s, _m) in enumerate(symbols):
            if counts[i]:
                counts[i] -= 1
                seq.append(s if s != "C" else "C%d" % (1 + sum(1 for x in seq if x[0] == "C")))
                yield from rec()
                seq.pop()
                counts[i] += 1
    return rec()


def enum_tree(sim, symbols, depth, emit):
    """the same enumeration on the real objects with prefix sharing: every edge of the tree is executed once on the
    real code (state saved and put back around it); `emit(tokens, observations, state)` at each leaf"""
    counts = [m for _s, m in symbols]
    seq, obs = [], []

    def rec():
        if len(seq) == depth:
            emit(seq, obs, sim.state())
            return
        for i, (s, _m) in enumerate(symbols):
            if not counts[i]:
                continue
            counts[i] -= 1
            tok = s if s != "C" else "C%d" % (1 + sum(1 for x in seq if x[0] == "C"))
            snap = sim.snapshot()
            seq.append(tok)
            obs.append(sim.apply(tok))
            rec()
            seq.pop()
            obs.pop()
            sim.restore(snap)
            counts[i] += 1
    rec()


def symbols_for(variant):
    arr = {"arrive": "AF7", "arrive-exc": "AT8", "deliver": "S0:RF7", "deliver-exc": "S0:RT8"}[variant]
    return [(arr, 1), ("T1", 1), ("T5", 1), ("C", 2), ("r", 1), ("e", 1), ("x", 1), ("v", 1), ("w", 1)]


def symbols_rep(variant):
    """with repetition (short sequences): every symbol up to 3 times"""
    return [(s, 3 if s != "C" else 3) for s, _m in symbols_for(variant)]


# ------------------------------------------------------------------------------------------ requests issued late / repeatedly
def reuse_sequences():
    """A `timed(f, tau)` wrapper made at t0 and first called, then called again, some time later; async_request(timeout=)
    issued repeatedly; sync_request with a configured timeout on a connection older than the timeout.  Delay before the
    first call in {0, <tau, =tau, >tau}; each call's reply becomes readable before / at / after that call's own deadline
    (call instant + tau) or never; 2-3 calls."""
    out = []
    for tau in TIMEOUTS:
        t = tau if tau is not None and tau > 0 else 3
        delays = sorted(set([0, max(t - 1, 1), t, t + 2]))
        replies = [None, 0, max(t - 1, 1), t, t + 1]
        for kind in "KQY":
            for d0 in delays:
                for r1 in replies:
                    for gap in (0, t, t + 3):
                        for r2 in replies:
                            calls = [(d0, r1), (gap, r2)]
                            out.append(reuse_tokens(kind, tau, calls))
                            if r2 in (None, t + 1) and gap == t:
                                out.append(reuse_tokens(kind, tau, calls + [(1, 0)]))
                                out.append(reuse_tokens(kind, tau, calls + [(t + 1, t - 1)], callbacks=True))
    return out


def reuse_tokens(kind, tau, calls, callbacks=False):
    toks = ["W" + tau_tok(tau)] if kind == "K" else []
    for n, (before, reply) in enumerate(calls):
        if before:
            toks.append("T%d" % before)
        send = [] if reply is None else ["S%d:R%s%d" % (reply, "T" if n == 1 else "F", 7 + n)]
        if kind == "Y":
            toks += [t.replace(":R", ":N") for t in send] + ["Y" + tau_tok(tau)]
        else:
            toks += ["K" if kind == "K" else "Q" + tau_tok(tau)] + send
            if callbacks:
                toks.append("C%d" % (n + 1))
            toks += ["x", "v"] if n % 2 == 0 else ["w", "r", "e"]
        toks.append("x" if kind != "Y" else "V")
    return toks


def traffic_sequences():
    """sustained unrelated inbound traffic (a stream of requests from the peer, each keeping the serving thread busy for a
    tick or two, one becoming readable every tick or all at once) around the reply: `poll_all(t)` by unrelated activity,
    and the `ready` / `error` / `wait` / `value` of the result"""
    out = []
    for tau in TIMEOUTS:
        for dur in (0, 1, 2):
            for spacing in (0, 1):
                for n in (2, 5):
                    for reply_at in (0, 2, None):
                        traffic = ["S%d:O%d" % (i * spacing, dur) for i in range(n)]
                        if reply_at is not None:
                            traffic.insert(min(reply_at, len(traffic)), "S%d:RF7" % (reply_at * spacing))
                        for ops in (["P0", "x", "P0"], ["P1", "r"], ["P3", "P0", "v"], ["r", "r", "r", "e"], ["r", "w"],
                                    ["T1", "P2", "r", "P0", "x"], ["e", "P5", "v"]):
                            out.append(["X" + tau_tok(tau)] + traffic + ops)
    return out


def race_sequences():
    """a callback registered while another thread publishes the reply (G), among callbacks registered before and after,
    pending / already ready / already expired, value or exception"""
    out = []
    for tau in (None, 3, 0):
        for exc in "FT":
            out.append(["X" + tau_tok(tau), "G1:%s7" % exc, "r", "v"])
            out.append(["X" + tau_tok(tau), "C1", "G2:%s7" % exc, "C3", "x", "v"])
            out.append(["X" + tau_tok(tau), "C1", "T1", "G2:%s7" % exc, "T5", "C3", "w"])
            out.append(["X" + tau_tok(tau), "AF5", "G2:%s7" % exc, "v"])
            out.append(["X" + tau_tok(tau), "T5", "G2:%s7" % exc, "r", "C3"])
    return out


def forget_sequences():
    """fire-and-forget with completion callbacks: register 1-2 callbacks, the application drops the result (D), then the
    reply is dispatched directly / taken from the channel by a later serve, before or after the expiry"""
    out = []
    for tau in TIMEOUTS:
        for ncb in (1, 2):
            for hold in (0, 1):
                for exc in "FT":
                    for how in (["A%s7" % exc], ["S0:R%s7" % exc, "V"], ["S2:R%s7" % exc, "T2", "V"],
                                ["S2:R%s7" % exc, "T1", "V", "T1", "V", "V"], ["S1:O2", "S1:R%s7" % exc, "T1", "V", "V"]):
                        for lag in (0, 1, 5):
                            toks = ["X" + tau_tok(tau)] + ["C%d" % (k + 1) for k in range(ncb)]
                            toks += (["T%d" % hold] if hold else []) + ["D"] + (["T%d" % lag] if lag else []) + how
                            out.append(toks + ["T1", "V"])
        for kind in ("Q", "Z"):
            out.append([kind + tau_tok(tau), "C1", "C2", "D", "S1:RF7", "T1", "V"])
            out.append([kind + tau_tok(tau), "C1", "D", "T2", "AF7", "Q" + tau_tok(tau), "C3", "S1:RT8", "v"])
    return out


# ------------------------------------------------------------------------------------------ seeded sequences
def gen_sequence(r, n):
    toks = []
    k = r.below(6)
    tau = r.choice(TIMEOUTS + [2, 5, -7])
    if k == 0:
        pre = ["S%d:%s" % (r.below(7), gen_msg(r)) for _ in range(r.below(4))]
        kind = r.choice("YQZ")
        # replies put into the channel before the request: addressed to the request to come (N), or - for Q/Z now and
        # then - to the previous one (R): a stale reply crossing a new request
        pre = [t.replace(":R", ":N") if (kind == "Y" or r.chance(2, 3)) else t for t in pre]
        return pre + [kind + tau_tok(tau)] + (["v"] if r.chance(1, 2) else []) + \
            [gen_tok(r) for _ in range(r.below(4))]
    if k <= 3:
        toks.append("X" + tau_tok(tau))
    have_w = False
    held = True
    for _ in range(n):
        t = gen_tok(r)
        if held and r.chance(1, 60):
            toks.append("D")
            held = False
        if not held:
            if t[0] in "XCrexvw":
                continue           # the application let go of the result: it cannot ask it anything
            if t[0] in "QYZ":
                held = True
        toks.append(t)
        if t[0] == "W":
            have_w = True
        elif have_w and r.chance(1, 4):
            toks.append("K")
            held = True
    return toks


def gen_msg(r):
    if r.chance(1, 2):
        return "R%s%d" % (r.choice("TF"), r.range(1, 9))
    return "O%d" % r.choice([0, 1, 1, 2, 3, 4, 6])


def gen_tok(r):
    k = r.below(21)
    if k == 20:
        return r.choice(["Q", "Y", "Q", "W"]) + tau_tok(r.choice(TIMEOUTS + [2, 4]))
    if k < 3:
        return "S%d:%s" % (r.choice([0, 0, 1, 1, 2, 3, 4, 5, 8]), gen_msg(r))
    if k < 5:
        return "T%d" % r.choice([1, 1, 2, 3, 5])
    if k < 7:
        return "C%d" % r.range(1, 9)
    if k == 7:
        return "X" + tau_tok(r.choice(TIMEOUTS + [2, 4]))
    if k == 8:
        return "A%s%d" % (r.choice("TF"), r.range(1, 9))
    if k == 9:
        return r.choice(["V", "V", "P0", "P%d" % r.range(1, 4), "U%d" % r.below(3)])
    return r.choice(["r", "e", "x", "v", "w", "w", "v", "r"])


# ------------------------------------------------------------------------------------------ whole connections (simnet)
def simnet_scenarios():
    """(name, tau, pre, k, post, client ops) — the server's function sleeps `pre`, calls the client's callback (which
    sleeps `k`; k = None: no callback), sleeps `post`, returns 42.  Ties (a request arriving exactly at the deadline,
    a query made at the very instant the reply is written) are left out: the deterministic network orders them the
    other way round than the scripted channel, and both orders are legal."""
    out = []
    for tau in TIMEOUTS:
        for d in (0, 1, 2, 3, 4, 6):
            out.append(("sync", tau, d, None, 0, ()))
            out.append(("timed", tau, d, None, 0, ("v",)))
            if d != 2:      # a query at the very instant the reply is written: a tie, see the docstring
                out.append(("timed", tau, d, None, 0, ("T2", "r", "x", "v", "x")))
            if d != 1:
                out.append(("timed", tau, d, None, 0, ("C1", "T1", "r", "C2", "w", "e")))
        for pre, k, post in ((1, 1, 0), (1, 4, 0), (2, 3, 1), (1, 1, 3), (2, 0, 0), (0, 5, 0), (4, 1, 0), (1, 2, 5)):
            if tau is not None and tau >= 0 and pre == tau:
                continue
            out.append(("sync", tau, pre, k, post, ()))
            out.append(("timed", tau, pre, k, post, ("v",)))
    return out


def scenario_tokens(kind, tau, pre, k, post, ops):
    """the model's event sequence for a scenario (instants relative to the call)"""
    sends = []
    if k is None:
        sends.append("S%d:NF42" % (pre + post))
    else:
        sends.append("S%d:O%d" % (pre, k))
        sends.append("S%d:NF42" % (pre + k + post))
    if kind == "sync":
        return sends + ["Y" + tau_tok(tau)]
    return sends + ["Z" + tau_tok(tau)] + list(ops)


def run_scenario_simnet(kind, tau, pre, k, post, ops):
    """the scenario on two real connections over the deterministic network; returns the observation tokens of the
    sync call / of each client op, instants relative to the call"""
    import rpyc
    import rpyc.lib
    import simnet
    from rpyc.core.async_ import AsyncResultTimeout
    net = simnet.Net()
    cblog = []

    class Srv(rpyc.Service):
        def exposed_work(self, pre, cb, post):
            rpyc.lib.time.sleep(pre)
            if cb is not None:
                cb()
            rpyc.lib.time.sleep(post)
            return 42

    def client_cb():
        rpyc.lib.time.sleep(k)

    out = []
    with net.installed():
        ca, cb_ = net.connect_pair(rpyc.VoidService(), Srv(), {}, {})
        spin = {"t": None, "n": 0}

        def watch(op, _stream, _arg):
            # a caller polling again and again at one virtual instant would never return: report it instead
            if op == "poll":
                if net.clock.now == spin["t"]:
                    spin["n"] += 1
                    if spin["n"] > 500:
                        spin["n"] = 0
                        raise Spin()
                else:
                    spin["t"], spin["n"] = net.clock.now, 0
        ca._channel.stream.fault = watch
        try:
            work = ca.root.work
            cbarg = client_cb if k is not None else None
            if cbarg is not None:
                # box it once so that the server's first proxy creation does not cost a round trip in the timed window
                ca.root.work(0, None, 0)
            t0 = net.clock.now

            def rel():
                return fmt_t(net.clock.now - t0)

            def waitlike(fn):
                Watchdog.enter()
                try:
                    return fn()
                except Blocked:
                    return "BLOCKED"
                except AsyncResultTimeout:
                    return "TO"
                except Spin:
                    return "SPIN"
                except Exception as ex:  # noqa
                    return "raised:" + type(ex).__name__
                finally:
                    Watchdog.leave()
            if kind == "sync":
                ca._config["sync_request_timeout"] = tau
                out.append(waitlike(lambda: "val:%s" % work(pre, cbarg, post)) + "@" + rel())
                ca._config["sync_request_timeout"] = 30
            else:
                try:
                    tw = rpyc.timed(work, tau)
                    res = tw(pre, cbarg, post)
                except Exception as ex:  # noqa   (an observation, and nothing further can be asked of this scenario)
                    out.append("raised:%s@%s" % (type(ex).__name__, rel()))
                    ops = ()
                else:
                    out.append("-@" + rel())
                for op in ops:
                    if op[0] == "T":
                        rpyc.lib.time.sleep(int(op[1:]))
                        o = "-"
                    elif op[0] == "C":
                        cid = int(op[1:])
                        o = waitlike(lambda: res.add_callback(
                            lambda r, cid=cid: cblog.append("%d@%s" % (cid, rel()))) or "-")
                    elif op == "r":
                        o = waitlike(lambda: tri(res.ready))
                    elif op == "e":
                        o = waitlike(lambda: tri(res.error))
                    elif op == "x":
                        o = waitlike(lambda: tri(res.expired))
                    elif op == "v":
                        o = waitlike(lambda: "val:%s" % res.value)
                    elif op == "w":
                        o = waitlike(lambda: "-" if res.wait() is None else "?")
                    out.append(o + "@" + rel())
                out.append("log[%s]" % ",".join(cblog))
        finally:
            net.shutdown([ca])
    return out


def bounded_scenario(fn, *args):
    """a whole-connection scenario with every real-code call in it (connection set-up, attribute look-ups, timed calls,
    tear-down) under the watchdog"""
    try:
        with under_bound():
            return fn(*args)
    except Blocked:
        Watchdog.depth, Watchdog.inside = 0, False
        return ["BLOCKED"]


def reuse_scenarios():
    """whole-connection runs of requests issued late / repeatedly: a timed() wrapper made at t0 and called twice after
    delays, async_request(timeout=) twice, sync_request on a connection older than its timeout.  steps:
    ("W", tau) | ("T", n) | ("K", r) | ("Q", tau, r) | ("Y", tau, r) | ("v",) | ("x",) | ("V",); r = the server's working
    time.  After a call that timed out the client sleeps past the late reply and serves it (it belongs to the old
    request) before issuing the next one."""
    out = []
    for tau in (1, 3):
        for kind in "KQY":
            for d0 in sorted(set([0, tau - 1, tau, tau + 2])):
                for r1 in sorted(set([0, tau - 1, tau + 1])):
                    for gap in (1, tau + 1):
                        for r2 in (0, tau + 1):
                            steps = [("W", tau)] if kind == "K" else []
                            for before, r in ((d0, r1), (gap, r2)):
                                if before:
                                    steps.append(("T", before))
                                steps.append(("K", r) if kind == "K" else (kind, tau, r))
                                if kind != "Y":
                                    steps += [("x",), ("v",)]
                                if r > tau:
                                    steps += [("T", r - tau + 1), ("V",)]
                            out.append(steps)
    # fire-and-forget with completion callbacks: the caller keeps no reference to the result
    for tau in (None, 3):
        for d in (0, 1, 2, 5):
            out.append([("F", tau, d, 2), ("T", d + 1), ("V",), ("T", 1), ("V",)])
    return out


def reuse_tokens_of(steps):
    """model tokens, and for each token whether the network run observes it"""
    toks, seen = [], []
    for st in steps:
        if st[0] == "W":
            toks.append("W" + tau_tok(st[1])); seen.append(True)
        elif st[0] == "T":
            toks.append("T%d" % st[1]); seen.append(True)
        elif st[0] == "K":
            toks += ["K", "S%d:RF42" % st[1]]; seen += [True, False]
        elif st[0] == "Q":
            toks += ["Q" + tau_tok(st[1]), "S%d:RF42" % st[2]]; seen += [True, False]
        elif st[0] == "Y":
            toks += ["S%d:NF42" % st[2], "Y" + tau_tok(st[1])]; seen += [False, True]
        elif st[0] == "F":
            toks += ["Q" + tau_tok(st[1]), "S%d:RF42" % st[2]] + ["C%d" % (k + 1) for k in range(st[3])] + ["D"]
            seen += [True, False] + [False] * st[3] + [False]
        else:
            toks.append(st[0]); seen.append(True)
    return toks, seen


def run_reuse_simnet(steps):
    import rpyc
    import rpyc.lib
    import simnet
    from rpyc.core import consts
    from rpyc.core.async_ import AsyncResultTimeout
    net = simnet.Net()

    class Srv(rpyc.Service):
        def exposed_work(self, pre):
            rpyc.lib.time.sleep(pre)
            return 42

    out = []
    with net.installed():
        ca, _cb = net.connect_pair(rpyc.VoidService(), Srv(), {}, {})
        spin = {"t": None, "n": 0}

        def watch(op, _stream, _arg):
            if op == "poll":
                if net.clock.now == spin["t"]:
                    spin["n"] += 1
                    if spin["n"] > 500:
                        spin["n"] = 0
                        raise Spin()
                else:
                    spin["t"], spin["n"] = net.clock.now, 0
        ca._channel.stream.fault = watch
        try:
            work = ca.root.work
            t0 = net.clock.now
            res = tw = None
            cblog = []

            def fire(tau, d, ncb):
                # the AsyncResult is referenced by the library only once this returns
                r = ca.async_request(consts.HANDLE_CALL, work, (d,), (), timeout=tau)
                for k in range(ncb):
                    r.add_callback(lambda _r, k=k: cblog.append("%d@%s" % (k + 1, fmt_t(net.clock.now - t0))))

            def guarded(fn):
                Watchdog.enter()
                try:
                    return fn()
                except Blocked:
                    return "BLOCKED"
                except AsyncResultTimeout:
                    return "TO"
                except Spin:
                    return "SPIN"
                except Exception as ex:  # noqa
                    return "raised:" + type(ex).__name__
                finally:
                    Watchdog.leave()
            for st in steps:
                k = st[0]
                if k in "WKQ":
                    try:
                        if k == "W":
                            tw = rpyc.timed(work, st[1])
                        elif k == "K":
                            res = tw(st[1])
                        else:
                            res = ca.async_request(consts.HANDLE_CALL, work, (st[2],), (), timeout=st[1])
                        o = "-"
                    except Exception as ex:  # noqa
                        out.append("raised:%s@%s" % (type(ex).__name__, fmt_t(net.clock.now - t0)))
                        break
                elif k == "T":
                    rpyc.lib.time.sleep(st[1]); o = "-"
                elif k == "F":
                    import gc
                    res = None
                    o = guarded(lambda: fire(st[1], st[2], st[3]) or "-")
                    gc.collect(0)
                elif k == "Y":
                    ca._config["sync_request_timeout"] = st[1]
                    o = guarded(lambda: "val:%s" % work(st[2]))
                    ca._config["sync_request_timeout"] = 30
                elif k == "v":
                    o = guarded(lambda: "val:%s" % res.value)
                elif k == "x":
                    o = guarded(lambda: tri(res.expired))
                elif k == "V":
                    guarded(lambda: ca.serve(0)); o = "-"
                out.append("%s@%s" % (o, fmt_t(net.clock.now - t0)))
            out.append("log[%s]" % ",".join(cblog))
        finally:
            net.shutdown([ca])
    return out


def model_view_of_scenario(line, kind, n_sends):
    """cut the driver's line down to what the network run observes: the tokens after the sends, and the callback log"""
    parts = line.split(" st ")[0].split(" ")
    obs = parts[n_sends:]
    if kind == "sync":
        return obs[:1]
    log = line.split(" log")[1].split(" ")[0]
    return obs + ["log" + log]


# ------------------------------------------------------------------------------------------ correspondence
def sig_of(toks, line):
    """distinctness: multiset of event kinds is NOT used; the observation trace with instants is"""
    return line


def correspondence(ctx):
    c = Corr()
    c.rule = ("scripted channel under a real Connection: for each timeout in {None,-1,0,1,3} and each of "
              "{reply dispatched now, reply put into the channel now} x {value, exception}: ALL orders of "
              "{reply, tick 1, tick 5, add callback x2, ready, error, expired, value, wait} of the stated length "
              "(each at most once; callbacks numbered by registration), ALL sequences with up to 3 repetitions of "
              "length <= 3, plus seeded sequences of length <= 14 with delayed replies, busy unrelated requests, "
              "re-arming, duplicate replies, serve(0), serve(t), poll_all(t), sync_request/timed/async_request(timeout=); "
              "a callback registered while ANOTHER THREAD publishes the reply (add_callback paused between its test and its "
              "append, the reply delivered by a second thread); sustained unrelated inbound traffic around the reply under poll_all(t) / ready / wait; a grid of requests "
              "issued late or repeatedly (a timed() wrapper made at t0 and called 2-3 times after delays 0/<tau/=tau/>tau, "
              "async_request(timeout=) repeated, sync_request on a connection older than its timeout; each reply before / "
              "at / after that call's own deadline); fire-and-forget (callbacks registered, the application drops its only "
              "reference to the result, then the reply is dispatched before / after the expiry); the same families at 0.25 s "
              "and 1/1024 s per tick (fractional timeouts); several live requests on one connection (replies carry their "
              "request's number: stale late replies crossing a new request, replies in the opposite order, results waited "
              "on alternately) against the multi-request model; `__call__` with every list of <= 3 callbacks over {returns, "
              "raises, registers more from inside, registers and raises, reads the value, issues a request}; whole-connection "
              "scenarios over the deterministic network. Non-trivial = the sequence contains a reply or an expiry "
              "and at least one query/wait; distinct = distinct full observation trace (results, instants, final slots, "
              "callback log).")
    depth_main = ctx.budget(5, 7)              # reply put into the channel now, value
    depth_other = ctx.budget(4, 6)             # the same two with an exception
    depth_top = ctx.budget(6, 8)               # reply dispatched now, value
    lines, impl = [], []
    kinds = {}
    r = Rng(ctx.seed).fork("c15")
    n_recheck = ctx.budget(300, 6000)          # per batch

    def add(t0, toks, got):
        lines.append("async run %d %s" % (t0, " ".join(toks)))
        impl.append(got)

    def meta_of(line):
        parts = line.split(" ")
        return int(parts[2]), parts[3:]

    def flush(recheck):
        """pipe what has accumulated through the model, compare, forget (bounds memory in the thorough tier)"""
        if recheck and lines:
            # prefix sharing is a harness shortcut: re-run a sample of the leaves from scratch, insist on the same trace
            for _ in range(n_recheck):
                i = r.below(len(lines))
                t0, toks = meta_of(lines[i])
                fresh = run_impl(t0, list(toks))
                c.count("enumerated:recheck-from-scratch")
                if fresh != impl[i]:
                    c.disagreements.append(dict(case="%d %s" % (t0, " ".join(toks)), impl=fresh,
                                                model="(prefix-shared run) " + impl[i],
                                                note="harness: prefix-shared run differs from a fresh run"))
        outs = run_driver(lines, exe="drv_async")
        for line, want, got in zip(lines, impl, outs):
            c.evaluations += 1
            t0, toks = meta_of(line)
            if " st ? " in want:
                got = blind(got)
            if "D" in toks:
                want, got = no_ra(want), no_ra(got)
            if got != want:
                if len(c.disagreements) < 200:
                    c.disagreements.append(dict(case="%d %s" % (t0, " ".join(toks)), impl=want, model=got))
                continue
            has_reply = any(t[0] in "A" or ":R" in t for t in toks)
            has_query = any(t[0] in "rexvwYZ" for t in toks)
            if has_query and (has_reply or "TO" in want or " T@" in want):
                c.signatures.add(hash(want))
            for tok in want.split(" st ")[0].split(" "):
                o = tok.split("@")[0].split(":")[0]
                kinds[o] = kinds.get(o, 0) + 1
            if "busy[]" not in want:
                c.count("outcome:with-busy-request")
            if " raN " not in want:
                c.count("outcome:reply-accepted")
            elif has_reply:
                c.count("outcome:reply-not-accepted")
            if len(c.samples) < 12 and c.evaluations % 40009 == 7:
                c.samples.append(dict(case="%d %s" % (t0, " ".join(toks)), outcome=want))
        del lines[:], impl[:]

    t_start = _walltime.time()
    n_enum = 0
    try:
        for tau in TIMEOUTS:
            for variant in ("arrive", "deliver", "arrive-exc", "deliver-exc"):
                depth = depth_top if variant == "arrive" else depth_main if variant == "deliver" else depth_other
                sim = Sim(0)
                try:
                    head = "X" + tau_tok(tau)
                    o0 = sim.apply(head)

                    def emit(seq, obs, st, head=head, o0=o0):
                        add(0, [head] + seq, " ".join([o0] + obs + [st]))
                    before = len(lines)
                    enum_tree(sim, symbols_for(variant), depth, emit)
                    enum_tree(sim, symbols_rep(variant), 3, emit)
                    n_enum += len(lines) - before
                    c.count("enumerated:%s:depth%d" % (variant, depth), len(lines) - before)
                finally:
                    sim.close()
                if ctx.tier == "thorough":
                    flush(True)
            flush(True)
        ctx.log("enumeration: %d sequences on the real code and the model in %.1fs" % (n_enum, _walltime.time() - t_start))
        for toks in race_sequences():
            add(0, toks, run_impl(0, toks))
            c.count("registration-racing-with-publication")
        for toks in traffic_sequences():
            add(0, toks, run_impl(0, toks))
            c.count("sustained-traffic:poll_all/ready")
        for toks in forget_sequences():
            add(0, toks, run_impl(0, toks))
            c.count("result-dropped-by-the-application")
        for toks in reuse_sequences():
            add(0, toks, run_impl(0, toks))
            c.count("reused-wrapper/late-request:" + ("timed" if toks[0][0] == "W" else "sync" if any(
                t[0] == "Y" for t in toks) else "async_request"))
        flush(False)
        # the same families with a fractional second per tick (timeouts and instants like 0.75 s, 3/1024 s)
        for unit in (0.25, 2.0 ** -10):
            fam = forget_sequences()[::3] + reuse_sequences()[::2] + boundary_sequences()
            want = [run_impl(0, toks, unit) for toks in fam]
            got = run_driver(["async run 0 " + " ".join(toks) for toks in fam], exe="drv_async")
            for toks, a, b in zip(fam, want, got):
                c.evaluations += 1
                c.count("fractional-time:unit=%s" % unit)
                if " st ? " in a:
                    b = blind(b)
                if "D" in toks:
                    a, b = no_ra(a), no_ra(b)
                if a != b and len(c.disagreements) < 200:
                    c.disagreements.append(dict(case="unit=%s 0 %s" % (unit, " ".join(toks)), impl=a, model=b))
        # several live requests on one connection
        multi = multi_corpus() + [gen_multi(r) for _ in range(ctx.budget(2500, 50000))]
        for unit in (1, 0.25):
            part = multi if unit == 1 else multi[:len(multi) // 3]
            want = [run_impl_multi(0, toks, unit) for toks in part]
            got = run_driver(["async multi 0 " + " ".join(toks) for toks in part], exe="drv_async")
            for toks, a, b in zip(part, want, got):
                c.evaluations += 1
                c.count("multi-request:%d-requests" % sum(1 for t in toks if t[0] == "Q"))
                if a != b:
                    if len(c.disagreements) < 200:
                        c.disagreements.append(dict(case="multi unit=%s 0 %s" % (unit, " ".join(toks)), impl=a, model=b))
                elif sum(1 for t in toks if t[0] == "Q") > 1:
                    c.signatures.add(hash(a))
        # `__call__` with raising / re-entrant callbacks
        cases = call_cases()
        want = [run_call_case(cs) for cs in cases]
        got = run_driver([call_case_line(cs) for cs in cases], exe="drv_async")
        for cs, a, b in zip(cases, want, got):
            c.evaluations += 1
            c.count("call-with-raising-or-reentrant-callbacks")
            if a != b:
                c.disagreements.append(dict(case=call_case_line(cs), impl=a, model=b))
            else:
                c.signatures.add(hash(a))
        n_seeded = ctx.budget(10000, 400000)
        for i in range(n_seeded):
            toks = gen_sequence(r, r.range(1, 14))
            t0 = r.choice([0, 0, 5, 1000])
            add(t0, toks, run_impl(t0, toks))
            c.count("seeded")
            if len(lines) >= 100000:
                flush(False)
        flush(False)
        # whole connections
        scen = simnet_scenarios()
        scen_lines, scen_impl = [], []
        for (kind, tau, pre, k, post, ops) in scen:
            toks = scenario_tokens(kind, tau, pre, k, post, ops)
            scen_lines.append("async run 0 " + " ".join(toks))
            scen_impl.append(bounded_scenario(run_scenario_simnet, kind, tau, pre, k, post, ops))
            c.count("simnet:" + kind)
        outs = run_driver(scen_lines, exe="drv_async")
        reuse = reuse_scenarios()
        reuse_toks = [reuse_tokens_of(st) for st in reuse]
        reuse_impl = [bounded_scenario(run_reuse_simnet, st) for st in reuse]
        reuse_outs = run_driver(["async run 0 " + " ".join(t) for t, _seen in reuse_toks], exe="drv_async")
    except DriverError as ex:
        c.error = str(ex)
        return c
    for (sc, line, want, got) in zip(scen, scen_lines, scen_impl, outs):
        c.evaluations += 1
        kind = sc[0]
        n_sends = 1 if sc[3] is None else 2
        view = model_view_of_scenario(got, kind, n_sends)
        if view != want:
            c.disagreements.append(dict(case="simnet %r = %s" % (sc, line), impl=" ".join(want), model=" ".join(view)))
        else:
            c.signatures.add("simnet " + " ".join(want) + repr(sc[:2]))
            if len(c.samples) < 16 and sc[3] is not None and sc[1] == 3:
                c.samples.append(dict(case="simnet %r" % (sc,), outcome=" ".join(want)))
    for steps, (toks, seen), want, got in zip(reuse, reuse_toks, reuse_impl, reuse_outs):
        c.evaluations += 1
        c.count("simnet:" + "fire-and-forget" if steps[0][0] == "F" else "simnet:late-or-repeated-" + (
            "timed" if steps[0][0] == "W" else "sync" if any(
            st[0] == "Y" for st in steps) else "async_request"))
        view = [o for o, keep in zip(got.split(" st ")[0].split(" "), seen) if keep]
        view.append("log" + got.split(" log")[1].split(" ")[0])
        if view != want:
            c.disagreements.append(dict(case="simnet-reuse %r = %s" % (steps, " ".join(toks)), impl=" ".join(want),
                                        model=" ".join(view)))
        else:
            c.signatures.add("simnet-reuse " + " ".join(want))
            if len(c.samples) < 18 and steps[0] == ("W", 3) and ("T", 5) in steps[:2]:
                c.samples.append(dict(case="simnet %r" % (steps,), outcome=" ".join(want)))
    for k, v in kinds.items():
        c.count("observation:" + k, v)
    c.extra["exhaustive_orders"] = ("all orders of the 9-symbol multiset of length %d (reply dispatched now) / %d (reply put "
                                    "into the channel now) / %d (the same two with an exception), 5 timeouts: %d sequences"
                                    % (depth_top, depth_main, depth_other, n_enum))
    c.exhaustive = False
    return c


# ------------------------------------------------------------------------------------------ direct oracle (real code only)
REARM_SIG = "C15:set_expiry-revives-expired-result"


def oracle_sequence(t0, toks, tolerate_rearm=False):
    """The property statement as predicates over one event sequence on the real code.  Returns None or a text.
    Bookkeeping here is the statement's own: deadline = instant of the last set_expiry + its value (None/negative:
    no deadline); `arrival` = the instant a reply for the request is dispatched (the harness hands it over or the
    channel returns it from recv)."""
    state = {"rearmed": False}
    msg = _oracle_sequence(t0, toks, tolerate_rearm, state)
    if msg and state["rearmed"]:
        msg = msg.replace("): ", "): [%s: set_expiry was called after the expiry had passed] " % REARM_SIG, 1)
    return msg


def _oracle_sequence(t0, toks, tolerate_rearm, state):
    """`tolerate_rearm`: judge a result that was re-armed after its expiry afresh (the listed known finding) instead of
    holding it to 'that outcome is final'"""
    sim = Sim(t0)
    try:
        deadline = None
        rearmed = False            # set_expiry was called on a result whose expiry had passed
        outcome = None             # None | ("ready", is_exc, payload) | ("expired",)
        registered = []            # (cid, instant registered)
        arrival_at = None
        first_reply_seen = False   # a request has one reply (C08); only the first one dispatched is judged
        log0 = 0                   # the callback log of the result under judgement starts here
        wrapper_tau = None
        for i, tok in enumerate(toks):
            c = tok[0]
            if c == "W":
                wrapper_tau = parse_tau(tok[1:])
            if c in "YQZK":
                # a fresh request: its result is judged on its own, and by the statement it expires at ITS OWN issue
                # instant + timeout, however old the connection or the timed() wrapper is
                deadline, outcome, registered, arrival_at, first_reply_seen = None, None, [], None, False
                rearmed = state["rearmed"] = False      # a fresh request: what was done to the previous result is over
                log0 = 0               # (the harness starts a new log for a new result)
                tau = wrapper_tau if c == "K" else parse_tau(tok[1:])
                dl_at_call = sim.clock.now + tau if tau is not None and tau >= 0 else None
            called_at = sim.clock.now
            n_busy = len(sim.busy)
            n_replies = len(sim.reply_times)
            n_recv = len(sim.recvlog)
            was_ready = sim.res._is_ready if c not in "YQZK" and sim.res is not None else False
            log_before = list(sim.cblog)
            obs = sim.apply(tok).rsplit("@", 1)[0]
            now = sim.clock.now
            res = sim.res
            if c in "YQZK":
                log_before = []
            if res is None:
                # the application dropped its reference (D): nothing can be asked of the result any more, but the statement
                # still says what its callbacks do: registered before the reply => run exactly once, in order, when the
                # reply arrives (unless the expiry came first) - whether or not anybody still holds the result
                new = [(cid, t) for cid, t, _ok in sim.cblog[len(log_before):]]
                decided_now = False
                for at, o_ in sim.reply_times[n_replies:]:
                    if first_reply_seen or o_ != len(sim.seqs) - 1:
                        continue
                    first_reply_seen = True
                    if outcome is None:
                        if deadline is None or at < deadline:
                            want = [(cid, at) for cid, _t in registered]
                            if new != want:
                                return ("event %d (%s): the reply was dispatched at %s (expiry %s) after the application had "
                                        "dropped its reference to the result: callbacks ran as %r, registered %r" % (
                                            i, tok, fmt_t(at), deadline, new, want))
                            outcome, decided_now = ("ready-unheld",), True
                        else:
                            outcome = ("expired",)
                if outcome is None and deadline is not None and now >= deadline:
                    outcome = ("expired",)
                if new and not decided_now:
                    return "event %d (%s): callbacks ran %r with no reply accepted in this event" % (i, tok, new)
                if obs.startswith("raised:"):
                    return "event %d (%s): raised %s" % (i, tok, obs[7:])
                continue
            if obs == "BLOCKED":
                return "event %d (%s): the call did not come back (blocked for ever)" % (i, tok)
            if c in "Pre":
                # poll_all(t) - and `ready`/`error`, which poll with t = 0 - serve what arrives within the interval: a
                # further message is taken only while the interval is not over, so the call returns no later than the
                # end of the interval or of the message it was serving then; `ready` returns once its reply is dispatched
                taken = sim.recvlog[n_recv:]
                if c == "P":
                    t_ = parse_tau(tok[1:])
                    end = None if t_ is None or t_ < 0 else called_at + t_
                else:
                    end = called_at
                if end is not None:
                    for j in range(1, len(taken)):
                        prev_end = taken[j - 1][0] + taken[j - 1][2]
                        if prev_end >= end:
                            return ("event %d (%s): called at %s with the interval ending at %s, it took a further message at "
                                    "%s although the interval was over (sustained traffic keeps it serving)" % (
                                        i, tok, fmt_t(called_at), fmt_t(end), fmt_t(taken[j][0])))
                    last_end = max([end] + [t0_ + d_ for t0_, _k, d_, _o in taken])
                    if obs != "HANG" and now > last_end:
                        return "event %d (%s): returned at %s, later than the interval (%s) and the message being served" % (
                            i, tok, fmt_t(now), fmt_t(end))
            if obs.startswith("raised:"):
                return ("event %d (%s): raised %s; an operation on a result only ever returns, raises the stored exception "
                        "(value) or the timeout error (wait/value)" % (i, tok, obs[7:]))
            if c == "X":
                tau = parse_tau(tok[1:])
                if outcome == ("expired",):
                    if tolerate_rearm:
                        outcome = None        # judged afresh from here
                        deadline = called_at + tau if tau is not None and tau >= 0 else None
                    else:
                        rearmed = state["rearmed"] = True   # "that outcome is final": it stays expired whatever is set now
                else:
                    deadline = called_at + tau if tau is not None and tau >= 0 else None
            if c in "YQZK":
                deadline = dl_at_call
            if c == "C" and not was_ready:
                registered.append((int(tok[1:]), called_at))
            if c == "G" and not was_ready:
                registered.append((int(tok[1:].split(":")[0]), called_at))    # registered while the reply is being published
            # --- a reply was dispatched during this event: decide what the statement says about it
            for at, o_ in sim.reply_times[n_replies:]:
                if first_reply_seen or o_ != len(sim.seqs) - 1:
                    continue          # (a reply carrying another request's number is none of this result's business)
                first_reply_seen = True
                if arrival_at is None and outcome is None:
                    if deadline is None or at < deadline:
                        arrival_at = at
                    else:
                        outcome = ("expired",)
            if outcome is None and arrival_at is not None:
                if not res._is_ready:
                    return "event %d (%s): a reply dispatched at %s before the expiry %s was not accepted" % (
                        i, tok, fmt_t(arrival_at), deadline)
                outcome = ("ready", res._is_exc, sim._payload(res._obj))
                want = [(cid, arrival_at) for cid, _t in registered]
                got = [(cid, t) for cid, t, _ok in sim.cblog[len(log_before):]]
                if got != want:
                    return "event %d (%s): callbacks at arrival ran as %r, registered %r" % (i, tok, got, want)
            elif outcome is None and deadline is not None and now >= deadline:
                outcome = ("expired",)
            # --- the outcome is final
            if outcome and outcome[0] == "ready":
                if (res._is_ready, res._is_exc, sim._payload(res._obj)) != (True,) + outcome[1:]:
                    return "event %d (%s): ready result changed to %r" % (i, tok, (res._is_ready, res._is_exc, res._obj))
                if c in "CG" and was_ready:
                    if [(cid, t) for cid, t, _ok in sim.cblog[len(log_before):]] != [(int(tok[1:].split(":")[0]), called_at)]:
                        return "event %d (%s): callback registered on a ready result did not run at once, exactly once" % (i, tok)
                elif arrival_at is not None and sim.cblog != log_before and not (
                        len(log_before) < len(sim.cblog) and sim.cblog[len(log_before)][1] == arrival_at and not was_ready):
                    return "event %d (%s): callbacks ran again: %r" % (i, tok, sim.cblog[len(log_before):])
                if c in "vY" and obs != ("exc:" if outcome[1] else "val:") + outcome[2]:
                    return "event %d (%s): value of a ready result gave %s" % (i, tok, obs)
                if c == "w" and obs != "-":
                    return "event %d (%s): wait on a ready result gave %s" % (i, tok, obs)
                if c == "r" and obs != "T" or c == "x" and obs != "F" or c == "e" and obs != tri(outcome[1]):
                    return "event %d (%s): query on a ready result gave %s" % (i, tok, obs)
            if outcome == ("expired",):
                if res._is_ready:
                    return "event %d (%s): a result whose expiry %s had passed became ready" % (i, tok, deadline)
                if sim.cblog[log0:]:
                    return "event %d (%s): a callback ran although the expiry came first" % (i, tok)
                if c == "r" and obs != "F" or c == "x" and obs != "T" or c == "e" and obs != "F":
                    return "event %d (%s): query on an expired result gave %s" % (i, tok, obs)
                if c in "vwY" and obs != "TO":
                    return "event %d (%s): waiting on an expired result gave %s, not the timeout error" % (i, tok, obs)
            if outcome is None:
                if c == "x" and obs != "F":
                    return "event %d (%s): expired is %s while pending" % (i, tok, obs)
                if sim.cblog[log0:]:
                    return "event %d (%s): a callback ran while pending" % (i, tok)
            # --- timeouts are exact
            if c in "vwY" and obs == "TO":
                if deadline is None:
                    return "event %d (%s): timeout error without a (non-negative) expiry" % (i, tok)
                if now < deadline:
                    return "event %d (%s): timeout raised at %s, before the expiry %s" % (i, tok, fmt_t(now), deadline)
                exact = max(deadline, called_at)
                if now != exact:
                    served = sim.busy[n_busy:]
                    if not (served and served[-1][0] <= deadline and served[-1][0] + served[-1][1] == now):
                        return "event %d (%s): timeout raised at %s, expiry %s, no request being served explains it" % (
                            i, tok, fmt_t(now), deadline)
            if c in "vwY" and obs != "TO" and obs != "HANG" and outcome is None:
                return "event %d (%s): waiting returned %s while pending" % (i, tok, obs)
        return None
    finally:
        sim.close()


def oracle_multi(toks, tolerate_rearm=False):
    """the statement, request by request, on a history with several live requests: a request's own reply decides it iff
    it is dispatched while the request is pending and before the deadline then in force; callbacks once, in order, at
    that instant (or at registration, if later); waiting never raises the timeout error before the deadline.  Replies
    carrying another request's number must make no difference."""
    sim = MultiSim(0)
    try:
        dls, regs, decided, arrival, rearmed = [], [], [], [], []
        for i, tok in enumerate(toks):
            t_before = sim.now_ticks()
            n_replies = len(sim.reply_times)
            obs = sim.apply(tok).rsplit("@", 1)[0]
            now = sim.now_ticks()
            if obs.startswith("raised:"):
                return "event %d (%s): raised %s" % (i, tok, obs[7:])
            for at, o in sim.reply_times[n_replies:]:
                if o < len(decided) and decided[o] is None:      # the first reply dispatched for request o decides it
                    decided[o] = dls[o] is None or at < dls[o]
                    arrival[o] = at
            if tok[0] == "Q":
                tau = parse_tau(tok[1:])
                dls.append(t_before + tau if tau is not None and tau >= 0 else None)
                regs.append([])
                decided.append(None)
                arrival.append(None)
                rearmed.append(False)
            elif tok[0].isdigit():
                k, inner = tok.split(".", 1)
                k = int(k)
                if inner[0] == "X":
                    tau = parse_tau(inner[1:])
                    if decided[k] is None and dls[k] is not None and t_before >= dls[k] and not tolerate_rearm:
                        decided[k], rearmed[k] = False, True     # "that outcome is final": expired stays expired
                    else:
                        dls[k] = t_before + tau if tau is not None and tau >= 0 else None
                elif inner[0] == "C":
                    regs[k].append((int(inner[1:]), t_before))
                elif inner[0] in "vw":
                    if obs == "TO" and (dls[k] is None or now < dls[k]):
                        return "event %d (%s): timeout error at %s, expiry %s" % (i, tok, fmt_t(now), dls[k])
                    if obs not in ("TO", "HANG", "SPIN") and not sim.results[k]._is_ready:
                        return "event %d (%s): returned %s while not ready" % (i, tok, obs)
        for k, r in enumerate(sim.results):
            want_ready = bool(decided[k])
            tag = "[%s: set_expiry was called after the expiry had passed] " % REARM_SIG if rearmed[k] else ""
            if bool(r._is_ready) != want_ready:
                return "request %d: %sready is %s; its reply was dispatched at %s, expiry then in force decided %s" % (
                    k, tag, r._is_ready, arrival[k], decided[k])
            want_log = [(cid, max(t, arrival[k])) for cid, t in regs[k]] if want_ready else []
            got_log = [(cid, t) for cid, t, _ok in sim.logs[k]]
            if got_log != want_log:
                return "request %d: %scallbacks ran as %r, the statement requires %r" % (k, tag, got_log, want_log)
        return None
    finally:
        sim.close()


def oracle_call(case):
    """the statement on `__call__` alone, for any callbacks: when the reply arrives (the expiry has not passed) the result
    is ready with its value, every registered callback has run exactly once, in registration order, each followed at
    once by the callbacks it registered from inside; nothing stays stored; an error of a callback surfaces in the serving
    thread; afterwards the value stays available and nothing runs again"""
    import re
    expired, now, exc, specs = case
    # (what stays stored, and whether a callback's error then surfaces in the serving thread, is not the statement's business)
    got = re.sub(r" raised[TF]", " raised-", re.sub(r" cb\[[^\]]*\]", " cb[]", run_call_case(case)))
    if expired:
        want = "st F N N cb[] log[] raised-"
    else:
        ids = []
        for cid, _raises, adds, _x in specs:
            ids += [cid] + list(adds)
        want = "st T %s 7 cb[] log[%s] raised-" % ("T" if exc else "F", ",".join("%d@%d" % (i, now) for i in ids))
    if got != want:
        return "%s: the real code gives %s, the statement requires %s" % (call_case_line(case), got, want)
    return None


def oracle_sync(tau, sends):
    """a synchronous request = an asynchronous one carrying the configured timeout, then .value"""
    a = run_impl(0, sends + ["Y" + tau_tok(tau)])
    b = run_impl(0, sends + ["Q" + tau_tok(tau), "v"])
    a1, b1 = a.split(" "), b.split(" ")
    a_cmp = [a1[len(sends)]] + a1[len(sends) + 1:]
    b_cmp = [b1[len(sends) + 1]] + b1[len(sends) + 2:]
    if a_cmp != b_cmp:
        return "sync_request (timeout %r) gave %s but async_request(timeout=%r).value gave %s" % (
            tau, " ".join(a_cmp), tau, " ".join(b_cmp))
    return None


def boundary_sequences():
    out = []
    for tau in TIMEOUTS:
        x = "X" + tau_tok(tau)
        for body in (["AF7", "v"], ["C1", "AF7", "C2", "v", "AF9", "v"], ["T5", "AF7", "r", "v"], ["S1:RF7", "v"],
                     ["S3:RF7", "w", "r"], ["S1:O4", "S2:RT7", "v"], ["S0:RF7", "T5", "w", "V", "r"], ["w"],
                     ["S5:RF7", "w", "X9", "w", "v"], ["C1", "S2:RF7", "T1", "r", "T1", "r", "C2"], ["x", "T1", "x", "T5", "x"],
                     ["S0:O3", "S0:RF7", "r", "r", "e"], ["AT7", "e", "v"], ["S1:O1", "S1:O1", "S2:O5", "w"]):
            out.append([x] + body)
    return out


def shrink(t0, toks, pred):
    cur = list(toks)
    changed = True
    while changed:
        changed = False
        for i in range(len(cur)):
            cand = cur[:i] + cur[i + 1:]
            try:
                if cand and pred(t0, cand):
                    cur, changed = cand, True
                    break
            except Exception:  # noqa
                pass
    return cur


def signature_of(msg):
    if REARM_SIG in msg:
        return REARM_SIG
    m = msg.split("): ", 1)[-1]
    if "; an operation on a result only ever returns" in m or m.startswith("raised "):
        return "c15:foreign-exception"
    for key in ("blocked for ever", "interval was over", "later than the interval", "dropped its reference",
                "timeout raised", "timeout error without", "before the expiry", "not accepted", "callbacks", "callback", "changed", "became ready", "timeout raised",
                "timeout error without", "while pending", "expired result", "ready result", "sync_request"):
        if key in m:
            return "c15:" + key.replace(" ", "-")
    return "c15:other"


def oracle_search(ctx, corr, broken):
    Watchdog.blocked = 0
    r = Rng(ctx.seed).fork("c15-search")
    deadline = _walltime.time() + ctx.budget(60, 600)

    known = getattr(ctx, "known_signatures", ())

    def check(t0, toks):
        try:
            msg = oracle_sequence(t0, toks)
            if msg and signature_of(msg) == REARM_SIG and REARM_SIG in known:
                # the listed finding; look past it for anything else in this sequence
                msg = oracle_sequence(t0, toks, tolerate_rearm=True)
            return msg
        except BadSequence:
            return None
        except Exception as ex:  # noqa  (a crash of the real code inside a sequence is a failure of its own kind)
            return "event ?: (%s): the real code raised %s: %s" % (" ".join(toks), type(ex).__name__, ex)

    def found(t0, toks, msg):
        small = shrink(t0, toks, lambda a, b: check(a, b) is not None)
        msg = check(t0, small) or msg
        sig = signature_of(msg)
        if sig in getattr(ctx, "known_signatures", ()):
            return None
        return dict(kind="history", t0=t0, events=" ".join(small)), msg, sig

    cands = []
    for d in corr.disagreements[:300]:
        case = d.get("case", "")
        if case.startswith("simnet"):
            continue
        parts = case.split(" ")
        try:
            cands.append((int(parts[0]), parts[1:]))
        except ValueError:
            pass
    cands += [(0, s) for s in boundary_sequences()] + [(0, s) for s in race_sequences()] + [(0, s) for s in traffic_sequences()] + [(0, s) for s in forget_sequences()] + [(0, s) for s in reuse_sequences()]
    for t0, toks in cands:
        msg = check(t0, toks)
        if msg:
            f = found(t0, toks, msg)
            if f:
                return f
    for cs in sorted(call_cases(), key=lambda c_: len(c_[3])):
        msg = oracle_call(cs)
        if msg and "c15:callbacks-after-a-raising-one" not in known:
            return (dict(kind="call", expired=cs[0], now=cs[1], exc=cs[2], callbacks=[list(sp) for sp in cs[3]]), msg,
                    "c15:callbacks-after-a-raising-one")
    rm = Rng(ctx.seed).fork("c15-multi")
    for toks in multi_corpus() + [gen_multi(rm) for _ in range(3000)]:
        try:
            msg = oracle_multi(toks)
            if msg and REARM_SIG in msg and REARM_SIG in known:
                msg = oracle_multi(toks, tolerate_rearm=True)
        except BadSequence:
            msg = None
        if msg:
            return dict(kind="history", multi=True, t0=0, events=" ".join(toks)), msg, "c15:multi"
    for tau in TIMEOUTS:
        for sends in ([], ["S1:NF7"], ["S2:O3", "S6:NT7"], ["S4:NF7"], ["S0:NF7"]):
            msg = oracle_sync(tau, sends)
            if msg:
                return dict(kind="history", t0=0, sync_timeout=tau_tok(tau), events=" ".join(sends)), msg, "c15:sync_request"
    for tau in TIMEOUTS:
        for variant in ("arrive", "deliver"):
            for seq in enum_orders(symbols_for(variant), 4):
                toks = ["X" + tau_tok(tau)] + list(seq)
                msg = check(0, toks)
                if msg:
                    f = found(0, toks, msg)
                    if f:
                        return f
    while _walltime.time() < deadline:
        toks = gen_sequence(r, r.range(1, 14))
        msg = check(0, toks)
        if msg:
            f = found(0, toks, msg)
            if f:
                return f
    return None


def known_probes(ctx):
    """defects the model carries faithfully and known_findings.json lists, reproduced on the real code on every run.  The
    two halves of the re-arm finding are probed and reported separately (one line each while it reproduces)."""
    a = run_impl(0, "X1 T1 x X5 x T1 AF7 v".split())
    b = run_impl(0, "X1 C1 T1 AF7 XN x r w".split())
    revived = a.startswith("-@0 -@1 T@1 -@1 F@1 -@2 -@2 val:7@2 ")
    stranded = b.startswith("-@0 -@0 -@1 -@1 -@1 F@1 F@1 HANG@1 ") and " log[] " in b
    return [
        (REARM_SIG, revived, "%s (1/2) set_expiry on an expired AsyncResult revives it: `X1 T1 x X5 x T1 AF7 v` -> %s" % (
            REARM_SIG, a.split(" st ")[0])),
        (REARM_SIG, stranded, "%s (2/2) a result re-armed after its reply was discarded is pending for ever, its callback never "
                              "runs: `X1 C1 T1 AF7 XN x r w` -> %s" % (REARM_SIG, b.split(" st ")[0])),
    ]


def replay(case):
    Watchdog.blocked = 0
    out = dict(case=case)
    if case.get("multi"):
        toks = case["events"].split()
        out["oracle"] = oracle_multi(toks) or "holds"
        out["implementation"] = run_impl_multi(0, toks)
        out["model"] = run_driver(["async multi 0 " + " ".join(toks)], exe="drv_async")[0]
        return out
    if case.get("kind") == "call":
        cs = (case["expired"], case["now"], case["exc"], [tuple(x) for x in case["callbacks"]])
        out["oracle"] = oracle_call(cs) or "holds"
        out["implementation"] = run_call_case(cs)
        out["model"] = run_driver([call_case_line(cs)], exe="drv_async")[0]
        return out
    if "sync_timeout" in case:
        sends = case["events"].split()
        tau = parse_tau(case["sync_timeout"])
        out["oracle"] = oracle_sync(tau, sends) or "holds"
        toks = sends + ["Y" + tau_tok(tau)]
    else:
        toks = case["events"].split()
        out["oracle"] = oracle_sequence(case.get("t0", 0), toks) or "holds"
    t0 = case.get("t0", 0)
    try:
        out["implementation"] = run_impl(t0, toks)
    except Exception as ex:  # noqa
        out["implementation"] = "raised %s: %s" % (type(ex).__name__, ex)
    out["model"] = run_driver(["async run %d %s" % (t0, " ".join(toks))], exe="drv_async")[0]
    return out
