"""C09 — remote exceptions: same class, same data, safely (layer L5 Vinegar).

Correspondence: the real `vinegar.dump` -> brine -> `vinegar.load`, and real Connections over harness/simnet.py,
against `Rpyc.Vinegar.dumpExc / loadExc / requesterSees` (lean/RpycModel/Vinegar/Model.lean) through `drv_vinegar`.
Cases: every built-in exception class of the interpreter x argument tuples (fixed corpus, class-aware constructors,
seeded values incl. non-serializable members) x all 32 settings of the five switches; custom classes (already
imported / importable / unknown / broken module; class missing, not a class, not an exception, __new__ needing
arguments, read-only property) with import and constructor canaries; crafted payloads in place of the record.
Direct oracle (real code only): the property statement restated in Python (`oracle_exc`, `oracle_payload`).

Helper modules: harness/vinegar_env.py (pool, environment facts, observation, canonical text),
harness/vinegar_cases.py (generators, running one case).
"""
import builtins
import sys
import time
import traceback
import warnings

import valtext
import vinegar_cases as vc
import vinegar_env as ve
from lineproto import run_driver, DriverError
from pipeline import Corr
from prng import Rng

ID = "C09"
LEAN_MODULE = "RpycModel.Props.C09"
NAMESPACE = "Rpyc.Props.C09"
GEN = ["Vinegar.lean"]
DRIVERS = ["drv_vinegar"]
KNOWN_SIG = "C09:class.__new__-requires-arguments"
RELAY_SIG = "C09:relay-discloses-version"
TRUSTED = [
    "modelled, not verified: CPython's data model as the receiver's environment oracle — `modname in sys.modules`, the "
    "effect of `__import__`, `getattr(module, name)`, `isinstance(cls, type)`, `issubclass(cls, BaseException)`, whether "
    "`cls.__new__(cls)` needs arguments, what `setattr` does on an instance (stored / AttributeError / other error), "
    "`'%s.%s' % (m, c)` for non-text parts, `type()` refusing NUL and lone surrogates in a name; `dir()`/`getattr`/`repr` "
    "on the sender; tuple-unpacking error classes; `raise obj` for a class / a str",
    "harness/vinegar_env.py and harness/vinegar_cases.py: record extraction, environment probing on a scratch subclass "
    "instance, logging `__import__`, canary modules, canonical texts",
]
ASSUMPTIONS = [
    "an exception whose arguments genuinely cannot be serialized (a repr() or getattr that raises, an int beyond the "
    "interpreter's digit limit) surfaces through Connection._send_exception's fallback: same class, the note "
    "'<exception arguments could not be serialized>' as only argument, no attributes, the fixed text '<traceback "
    "unavailable>' — a documented deviation from 'same arguments', modelled (boxExc / fallbackPayload), compared end to end, "
    "and required by the oracle to keep the class and to disclose nothing",
    "when CPython's traceback module itself fails on an exception (a SyntaxError with a malformed detail tuple) the "
    "traceback field is the literal '<traceback unavailable>'; everything else of the exception still arrives",
    "'immutable' in the statement is read as: one of the twelve types brine carries by value, by EXACT type (None, "
    "NotImplemented, Ellipsis, bool, int, float, complex, bytes, str, and tuple / frozenset / slice of such); every other "
    "argument or attribute — lists and dicts, but also an IntEnum member, a Fraction, an instance of a str subclass, a tuple "
    "holding one — arrives as its repr() text (generated and compared; the oracle expects exactly that)",
    "rpyc.core.vinegar._generic_exceptions_cache (one class per distinct 'module.class' text a peer names) and "
    "_exception_classes_cache grow without bound and are never pruned: a peer can make the receiver allocate one class per "
    "crafted name; resource exhaustion is outside this property",
    "typed setters of built-in exception classes (characters_written, start, end: ints within ssize_t) are measured per kind of "
    "value on representative values; their getters return what their setters accept (obligation table_getters_within_setters)",
    "a custom exception whose __dir__ hides or repeats `args` sends no / doubled arguments (dump walks dir(val)): modelled and "
    "compared (pool classes DirNoArgs, DirDupArgs), not demanded by the oracle",
    "an imported module does not raise a non-Exception BaseException while being imported",
    "custom classes do not override __new__ / metaclass / the `args` descriptor with code of their own (other than "
    "needing constructor arguments, which is modelled)",
    "the data attributes of built-in exception classes are writable on a __new__-created instance (checked by the "
    "oracle on every class of this interpreter; a hypothesis `Writable` of the fidelity theorem)",
    "a bare StopIteration (no arguments) travels as a marker (the iterator protocol's end signal): class and empty args are "
    "preserved, but NO traceback or version text is attached and any extra instance attributes it carried are lost — an "
    "admitted deviation from 'same data' (Faithful and the oracle exempt the marker path; generated and compared; a one-line "
    "repair would be to take the marker path only when the instance __dict__ is empty as well)",
    "a relaying peer that received an exception from a peer on ANOTHER MAJOR VERSION appends 'WARNING: Remote is on RPyC x and "
    "local is on RPyC y' to the traceback text it keeps; if it raises the exception on with include_local_traceback on and "
    "include_local_version off, its version y reaches the third party inside that text (Derived.__str__ embeds it): a "
    "disclosure contrary to the switch, generated (foreign two-hop cases), compared, flagged by the two-hop oracle as "
    "C09:relay-discloses-version; no repair that keeps tests/test_remote_exception.py (it asserts the warning's wording)",
    "methods are not data: `dump` leaves out every attribute whose value is callable (measured: Gen.Vinegar.skipsCallables; "
    "before that repair Python >= 3.11's `add_note` travelled as its repr and shadowed the method on every received exception); "
    "the oracle demands that no instance attribute of the received exception shadows a method of its class",
    "module names containing NUL or lone surrogates (only obtainable by assigning __module__) make `type()` refuse the "
    "generic stand-in's name (ValueError / UnicodeEncodeError out of load): modelled and compared, not demanded by the oracle",
]
EXPLANATION = ("C09_partial_interpreter: for EVERY built-in exception class of this interpreter (table measured by the generator: "
               "__new__ needs arguments?, typed setters, dir() sanity) whose __new__ takes no arguments, with no environment "
               "hypothesis. Theorems: builtin_fidelity (any built-in class whose __new__ takes no arguments, any argument tuple, all 4x8 "
               "switch settings: same class, args = normalised args, same immutable public data attributes, traceback/version "
               "text iff the sender's switches allow); custom_gate (real class iff instantiate_custom_exceptions and the module "
               "is loaded or imported under import_custom_exceptions and holds an exception class; otherwise the generic "
               "stand-in named module.class); no_import / no_init / outcome_allowed for EVERY payload value. "
               "C09_statement is false of the code on this interpreter: C09_counterexample_group (classes whose "
               "__new__ needs arguments: BaseExceptionGroup, ExceptionGroup) — C09_partial covers all other classes. "
               "Oracle notes: compares data attributes only and demands that no method is shadowed by an instance attribute; "
               "a bare StopIteration is not required to carry a traceback.")

SENDS = [a + b for a in "TF" for b in "TF"]
RECVS = [a + b + c for a in "TF" for b in "TF" for c in "TF"]
ALL32 = [(s + "FF", r) for s in SENDS for r in RECVS]
E2E_SENDS = [s + p for s in SENDS for p in ("FF", "TT")]


# ---------------------------------------------------------------------------------------------- correspondence
def _sig_exc(mode, spec, s, r, seen):
    toks = seen.split(" ")
    oc = toks[0] + (":" + toks[1] if toks[0] in ("err", "raised") else "")
    return "%s|%s|%s|%s|%s|%d" % (mode, spec["cls"], s, r, oc, min(len(spec["args"].split()), 9))


def _sig_payload(mode, payload, r, out):
    toks = out.split(" ")
    t = type(payload).__name__
    shape = t
    if t == "tuple" and len(payload) == 4 and type(payload[0]) is tuple and len(payload[0]) == 2:
        shape = "rec:%s.%s" % (str(payload[0][0])[:16], str(payload[0][1])[:16])
    return "%s|P|%s|%s|%s" % (mode, shape, r, " ".join(toks[:2]))


def _compare(c, case, keys, obs, line_out, info, label):
    """diff one case; returns True when compared"""
    if line_out == "bad-op":
        c.disagreements.append(dict(case=case, impl="(op line)", model="bad-op"))
        return False
    mo = ve.canon_model_line(line_out)
    if mo.get("dump_failed") or obs.get("dump_failed"):
        # `vinegar.dump` itself raises (direct mode): only that fact and the error class are compared
        if mo.get("pay") != obs.get("pay") or not (mo.get("dump_failed") and obs.get("dump_failed")):
            c.disagreements.append(dict(case=case, differs=["pay"], impl=dict(pay=str(obs.get("pay"))[:300]),
                                        model=dict(pay=str(mo.get("pay"))[:300])))
        return True
    if mo.get("local"):
        mo = dict(seen="local", imp="( )", init=0, code=0, out="local", pay=obs.get("pay"))
    if "NOT-MODELLED" in mo.get("out", ""):
        c.count(label + ":not-modelled")
        return False
    diffs = [k for k in keys if mo.get(k) != obs.get(k)]
    exp_delta = [info["m"]] if (mo["imp"] != "( )" and info.get("importable")) else []
    if obs["delta"] != exp_delta:
        diffs.append("sys.modules-delta")
    if diffs:
        c.disagreements.append(dict(case=case, differs=diffs,
                                    impl=dict((k, str(obs.get(k))[:300]) for k in keys + ["delta"]),
                                    model=dict((k, str(mo.get(k))[:300]) for k in keys)))
    return True


def correspondence(ctx):
    warnings.simplefilter("ignore")
    c = Corr()
    c.rule = ("genuine: every built-in exception class of the interpreter (enumerated from `builtins`) x {NFIXED fixed argument "
              "tuples, class-aware constructor arguments, seeded tuples incl. non-serializable members, extra instance "
              "attributes} x ALL 32 settings of the five switches through the real dump -> brine -> load, plus an end-to-end "
              "sample over simnet connections (incl. SystemExit/KeyboardInterrupt with the two local-routing switches); custom "
              "classes (NCUSTOM variants) x 32 settings with import/constructor canaries; two-hop cases (the object one load returned is raised on and dumped again: every class, random switches at each "
              "hop, directly and as a callback's exception relayed through a server method over real threaded connections); "
              "crafted payloads (stop-marker look-alikes, "
              "wrong shapes, near-records over 22 module names x 36 class names x hostile args/attrs/version/traceback "
              "fields) direct and end-to-end. Compared: dump output, import attempts, sys.modules delta, constructor canary, "
              "load outcome (class identity via type(e).__mro__[1], args, instance attributes, _remote_tb, error class) and "
              "what the requester's except clause sees. distinct = distinct (mode, class or payload shape, switch "
              "setting, outcome class, argument count); a bare `ValueError()` under default switches is the trivial case.")
    c.rule = c.rule.replace("NFIXED", str(len(vc.FIXED_ARGS))).replace("NCUSTOM", str(len(vc.CUSTOM)))
    try:
        ve.setup_pool()
    except Exception as ex:  # noqa
        c.error = "cannot set up the custom-exception pool: %r" % (ex,)
        return c
    r = Rng(ctx.seed).fork("c09")
    specs, custom = vc.gen_specs(r, ctx.budget(3, 20))
    lines, metas = [], []          # metas: (case, keys, obs, info, label, sig)
    t0 = time.time()

    driver_s = [0.0]

    def flush():
        """pipe the pending op lines through the Lean driver and diff (in batches, to bound memory)"""
        if not lines or c.error:
            return
        td = time.time()
        try:
            outs = run_driver(lines, exe="drv_vinegar")
        except DriverError as ex:
            c.error = str(ex)
            return
        finally:
            driver_s[0] += time.time() - td
        for (case, keys, obs, info, label, sig), out in zip(metas, outs):
            if not _compare(c, case, keys, obs, out, info, label):
                continue
            c.evaluations += 1
            seen = obs["seen"].split(" ")
            c.count(label)
            c.count("seen:" + (" ".join(seen[:2]) if seen[0] == "err" else seen[0] + (":" + seen[1] if len(seen) > 1 else "")))
            if obs.get("imp", "( )") != "( )":
                c.count("import-attempted")
            if obs.get("delta"):
                c.count("module-imported")
            trivial = case["kind"] in ("exc", "exc2") and case["kind"] == "exc" and case["spec"]["cls"] == "builtins:ValueError" and case["spec"]["args"] == "( )" \
                and case["s"][:2] == "TT" and case["r"] == "FFF"
            if not trivial:
                c.signatures.add(sig)
            if len(c.samples) < 12 and c.evaluations % 4099 == 7:
                c.samples.append(dict(case=case, seen=obs["seen"][:300]))
        del lines[:]
        del metas[:]

    def add(case, keys, line, obs, info, label, sig):
        lines.append(line)
        obs = dict((k, v) for k, v in obs.items() if k not in ("obj", "exc_seen"))
        metas.append((case, keys, obs, dict(m=info.get("m"), importable=info.get("importable")), label, sig))
        if len(lines) >= 25000:
            flush()

    # 1. genuine exceptions, direct, full product
    for i, spec in enumerate(specs + custom):
        try:
            for s, rr, line, obs, info in vc.direct_product(spec, ALL32, with_tb=(i % 4 == 0)):
                add(dict(kind="exc", spec=spec, s=s, r=rr, mode="direct"), ["pay", "imp", "init", "code", "out", "seen"], line, obs, info,
                    "direct:" + ("custom" if not spec["cls"].startswith("builtins:") else "builtin"),
                    _sig_exc("d", spec, s, rr, obs["seen"]))
        except (vc.Skip, ve.Unrepresentable) as ex:
            c.count("skipped:" + str(ex)[:40])
    t1 = time.time()
    # 2. crafted payloads, direct
    for _ in range(ctx.budget(5000, 150000)):
        p, rr = vc.gen_payload(r), r.choice(RECVS)
        try:
            line, obs, info = vc.run_payload_direct(p, rr)
        except (vc.Skip, ve.Unrepresentable) as ex:
            c.count("skipped:" + str(ex)[:40])
            continue
        add(dict(kind="payload", payload=valtext.to_text(p), r=rr, mode="direct"), ["imp", "init", "code", "out", "seen"], line, obs, info,
            "direct:payload", _sig_payload("d", p, rr, obs["out"]))
    t2 = time.time()
    # 3. end to end over simnet
    pairs = {}

    def pair_for(s, rr):
        if (s, rr) not in pairs:
            pairs[(s, rr)] = vc.Pair(s, rr)
        return pairs[(s, rr)]

    try:
        per = ctx.budget(2, 12)
        for i, spec in enumerate(specs + custom):
            local_cls = spec["cls"] in ("builtins:SystemExit", "builtins:KeyboardInterrupt")
            cfgs = [(s, rr) for s in E2E_SENDS for rr in RECVS]
            picks = [r.choice(cfgs) for _ in range(8 if local_cls else per)]
            for s, rr in picks:
                try:
                    line, obs, info = vc.run_exc_e2e(pair_for(s, rr), spec, s, rr, sync=(i % 5 != 4))
                except (vc.Skip, ve.Unrepresentable) as ex:
                    c.count("skipped:" + str(ex)[:40])
                    continue
                add(dict(kind="exc", spec=spec, s=s, r=rr, mode="e2e"), ["imp", "init", "code", "seen"], line, obs, info,
                    "e2e:" + ("custom" if not spec["cls"].startswith("builtins:") else "builtin"),
                    _sig_exc("e", spec, s, rr, obs["seen"]))
        for k in range(ctx.budget(2500, 30000)):
            p, rr = vc.gen_payload(r), r.choice(RECVS)
            try:
                line, obs, info = vc.run_payload_e2e(pair_for("TTFF", rr), p, rr, sync=(k % 5 != 4))
            except (vc.Skip, ve.Unrepresentable) as ex:
                c.count("skipped:" + str(ex)[:40])
                continue
            add(dict(kind="payload", payload=valtext.to_text(p), r=rr, mode="e2e"), ["imp", "init", "code", "seen"], line, obs, info,
                "e2e:payload", _sig_payload("e", p, rr, obs["seen"]))
    finally:
        for pr in pairs.values():
            pr.close()
    t3 = time.time()
    # 4. two hops: an exception received from one peer and raised on to another (direct: dump(load(dump(exc))) with every
    #    switch at each hop; relay: a callback's exception passing through a server method, over real threaded connections)
    for i, spec in enumerate(specs + custom):
        s1, r1 = r.choice(SENDS) + "FF", r.choice(RECVS)
        cfg2 = ALL32 if (i % 40 == 7 and ctx.tier == "thorough") else [(r.choice(SENDS) + "FF", r.choice(RECVS))
                                                                     for _ in range(ctx.budget(2, 6))]
        foreign = (i % 9 == 4)      # the first sender runs another major version: the relay's version warning travels on
        try:
            for s2, r2, line, obs, info in vc.two_hop_product(spec, s1, r1, cfg2, foreign):
                add(dict(kind="exc2", spec=spec, s=s1, r=r1, s2=s2, r2=r2, mode="direct", foreign=foreign), ["pay", "imp", "init", "code", "out", "seen"],
                    line, obs, info, "two-hop:direct", _sig_exc("2d", spec, s1[:2] + s2[:2], r1 + r2, obs["seen"]))
        except (vc.Skip, ve.Unrepresentable) as ex:
            c.count("skipped:" + str(ex)[:40])
    relays = {}
    try:
        allspecs = specs + custom
        for k in range(ctx.budget(350, 6000)):
            key = (r.choice(SENDS) + "FF", r.choice(["FFF", "TTF", "FTF"]), r.choice(SENDS) + "FF", r.choice(["FFF", "TTT", "FTF"])) \
                if len(relays) < ctx.budget(10, 40) else r.choice(sorted(relays))
            if key not in relays:
                relays[key] = vc.RelayPair(*key)
            spec = r.choice(allspecs)
            try:
                line, obs, info = vc.run_relay_e2e(relays[key], spec, key[2], key[3])
            except (vc.Skip, ve.Unrepresentable) as ex:
                c.count("skipped:" + str(ex)[:40])
                continue
            add(dict(kind="exc2", spec=spec, s=key[0], r=key[1], s2=key[2], r2=key[3], mode="relay"), ["init", "seen"],
                line, obs, info, "two-hop:relay", _sig_exc("2r", spec, key[0][:2] + key[2][:2], key[1] + key[3], obs["seen"]))
    finally:
        for pr in relays.values():
            try:
                pr.close()
            except Exception:  # noqa
                pass
    t3b = time.time()
    flush()
    if c.error:
        return c
    c.extra["builtin_exception_classes"] = [k.__name__ for k in ve.builtin_exception_classes()]
    c.extra["switch_settings_per_exception"] = 32
    c.extra["phase_seconds"] = dict(genuine_direct=round(t1 - t0, 1), payload_direct=round(t2 - t1, 1),
                                    end_to_end=round(t3 - t2, 1), two_hops=round(t3b - t3, 1), lean_driver_within_those=round(driver_s[0], 1))
    c.exhaustive = False
    return c


# ---------------------------------------------------------------------------------------------- direct oracle (real code only)
def nearest_builtin(cls):
    for k in cls.__mro__:
        if getattr(builtins, k.__name__, None) is k:
            return k
    return None


def normal_args(args):
    return tuple(a if ve.is_val(a) else repr(a) for a in args)


def unserializable(exc):
    """do the exception's arguments / public attributes genuinely resist serialization: a repr() or getattr that raises, or a
    value brine cannot put on the wire (an int beyond the interpreter's digit limit)"""
    from rpyc.core import brine
    vals = list(exc.args)
    for n in dir(exc):
        if n.startswith("_") or n == "args":
            continue
        try:
            vals.append(getattr(exc, n))
        except AttributeError:
            continue
        except Exception:  # noqa
            return True
    for v in vals:
        if ve.is_val(v):
            try:
                brine.dump(v)
            except Exception:  # noqa
                return True
        else:
            try:
                repr(v)
            except Exception:  # noqa
                return True
    return False


def clean_name(s):
    return type(s) is str and "\x00" not in s and not any(0xD800 <= ord(ch) <= 0xDFFF for ch in s)


def _observe_exc(spec, s, r, mode):
    """run the real code once; returns dict(outcome=('raised', exc) | ('error', exc) | ('local',) , attempts, delta, init,
    exc (the original), tbtext, real_after)"""
    from rpyc.core import vinegar, brine
    sf, rf = vc.flags(s), vc.flags(r)
    exc = vc.build_exc(spec)
    t = type(exc)
    m, c = t.__module__, t.__name__
    res = dict(exc=exc, t=t)
    if mode == "direct":
        t, v, tb = vc.capture(exc)
        res["tbtext"], res["tb_error"] = ve.format_tb(t, v, tb)
        try:
            payload = brine.load(brine.dump(vinegar.dump(t, v, tb, sf[0], sf[1])))
        except Exception as ex:  # noqa
            res.update(outcome=("sender-failed", ex), attempts=[], delta=[], init=0, real_after=None)
            return res
        ve.reset_canaries()
        with ve.ImportWatch() as w:
            try:
                obj = vinegar.load(payload, rf[0], rf[1], rf[2])
                try:
                    raise obj
                except BaseException as ex:  # noqa
                    res["outcome"] = ("raised", ex) if (ex is obj or (isinstance(obj, type) and type(ex) is obj)) else ("error", ex)
            except Exception as ex:  # noqa
                res["outcome"] = ("error", ex)
        res.update(attempts=list(w.attempts), delta=list(w.delta), init=len(ve.canary().INIT))
        res["real_after"] = getattr(sys.modules.get(m), c, None) if type(c) is str else None
        w.cleanup()
        return res
    pair = vc.Pair(s, r)
    try:
        vc.STASH[0] = exc
        cap = {}

        def spy(t_, v_, tb_):
            cap["tbtext"], cap["tb_error"] = ve.format_tb(t_, v_, tb_)
            return pair.orig_box(t_, v_, tb_)
        after = {}

        def at_end():
            after["real"] = getattr(sys.modules.get(m), c, None) if type(c) is str else None
            return m, c, {}
        obs = (pair.call if t in (SystemExit, KeyboardInterrupt) else pair.call_sync)(spy, at_end)
        res["tbtext"], res["tb_error"] = cap.get("tbtext"), cap.get("tb_error")
        res["real_after"] = after.get("real")
        res.update(attempts=valtext.from_text(obs["imp"]), delta=obs["delta"], init=obs["init"])
        if obs["seen"] == "local":
            res["outcome"] = ("local",)
        elif "exc_seen" in obs and obs["seen"].startswith("raised"):
            res["outcome"] = ("raised", obs["exc_seen"])
        elif "exc_seen" in obs:
            res["outcome"] = ("error", obs["exc_seen"])
        else:
            res["outcome"] = ("none", obs["seen"])
        return res
    finally:
        pair.close()


def oracle_exc(spec, s, r, mode="direct", known=()):
    """the statement on one exception and one switch setting; None if it holds, else (message, signature)"""
    from rpyc.core import vinegar
    import rpyc.version
    sf, rf = vc.flags(s), vc.flags(r)
    try:
        o = _observe_exc(spec, s, r, mode)
    except (vc.Skip, ve.Unrepresentable):
        return None
    exc, t = o["exc"], o["t"]
    m, c = t.__module__, t.__name__
    is_builtin = getattr(builtins, c, None) is t
    if mode == "e2e" and ((t is SystemExit and sf[2]) or (t is KeyboardInterrupt and sf[3])):
        return None     # routed locally by configuration: outside the property
    # --- safety
    if o["init"]:
        return "a constructor (__init__) ran on the receiver", "C09:constructor-ran"
    if not rf[0] and (o["attempts"] or o["delta"]):
        return ("the receiver tried to import %r / sys.modules grew by %r although import_custom_exceptions is off"
                % (list(o["attempts"]), o["delta"])), "C09:import-without-permission"
    if rf[0] and any(a != m for a in o["attempts"]):
        return "the receiver imported something other than the exception's module: %r" % (list(o["attempts"]),), "C09:foreign-import"
    kind = o["outcome"][0]
    unser = unserializable(exc)
    if kind == "sender-failed":
        if unser:
            return None     # nothing can be sent of such an exception without a connection's fallback: outside
        sig = "C09:traceback-format-failure-loses-args" if o.get("tb_error") else "C09:dump-raises"
        if sig in known:
            return None
        return ("vinegar.dump / brine raised %s for %s.%s%s although its arguments can be serialized"
                % (type(o["outcome"][1]).__name__, m, c, valtext.to_text(normal_args(exc.args))[:80])), sig
    if kind in ("local", "none"):
        return "no exception surfaced at the requester (%s)" % (o["outcome"][1:],), "C09:nothing-surfaced"
    seen = o["outcome"][1]
    if kind == "error":
        # the known finding, exactly: the class the receiver is ALLOWED to instantiate (a built-in one, or a custom one under
        # instantiate_custom_exceptions that its module really holds) has a __new__ that needs arguments, and the error is
        # the TypeError of that very `cls.__new__(cls)` call; anything else (e.g. a gate bypass reaching NeedsNew) is not it
        target = t if is_builtin else (o["real_after"] if rf[1] else None)
        if is_new_needs_args_failure(target, seen):
            sig = KNOWN_SIG
        else:
            if not is_builtin and not (clean_name(m) and clean_name(c)):
                return None
            sig = "C09:load-raises-" + type(seen).__name__
        if sig in known:
            return None
        return ("%s.%s%s did not surface: the receiver's load/serve raised %s: %s"
                % (m, c, valtext.to_text(normal_args(exc.args))[:80], type(seen).__name__, str(seen)[:120])), sig
    # --- class
    if is_builtin:
        nb = nearest_builtin(type(seen))
        if not isinstance(seen, t) or nb is not t:
            return ("raised %s, surfaced as %s (nearest built-in class %s)"
                    % (c, type(seen).__name__, getattr(nb, "__name__", None))), "C09:builtin-class-differs"
    elif clean_name(m) and clean_name(c):
        real = o["real_after"]
        usable = isinstance(real, type) and issubclass(real, BaseException)
        if rf[1] and usable:
            if not isinstance(seen, real):
                return "custom class %s.%s is allowed and available but %s was raised" % (m, c, type(seen).__mro__[1]), \
                    "C09:custom-class-not-rebuilt"
        else:
            if not isinstance(seen, vinegar.GenericException):
                return ("custom class %s.%s must not be instantiated under r=%s but %r was raised"
                        % (m, c, r, type(seen).__mro__[1:2])), "C09:custom-class-instantiated"
            if type(seen).__name__ != "%s.%s" % (m, c):
                return "the generic stand-in is named %r, not %s.%s" % (type(seen).__name__, m, c), "C09:generic-name"
    # --- the received object is usable as an exception of its class: no instance attribute shadows a method
    C = type(seen).__mro__[1] if vinegar_made(seen) else type(seen)
    for k, v in (vars(seen).items() if hasattr(seen, "__dict__") else ()):
        if callable(getattr(C, k, None)) and not callable(v):
            return ("the received exception has an instance attribute %s = %r that shadows the method %s.%s"
                    % (k, str(v)[:60], C.__name__, k)), "C09:method-shadowed"
    # --- arguments and data attributes (an exception whose arguments cannot be serialized keeps its class only:
    # the documented fallback of Connection._send_exception)
    want = normal_args(exc.args) if not unser else ()
    dir_sane = list(dir(exc)).count("args") == 1      # a custom __dir__ that hides or repeats `args` is outside the statement
    if not unser and dir_sane and valtext.canon(tuple(seen.args)) != valtext.canon(want):
        sig = "C09:args-differ" + (":StopIteration" if t is StopIteration else "")
        if o.get("tb_error"):
            sig = "C09:traceback-format-failure-loses-args"
        if sig in known:
            return None
        return ("args %s surfaced as %s" % (valtext.to_text(want)[:120], valtext.canon(tuple(seen.args))[:120])), sig
    marker_path = t is StopIteration and not exc.args      # travels as a marker: class and (empty) args only, see ASSUMPTIONS
    for n in dir(exc) if not (unser or marker_path) else ():
        if n.startswith("_") or n == "args":
            continue
        try:
            v = getattr(exc, n)
        except Exception:  # noqa
            continue
        if callable(v) or not ve.is_val(v):
            continue
        try:
            back = getattr(seen, n)
        except Exception as ex:  # noqa
            return "data attribute %s=%s is unreadable at the requester (%s)" % (n, valtext.canon(v)[:60], type(ex).__name__), \
                "C09:attribute-lost"
        if valtext.canon(back) != valtext.canon(v):
            return "data attribute %s=%s surfaced as %s" % (n, valtext.canon(v)[:60], valtext.canon(back)[:60]), "C09:attribute-differs"
    # --- disclosure
    bare_stop = t is StopIteration and not exc.args and not hasattr(seen, "_remote_tb")
    if not bare_stop:
        rtb = getattr(seen, "_remote_tb", None)
        rver = getattr(seen, "_remote_version", None)
        tbtext = o["tbtext"]
        if sf[0] and tbtext is not None and not unser and not (type(rtb) is str and tbtext and tbtext in rtb):
            return "include_local_traceback is on but the remote traceback did not arrive", "C09:traceback-missing"
        if not sf[0] and type(rtb) is str and ((tbtext and tbtext in rtb) or "Traceback (most recent call last)" in rtb):
            return "include_local_traceback is off but the traceback text was disclosed", "C09:traceback-disclosed"
        if sf[1] and not unser and rver != rpyc.version.version_string:
            return "include_local_version is on but _remote_version is %r" % (rver,), "C09:version-missing"
        if not sf[1] and rpyc.version.version_string in str(rver):
            return "include_local_version is off but the version %r was disclosed" % (rver,), "C09:version-disclosed"
    return None


def oracle_exc2(spec, s1, r1, s2, r2, mode="direct", known=(), foreign=False):
    """two hops: the exception is received by one peer and raised on to another; the class surfacing at the final requester is
    the original's (same rule as one hop), with the same normalised arguments; nothing is imported or constructed unless allowed"""
    from rpyc.core import vinegar, brine
    try:
        exc = vc.build_exc(spec)
    except vc.Skip:
        return None
    t = type(exc)
    m, c = t.__module__, t.__name__
    is_builtin = getattr(builtins, c, None) is t
    if t in (SystemExit, KeyboardInterrupt, GeneratorExit) or unserializable(exc) or list(dir(exc)).count("args") != 1:
        return None
    if t is StopIteration and not exc.args:
        return None
    ve.reset_canaries()
    final = None
    with ve.ImportWatch() as w:
        try:
            if mode == "direct":
                obj = vc.first_hop(spec, s1, r1, foreign)
                if obj is None:
                    return None                   # the first hop alone already fails: a one-hop matter
                t2, v2, tb2 = vc.capture(obj)
                sf, rf = vc.flags(s2), vc.flags(r2)
                tbtext2 = ve.format_tb(t2, v2, tb2)[0]
                out = vinegar.load(brine.load(brine.dump(vinegar.dump(t2, v2, tb2, sf[0], sf[1]))), rf[0], rf[1], rf[2])
                try:
                    raise out
                except BaseException as ex:  # noqa
                    final = ex
            else:
                pair = vc.RelayPair(s1, r1, s2, r2)
                tbtext2 = None
                try:
                    def boom():
                        raise exc
                    try:
                        pair.relay(boom)
                    except BaseException as ex:  # noqa
                        final = ex
                finally:
                    pair.close()
        except Exception as ex:  # noqa
            final = ex
    init = len(ve.canary().INIT)
    attempts, delta = list(w.attempts), list(w.delta)
    w.cleanup()
    if init:
        return "a constructor (__init__) ran on a receiver", "C09:constructor-ran"
    if not (vc.flags(r1)[0] or vc.flags(r2)[0]) and (attempts or delta):
        return "a receiver tried to import %r although import_custom_exceptions is off" % (attempts,), "C09:import-without-permission"
    if final is None:
        return "no exception surfaced at the final requester", "C09:nothing-surfaced"
    if is_builtin:
        if not vinegar_made(final):
            sig = KNOWN_SIG if is_new_needs_args_failure(t, final) else "C09:two-hops-load-raises-" + type(final).__name__
            if sig in known:
                return None
            return "after two hops %s.%s did not surface: %s: %s" % (m, c, type(final).__name__, str(final)[:100]), sig
        nb = nearest_builtin(type(final))
        if not isinstance(final, t) or nb is not t:
            return ("raised %s; after two hops it surfaced as %s (bases %s): `except %s` misses it"
                    % (c, type(final).__name__, [k.__name__ for k in type(final).__mro__[1:3]], c)), "C09:two-hops-class-differs"
        want = normal_args(exc.args)
        if valtext.canon(tuple(final.args)) != valtext.canon(want):
            return "after two hops args %s surfaced as %s" % (valtext.to_text(want)[:100], valtext.canon(tuple(final.args))[:100]), \
                "C09:two-hops-args-differ"
    rtb = getattr(final, "_remote_tb", None)
    if not vc.flags(s2)[0] and type(rtb) is str and "Traceback (most recent call last)" in rtb:
        return "the second sender withholds tracebacks but one was disclosed", "C09:traceback-disclosed"
    import rpyc.version
    if not vc.flags(s2)[1] and isinstance(final, BaseException) and "C09:relay-discloses-version" not in known:
        texts = [repr(getattr(final, "args", ()))] + [repr(v) for v in (vars(final).values() if hasattr(final, "__dict__") else ())]
        if any(rpyc.version.version_string in t_ for t_ in texts):
            return ("the relaying peer withholds its version (include_local_version off) but %r reached the final requester "
                    "(inside the version warning it appended to the traceback text it passes on)"
                    % rpyc.version.version_string), "C09:relay-discloses-version"
    return None


def is_new_needs_args_failure(cls, err):
    """err is the TypeError `cls.__new__(cls)` raises because cls's __new__ needs arguments"""
    if not (isinstance(cls, type) and issubclass(cls, BaseException) and type(err) is TypeError):
        return False
    try:
        cls.__new__(cls)
    except TypeError as own:
        msg, want = str(err), str(own)
        return "__new__" in msg and (msg == want or msg.split("(")[0] == want.split("(")[0])
    except Exception:  # noqa
        return False
    return False


def vinegar_made(ex):
    from rpyc.core import vinegar
    return type(ex) in vinegar._exception_classes_cache.values()


def oracle_payload(payload, r, mode="direct", known=()):
    """no payload makes the receiver import (unless allowed) or construct; the outcome is an exception of an allowed class or an error"""
    from rpyc.core import vinegar
    rf = vc.flags(r)
    m, c, _pairs = ve.preparse(payload)
    try:
        if mode == "direct":
            obs = vc.observe_load(payload, rf, m, c, {})
            obj = obs.get("obj")
        else:
            pair = vc.Pair("TTFF", r)
            try:
                _line, obs, _info = vc.run_payload_e2e(pair, payload, r)
            finally:
                pair.close()
            obj = obs.get("exc_seen") if obs["seen"].startswith("raised") else None
    except (vc.Skip, ve.Unrepresentable):
        return None
    if obs["init"]:
        return "a constructor (__init__) ran on the receiver", "C09:constructor-ran"
    attempts = valtext.from_text(obs["imp"])
    if not rf[0] and (attempts or obs["delta"]):
        return ("the receiver tried to import %r / sys.modules grew by %r although import_custom_exceptions is off"
                % (list(attempts), obs["delta"])), "C09:import-without-permission"
    if obs.get("out", "").startswith("object "):
        return "load returned an object that is no exception: %s" % obs["out"], "C09:non-exception-built"
    if isinstance(obj, BaseException):
        T = type(obj)
        C = T.__mro__[1] if T in vinegar._exception_classes_cache.values() else T
        if not issubclass(C, BaseException):
            return "an instance of %r was built" % (C,), "C09:non-exception-built"
        if not issubclass(C, vinegar.GenericException) and not rf[1] and getattr(builtins, C.__name__, None) is not C:
            return "class %r was instantiated although instantiate_custom_exceptions is off" % (C,), "C09:custom-class-instantiated"
    return None


BOUNDARY_SPECS = [
    {"cls": "builtins:StopIteration", "args": "( I5 )", "kwargs": {}, "attrs": {}},
    {"cls": "builtins:StopIteration", "args": "( )", "kwargs": {}, "attrs": {}},
    {"cls": "builtins:ValueError", "args": "( I1 O0 )", "kwargs": {}, "attrs": {}},
    {"cls": "builtins:KeyError", "args": "( S107 )", "kwargs": {}, "attrs": {"detail": "I3"}},
    {"cls": "builtins:OSError", "args": "( I2 S109 S102 )", "kwargs": {}, "attrs": {}},
    {"cls": "builtins:SystemExit", "args": "( I3 )", "kwargs": {}, "attrs": {}},
    {"cls": "builtins:ExceptionGroup", "args": "( S109 O0 )", "kwargs": {"_group": "T"}, "attrs": {}},
    {"cls": "builtins:SyntaxError", "args": "( S109 ( S102 I1 I2 I5 ) )", "kwargs": {}, "attrs": {}},
    {"cls": "builtins:ValueError", "args": "( O98 )", "kwargs": {}, "attrs": {}},
    {"cls": "pool:c09pool_loaded:AppError", "args": "( I1 )", "kwargs": {}, "attrs": {}},
    {"cls": "pool:c09pool_fresh:AppError", "args": "( I1 )", "kwargs": {}, "attrs": {}},
    {"cls": "dyn:c09pool_unknown:AppError", "args": "( I1 )", "kwargs": {}, "attrs": {}},
    {"cls": "dyn:c09pool_loaded:NotExc", "args": "( I1 )", "kwargs": {}, "attrs": {}},
]
TWO_HOP_SPECS = [
    {"cls": "builtins:ZeroDivisionError", "args": "( S100 )", "kwargs": {}, "attrs": {}},
    {"cls": "builtins:KeyError", "args": "( S107 O0 )", "kwargs": {}, "attrs": {"detail": "I3"}},
    {"cls": "builtins:OSError", "args": "( I2 S109 S102 )", "kwargs": {}, "attrs": {}},
    {"cls": "builtins:StopIteration", "args": "( I5 )", "kwargs": {}, "attrs": {}},
]
BOUNDARY_PAYLOADS = [
    (("builtins", "int"), (), (), "tb"), (("builtins", "object"), (), (), "tb"), (("builtins", "print"), (), (), "tb"),
    (("concurrent.futures", "ProcessPoolExecutor"), (), (), "tb"), (("c09pool_lazy", "LazyErr"), (1,), (), "tb"),
    (("c09pool_lazy", "Missing"), (), (), "tb"),
    (("c09pool_loaded", "AppError"), (1,), (), "tb"), (("c09pool_fresh", "AppError"), (1,), (), "tb"),
    (("c09pool_loaded", "NotExc"), (1,), (), "tb"), (("c09pool_broken", "X"), (), (), "tb"), (("os", "error"), (), (), "tb"),
    (("builtins", "ValueError"), (), (("__class__", 5),), "tb"), 1, True, "x", (), None,
]


def _case_oracle(case, known):
    if case["kind"] == "exc2":
        return oracle_exc2(case["spec"], case["s"], case["r"], case["s2"], case["r2"], case.get("mode", "direct"), known,
                           case.get("foreign", False))
    if case["kind"] == "exc":
        return oracle_exc(case["spec"], case["s"], case["r"], case.get("mode", "direct"), known)
    return oracle_payload(vc.value_of(case["payload"]), case["r"], case.get("mode", "direct"), known)


def oracle_search(ctx, corr, broken):
    warnings.simplefilter("ignore")
    ve.setup_pool()
    known = getattr(ctx, "known_signatures", set())
    deadline = time.time() + ctx.budget(60, 600)
    r = Rng(ctx.seed).fork("c09-search")

    def candidates():
        for d in corr.disagreements[:300]:
            if isinstance(d.get("case"), dict):
                yield d["case"]
        for spec in BOUNDARY_SPECS:
            for s, rr in ALL32:
                yield dict(kind="exc", spec=spec, s=s, r=rr, mode="direct")
        for p in BOUNDARY_PAYLOADS:
            for rr in RECVS:
                yield dict(kind="payload", payload=valtext.to_text(p), r=rr, mode="direct")
        for spec in BOUNDARY_SPECS:
            for s, rr in [("TTFF", "FFF"), ("FFFF", "TTT"), ("FTFF", "FFF"), ("TFFF", "FTF")]:
                yield dict(kind="exc", spec=spec, s=s, r=rr, mode="e2e")
        for spec in TWO_HOP_SPECS:
            for mode in ("direct", "relay"):
                for s1, r1, s2, r2 in [("TTFF", "FFF", "TTFF", "FFF"), ("FFFF", "TTT", "FTFF", "FTF")]:
                    yield dict(kind="exc2", spec=spec, s=s1, r=r1, s2=s2, r2=r2, mode=mode)
        specs, custom = vc.gen_specs(r, 3)
        allspecs = specs + custom
        while time.time() < deadline:
            if r.chance(1, 6):
                yield dict(kind="exc2", spec=r.choice(allspecs), s=r.choice(SENDS) + "FF", r=r.choice(RECVS),
                           s2=r.choice(SENDS) + "FF", r2=r.choice(RECVS), mode="direct" if r.chance(4, 5) else "relay")
            elif r.chance(2, 3):
                yield dict(kind="exc", spec=r.choice(allspecs), s=r.choice(SENDS) + "FF", r=r.choice(RECVS),
                           mode="direct" if r.chance(4, 5) else "e2e")
            else:
                yield dict(kind="payload", payload=valtext.to_text(vc.gen_payload(r)), r=r.choice(RECVS),
                           mode="direct" if r.chance(4, 5) else "e2e")

    for case in candidates():
        if time.time() > deadline:
            break
        try:
            res = _case_oracle(case, known)
        except Exception:  # noqa
            continue
        if res:
            msg, sig = res
            small = shrink(case, sig, known)
            if small is not case:
                try:
                    again = _case_oracle(small, known)
                    if again and again[1] == sig:
                        case, msg = small, again[0]
                except Exception:  # noqa
                    pass
            return case, msg, sig
    return None


def shrink(case, sig, known):
    """drop extra attributes / kwargs and shorten the argument tuple while the same failure remains"""
    if case["kind"] not in ("exc", "exc2"):
        return case
    best = case
    spec = dict(case["spec"])
    trials = []
    if spec.get("attrs"):
        trials.append(dict(spec, attrs={}))
    args = valtext.from_text(spec["args"])
    for k in range(len(args)):
        trials.append(dict(spec, args=valtext.to_text(args[:k] + args[k + 1:]), attrs={}))
    for sp in trials:
        cand = dict(case, spec=sp)
        try:
            res = _case_oracle(cand, known)
        except Exception:  # noqa
            continue
        if res and res[1] == sig:
            best = cand
            break
    return best


def replay(case):
    warnings.simplefilter("ignore")
    ve.setup_pool()
    out = dict(case=case)
    mode = case.get("mode", "direct")
    try:
        if case["kind"] == "exc2":
            if mode == "direct":
                for _s2, _r2, line, obs, _info in vc.two_hop_product(case["spec"], case["s"], case["r"], [(case["s2"], case["r2"])],
                                                                     case.get("foreign", False)):
                    break
            else:
                pair = vc.RelayPair(case["s"], case["r"], case["s2"], case["r2"])
                try:
                    line, obs, _info = vc.run_relay_e2e(pair, case["spec"], case["s2"], case["r2"])
                finally:
                    pair.close()
        elif case["kind"] == "exc":
            if mode == "direct":
                line, obs, _info = vc.run_exc_direct(case["spec"], case["s"], case["r"])
            else:
                pair = vc.Pair(case["s"], case["r"])
                try:
                    line, obs, _info = vc.run_exc_e2e(pair, case["spec"], case["s"], case["r"])
                finally:
                    pair.close()
        else:
            p = vc.value_of(case["payload"])
            if mode == "direct":
                line, obs, _info = vc.run_payload_direct(p, case["r"])
            else:
                pair = vc.Pair("TTFF", case["r"])
                try:
                    line, obs, _info = vc.run_payload_e2e(pair, p, case["r"])
                finally:
                    pair.close()
        out["implementation"] = dict((k, str(v)[:600]) for k, v in obs.items() if k not in ("obj", "exc_seen"))
        m = run_driver([line], exe="drv_vinegar")[0]
        out["model"] = ve.canon_model_line(m) if m != "bad-op" else m
    except (vc.Skip, ve.Unrepresentable) as ex:
        out["implementation"] = "not representable: %s" % ex
    res = _case_oracle(case, ())
    out["oracle"] = "holds" if res is None else dict(failure=res[0], signature=res[1])
    return out


def known_probes(ctx):
    """the defect the model carries (C09_counterexample_group): a class whose __new__ needs arguments"""
    warnings.simplefilter("ignore")
    ve.setup_pool()
    needing = [k.__name__ for k in ve.builtin_exception_classes() if ve.kind_of(k) == "a"]
    if not needing:
        return [(KNOWN_SIG, False, "no built-in exception class of this interpreter needs arguments in __new__")]
    hits = []
    for name in needing:
        spec = {"cls": "builtins:" + name, "args": "( S109 O0 )", "kwargs": {"_group": "T"}, "attrs": {}}
        for mode in ("direct", "e2e"):
            try:
                res = oracle_exc(spec, "TTFF", "FFF", mode, ())
            except Exception as ex:  # noqa
                res = ("probe crashed: %r" % (ex,), "?")
            if res and res[1] == KNOWN_SIG:
                hits.append("%s/%s" % (name, mode))
    text = ("signature=%s a remote exception whose class needs arguments in __new__ (%s on this interpreter) does not "
            "surface as that class: the requester receives TypeError instead (cls.__new__(cls) fails in vinegar.load; "
            "_dispatch delivers that failure to the request) [reproduced: %s]"
            % (KNOWN_SIG, ", ".join(needing), ", ".join(hits) or "none"))
    out = [(KNOWN_SIG, bool(hits), text)]
    # the second carried deviation: a relay that received from another major version passes its own version on
    spec = {"cls": "builtins:ValueError", "args": "( S120 )", "kwargs": {}, "attrs": {}}
    try:
        res = oracle_exc2(spec, "TTFF", "FFF", "TFFF", "FFF", "direct", (), True)
    except Exception as ex:  # noqa
        res = ("probe crashed: %r" % (ex,), "?")
    import rpyc.version
    out.append((RELAY_SIG, bool(res and res[1] == RELAY_SIG),
                "signature=%s a relaying peer with include_local_version off that received the exception from a peer on another "
                "major version (%s) and raises it on with include_local_traceback on discloses its own version %s: the warning "
                "vinegar.load appended to the traceback text travels on inside it [reproduced: %s]"
                % (RELAY_SIG, vc.FOREIGN_VERSION, rpyc.version.version_string, "direct two-hop" if res and res[1] == RELAY_SIG else "no")))
    return out
