"""C03 — immutable plain values travel by copy with their exact type, everything else by reference; identity survives.

Correspondence: two real `Connection`s (classic services, side B served by its own baton-scheduled thread on the
deterministic network) against Part 2 of lean/RpycModel/Box/Model.lean through `drv_box`.  A case is a
conversation: B hands out some of its objects, A sends argument tuples (B keeps them or not), A has values echoed,
B forgets what it kept, values are sent again while their proxies live and after they died.  Compared for every
step: the label tree actually sent (decoded from the recorded frames with rpyc.core.brine) with the model's `box`,
and what arrived (type-exact values, which key each proxy stands for, WHICH proxy object it is — serial numbers —
and its count, originals coming back as themselves) with the model's `unbox`; at the end the two ends' tables.

Direct oracle (real code only, from the statement): plain values arrive type-exact equal, everything else as a
proxy of that very object, echoed references are the originals (`is`), a reference received again while its proxy
lives is the same proxy (`is`), a change made through a proxy is a change of the owner's object, obtain/deliver
give equal but independent copies.
"""
import collections
import enum
import hashlib
import sys
import time
import types
import weakref

import c10
import valtext
from lineproto import run_driver, DriverError
from pipeline import Corr
from prng import Rng

ID = "C03"
LEAN_MODULE = "RpycModel.Props.C03"
NAMESPACE = "Rpyc.Props.C03"
GEN = ["Box.lean", "Brine.lean"]
DRIVERS = ["drv_box"]
TRUSTED = [
    "modelled, not verified: `get_id_pack` is ASSUMED to be a stable injective key of a live object.  For ordinary objects "
    "it is built from id(); for an object that carries an `____id_pack__` attribute (a proxy of another connection, or any "
    "object that defines one) it is that attribute, i.e. ids of a FOREIGN process: two foreign connections, forked servers "
    "or a forged attribute can collide, and `RefCountingColl.add` then keeps the first object under the key.  The only "
    "chained scenario checked here is in-process, where ids cannot collide; colliding keys are outside the claim",
    "modelled, not verified: CPython's exact `type()` identity and prompt finalisation of unreferenced proxies (cyclic-GC "
    "finalisation of proxies is not generated); the checks run under CPython 3.12, where slices are hashable (a frozenset "
    "may hold one); pickle (obtain / deliver) is exercised on the real code only, nine fixed cases",
    "harness: the classification of a Python value into plain / exact tuple / other object written from the property "
    "statement (exact types), the peer application harness/box_peer.py, serial numbers for 'which proxy object'",
]
ASSUMPTIONS = [
    "values whose serialisation C04 excludes (an int beyond the interpreter's str() digit limit, lengths >= 2**32, nesting "
    "beyond the recursion limit) are not generated as values that travel; lone surrogates are left to C04",
    "'a change made through the reference is a change to the owner's object' and 'obtain / deliver give an equal but "
    "independent object' have NO theorem (the handler layer and pickle are not modelled here): they are checked on the real "
    "code only — list/dict/set/bytearray/instance mutated through the proxy and observed at the owner; nine obtain/deliver cases",
    "single dispatcher per end: a second thread of the same end racing `_unbox`'s two cache lookups is outside (C12/C13); the "
    "window that needs no thread — a message carrying the same object dispatched by the nested serve() of `_unbox`'s own "
    "HANDLE_INSPECT round trip — IS covered (generated constant oneProxyAcrossInspect, theorem one_proxy_across_inspect, "
    "scenario same-object-during-inspect)",
    "chained connections (a proxy forwarded over a second connection) are covered by the model's rule 'a proxy of another "
    "connection is an ordinary object' and one real in-process three-party scenario per run, not by generated conversations; "
    "`_box` refusing to lend on a closed channel (EOFError) is C11's; B's own objects handed back are list, empty dict, function",
]
EXPLANATION = ("Theorems: unbox_box (what `_box` produces, the peer's `_unbox` accepts and yields an equal plain value of the "
               "same type tree / a proxy of the same key / the original for a handed-back proxy, through tuples of any shape), "
               "value_transfer (the same through brine, by C04.load_dump, and label-tree parsing), by_value_iff_plain, "
               "subclass_by_ref, tuple_with_reference_not_value, echo_identity (+ reachable: with C10.alive_while_held), "
               "unbox_two_pass_agrees, missing_local_ref_refused_first, proxy_unique, same_proxy_twice, "
               "proxy_survives_traffic, fresh_proxy_is_new, box_unbox_counts (bridge to the C10 machine), labels_distinct "
               "(generated constants); over all finite sequences of the conversation alphabet — A sends an argument tuple that B keeps "
               "or not, A has a value echoed, B hands out one of its objects, B forgets what it kept; any values; releases are "
               "processed synchronously and in order, B never initiates a send, A never forgets — : "
               "conv_invariant (both directions balanced, proxies identified), conv_proxies_identified, conv_echo_identity, "
               "conv_no_leak; one_proxy_across_inspect (generated constant) with stale_miss_makes_two_proxies as the "
               "counterexample for the check-then-insert order. NOT proved (real code only): by-reference mutation, obtain/deliver.")


# ---------------------------------------------------------------------------------------------- classification
SIMPLE = (type(None), type(NotImplemented), type(Ellipsis), bool, int, float, complex, bytes, str)


def plain(v):
    """the statement's 'immutable plain value': exact types only, containers built only from such"""
    t = type(v)
    if t in SIMPLE:
        return True
    if t is tuple or t is frozenset:
        return all(plain(x) for x in v)
    if t is slice:
        return plain(v.start) and plain(v.stop) and plain(v.step)
    return False


NOTSUB = object()


def sub_base(v):
    """for an instance of a subclass of a plain type: the plain value it wraps (else NOTSUB)"""
    for t in (int, float, complex, str, bytes, tuple, frozenset):
        if isinstance(v, t) and type(v) is not t:
            try:
                base = t(v) if t is not tuple else tuple(v)
            except Exception:  # noqa
                return NOTSUB
            if plain(base) and not overlimit(base):
                return base
            return NOTSUB
    return NOTSUB


LIMIT = sys.get_int_max_str_digits()


def overlimit(v):
    t = type(v)
    if t is int:
        return bool(LIMIT) and abs(v) >= 10 ** (LIMIT - 1)
    if t in (tuple, frozenset):
        return any(overlimit(x) for x in v)
    if t is slice:
        return overlimit(v.start) or overlimit(v.stop) or overlimit(v.step)
    return False


def has_surrogate(v):
    t = type(v)
    if t is str:
        return any(0xD800 <= ord(c) <= 0xDFFF for c in v)
    if t in (tuple, frozenset):
        return any(has_surrogate(x) for x in v)
    if t is slice:
        return has_surrogate(v.start) or has_surrogate(v.stop) or has_surrogate(v.step)
    return False


# ---------------------------------------------------------------------------------------------- object kinds
class MyInt(int):
    pass


class MyStr(str):
    pass


class MyBytes(bytes):
    pass


class MyTuple(tuple):
    pass


class MyFloat(float):
    pass


class MyComplex(complex):
    pass


class MyFrozenset(frozenset):
    pass


class Color(enum.IntEnum):
    RED = 1
    BLUE = 2


class Shade(enum.Enum):
    DARK = "d"


Point = collections.namedtuple("Point", "x y")


class Quiet(object):
    def __bool__(self):
        return False


class Hollow(object):
    def __len__(self):
        return 0


class Flag(enum.IntEnum):
    OFF = 0
    ON = 1


class Forged(object):
    """answers `____id_pack__` (and nothing else unusual) through its own __getattr__: an ordinary object all the same"""
    def __getattr__(self, name):
        if name == "____id_pack__":
            return ("m.Forged", 1, 2)
        raise AttributeError(name)


class Thing(object):
    def __init__(self):
        self.attr = 1

    def method(self):
        return self.attr


class Slotted(object):
    __slots__ = ("a",)


def _gen():
    yield 1


KINDS = {
    "list": lambda: [1, 2], "dict": lambda: {"a": 1}, "set": lambda: {1, 2}, "bytearray": lambda: bytearray(b"ab"),
    "func": lambda: (lambda x: x), "class": lambda: type("Dyn", (object,), {}), "userclass": lambda: Thing,
    "builtin_class": lambda: int, "type_none": lambda: type(None), "module": lambda: collections,
    "builtin_fn": lambda: len, "bound_builtin": lambda: [].append, "bound_method": lambda: Thing().method,
    "instance": lambda: Thing(), "slotted": lambda: Slotted(), "object": lambda: object(),
    "myint": lambda: MyInt(5), "mystr": lambda: MyStr("xy"), "mybytes": lambda: MyBytes(b"z"), "mytuple": lambda: MyTuple((1, 2)),
    "myfloat": lambda: MyFloat(1.5), "mycomplex": lambda: MyComplex(1, 2), "myfrozenset": lambda: MyFrozenset([1]),
    "intenum": lambda: Color.RED, "enum": lambda: Shade.DARK, "namedtuple": lambda: Point(1, 2),
    "namedtuple_ref": lambda: Point([1], 2), "mytuple_ref": lambda: MyTuple(([1],)),
    "fset_of_ref": lambda: frozenset([len, 1]), "slice_of_ref": lambda: slice([1], 2, None), "range": lambda: range(3),
    "exception": lambda: ValueError("x"), "iterator": lambda: iter([1, 2]), "generator": lambda: _gen(),
    "memoryview": lambda: memoryview(b"ab"), "dict_keys": lambda: {"a": 1}.keys(), "bigint_sub": lambda: MyInt(10 ** 30),
    "bool_like": lambda: MyInt(1),
    # objects that answer every attribute name: they are not proxies and keep their own identity
    "forged_id_pack": lambda: Forged(), "mock_call": lambda: __import__("unittest.mock").mock.call,
    "server_proxy": lambda: __import__("xmlrpc.client").client.ServerProxy("http://localhost:1"),
    "module_named_module": lambda: types.ModuleType("module"), "module_unregistered": lambda: types.ModuleType("not_in_sys_modules"),
    # falsy at their owner: nothing about finding or counting a proxy may depend on the remote object's truth value
    "empty_list": lambda: [], "empty_dict": lambda: {}, "empty_set": lambda: set(), "empty_bytearray": lambda: bytearray(),
    "zero_sub": lambda: MyInt(0), "zero_enum": lambda: Flag.OFF, "quiet": lambda: Quiet(), "hollow": lambda: Hollow(),
    "empty_mystr": lambda: MyStr(""), "zero_float_sub": lambda: MyFloat(0.0), "empty_mytuple": lambda: MyTuple(()), "code": lambda: (lambda: 0).__code__,
}
MUTABLE = {"list": "append", "dict": "setitem", "set": "add", "bytearray": "append", "instance": "setattr"}
PICKLABLE = ["list", "dict", "set", "bytearray", "mytuple", "myint", "namedtuple", "intenum", "instance"]
B_KINDS = ["list", "empty_dict", "func"]


# ---------------------------------------------------------------------------------------------- one real conversation
class InvalidCase(Exception):
    """the conversation itself is ill-formed (e.g. it uses a proxy that was never handed out): not a finding"""


class Session:
    """A <-> B over the deterministic network, B served by its own thread; both run classic (slave) services"""

    def __init__(self):
        import box_peer
        import simnet
        from rpyc.core import brine, consts, netref
        from rpyc.core.service import SlaveService, MasterService
        from rpyc.lib import get_id_pack
        self.brine, self.consts, self.BaseNetref, self.get_id_pack = brine, consts, netref.BaseNetref, get_id_pack
        self.net = simnet.Net()
        self._cm = self.net.installed()
        self._cm.__enter__()
        self.objs = {"a": [], "b": []}
        self.key_of_obj = {"a": {}, "b": {}}
        self.key_of_pack = {"a": {}, "b": {}}
        self.pack_of = {"a": [], "b": []}
        self.named = {}
        self.serials = {"a": {}, "b": {}}
        self.next_serial = {"a": 0, "b": 0}
        self.kept = []
        self.held_a = {}
        self.last_seen = None
        self.err = []
        box_peer.SESSION = self
        self.ca = self.cb = None
        try:
            self.ca, self.cb = self.net.connect_pair(SlaveService(), SlaveService(), compress=False)
            self.conn = {"a": self.ca, "b": self.cb}
            MasterService._install(self.ca, self.ca.root)
            peer = self.ca.modules.box_peer
            self.fn = dict((n, getattr(peer, n)) for n in ("take", "take_keep", "echo", "make", "forget", "same_as_kept",
                                                            "mutate", "ping", "unbox_raw"))
            for kind in B_KINDS:
                self.register("b", KINDS[kind]())
            self.register("b", [0])          # B's object number len(B_KINDS): never lent, so a LOCAL_REF to it is stale
        except BaseException:
            self.close()
            raise

    def close(self):
        import box_peer
        try:
            self.fn = None
            self.held_a.clear()
            del self.kept[:]
            self.net.shutdown([self.ca] if self.ca is not None else [])
        finally:
            box_peer.SESSION = None
            self._cm.__exit__(None, None, None)

    # -- registry
    def register(self, side, o):
        k = self.key_of_obj[side].get(id(o))
        if k is not None and self.objs[side][k] is o:
            return k
        k = len(self.objs[side])
        self.objs[side].append(o)
        self.key_of_obj[side][id(o)] = k
        try:
            p = self.get_id_pack(o)
            p = (str(p[0]), p[1], p[2])
            hash(p)
        except Exception:  # noqa  (the code under test cannot key this object: that shows when it is sent, not here)
            p = ("?no-key", id(type(o)), id(o))
        self.pack_of[side].append(p)
        self.key_of_pack[side][p] = k
        return k

    def serial(self, side, proxy):
        i = id(proxy)
        ent = self.serials[side].get(i)
        if ent is None:
            n = self.next_serial[side]
            self.next_serial[side] = n + 1
            table = self.serials[side]
            ent = (n, weakref.ref(proxy, lambda _w, i=i, table=table: table.pop(i, None)))
            table[i] = ent
        return ent[0]

    # -- values
    def build(self, spec):
        tag = spec[0]
        if tag == "v":
            return valtext.from_text(spec[1])
        if tag == "o":
            name = spec[2]
            if name not in self.named:
                self.named[name] = KINDS[spec[1]]()
                self.register("a", self.named[name])
            return self.named[name]
        if tag == "t":
            return tuple(self.build(s) for s in spec[1])
        if tag == "p":
            if spec[1] not in self.held_a:
                raise InvalidCase("proxy of B's object %r was never handed out" % (spec[1],))
            return self.held_a[spec[1]]
        raise ValueError(spec)

    def ptext(self, v):
        """the model's text of a value A is about to send"""
        if plain(v):
            return valtext.canon(v)
        if type(v) is tuple:
            return "( " + "".join(self.ptext(x) + " " for x in v) + ")"
        if isinstance(v, self.BaseNetref) and object.__getattribute__(v, "____conn__") is self.ca:
            return "P%s" % self.key_of_pack["b"].get(tuple(object.__getattribute__(v, "____id_pack__")), "?")
        k = self.register("a", v)
        base = sub_base(v)
        return "R%d" % k if base is NOTSUB else "Z%d %s" % (k, valtext.canon(base))

    def describe(self, v, side):
        """what arrived at `side`, using local operations only"""
        other = "a" if side == "b" else "b"
        if isinstance(v, self.BaseNetref):
            if object.__getattribute__(v, "____conn__") is self.conn[side]:
                pack = tuple(object.__getattribute__(v, "____id_pack__"))
                return "P%s#%d*%d" % (self.key_of_pack[other].get(pack, "?"), self.serial(side, v),
                                      c10.refcount_of(v))
            return "?:foreign-proxy"
        if plain(v):
            return valtext.canon(v)
        if type(v) is tuple:
            return "( " + "".join(self.describe(x, side) + " " for x in v) + ")"
        k = self.key_of_obj[side].get(id(v))
        if k is not None and self.objs[side][k] is v:
            return "R%d" % k
        return "?:" + type(v).__name__

    def same(self, a, b):
        if type(a) is tuple and type(b) is tuple and not (plain(a) and plain(b)):
            return len(a) == len(b) and all(self.same(x, y) for x, y in zip(a, b))
        if plain(a) and plain(b):
            return valtext.canon(a) == valtext.canon(b)
        return a is b

    def mutate(self, x, what):
        if what == "append":
            x.append(7)
        elif what == "setitem":
            x["k"] = 7
        elif what == "add":
            x.add(7)
        elif what == "setattr":
            x.attr = 7
        return None

    # -- labels
    def ltext(self, lab, sender):
        c = self.consts
        receiver = "a" if sender == "b" else "b"
        tag, val = lab
        if tag == c.LABEL_VALUE:
            return "V " + valtext.canon(val)
        if tag == c.LABEL_TUPLE:
            return "T( " + "".join(self.ltext(x, sender) + " " for x in val) + ")"
        if tag == c.LABEL_LOCAL_REF:
            return "L%s" % self.key_of_pack[receiver].get((str(val[0]), val[1], val[2]), "?")
        if tag == c.LABEL_REMOTE_REF:
            return "M%s" % self.key_of_pack[sender].get((str(val[0]), val[1], val[2]), "?")
        return "?%s" % (tag,)

    # -- hand-made packages (label trees that did not come out of `_box`)
    def raw_text(self, spec):
        tag = spec[0]
        if tag == "V":
            return "V " + spec[1]
        if tag == "T":
            return "T( " + "".join(self.raw_text(x) + " " for x in spec[1]) + ")"
        if tag == "L":
            return "L%d" % spec[1]
        if tag == "M":
            return "M%d" % self.register("a", self.build(["o", "list", spec[1]]))
        if tag == "?":
            return "?%d" % spec[1]
        raise ValueError(spec)

    def raw_package(self, spec):
        c = self.consts
        tag = spec[0]
        if tag == "V":
            return (c.LABEL_VALUE, valtext.from_text(spec[1]))
        if tag == "T":
            return (c.LABEL_TUPLE, tuple(self.raw_package(x) for x in spec[1]))
        if tag == "L":
            return (c.LABEL_LOCAL_REF, self.pack_of["b"][spec[1]])
        if tag == "M":
            return (c.LABEL_REMOTE_REF, self.pack_of["a"][self.register("a", self.build(["o", "list", spec[1]]))])
        if tag == "?":
            return (spec[1], None)
        raise ValueError(spec)

    def call(self, name, *args):
        """call B's function through its proxy; returns (result, label tree of the arguments, label tree of the reply)"""
        c = self.consts
        mark = len(self.net.frames)
        res = self.fn[name](*args)
        req = rep = None
        seq = None
        for who, data in self.net.frames[mark:]:
            msg = self.brine.load(data[5:-1])
            if req is None and who == "A" and msg[0] == c.MSG_REQUEST and msg[2][0] == c.HANDLE_CALL:
                seq = msg[1]
                req = msg[2][1][1][1]
            elif req is not None and rep is None and who == "B" and msg[0] == c.MSG_REPLY and msg[1] == seq:
                rep = msg[2]
        return res, req, rep

    def step(self, op):
        kind = op[0]
        try:
            if kind == "make":
                p, _req, rep = self.call("make", op[1])
                self.held_a[op[1]] = p
                return "%s => %s" % (self.ltext(rep, "b"), self.describe(p, "a"))
            if kind == "send":
                args = tuple(self.build(s) for s in op[2])
                text, req, _rep = self.call("take_keep" if op[1] else "take", *args)
                del args
                return "%s => %s" % (self.ltext(req, "a"), text)
            if kind == "echo":
                args = tuple(self.build(s) for s in op[1])
                z, req, rep = self.call("echo", *args)
                out = "%s => %s => %s => %s" % (self.ltext(req, "a"), self.last_seen, self.ltext(rep, "b"), self.describe(z, "a"))
                del z, args
                return out
            if kind == "raw":
                text = self.raw_text(op[1])
                try:
                    # unboxed on B's own thread (box_peer.unbox_raw): the package travels there as a plain value
                    out = "%s => %s" % (text, self.fn["unbox_raw"](self.raw_package(op[1])))
                finally:
                    # forged references have no box behind them: let their release notices be processed now, as the
                    # model does, not whenever A happens to serve next
                    self.call("ping")
                return out
            if kind == "forget":
                self.call("forget")
                return "ok"
            if kind == "tables":
                self.call("ping")
                return self.tables()
        except Exception as ex:  # noqa
            return "err " + type(ex).__name__.split(".")[-1]
        raise ValueError(op)

    def tables(self):
        out = []
        for side in ("a", "b"):
            d = c10.lent_table(self.conn[side])
            out.append("%s=%s" % (side, ",".join("-" if p not in d else str(d[p][1]) for p in self.pack_of[side])))
        return " ".join(out)

    def model_op(self, op):
        kind = op[0]
        if kind == "make":
            return "make %d" % op[1]
        if kind == "send":
            args = tuple(self.build(s) for s in op[2])
            return "send %s %s" % ("K" if op[1] else "D", self.ptext(args))
        if kind == "echo":
            args = tuple(self.build(s) for s in op[1])
            return "echo %s" % self.ptext(args)
        if kind == "raw":
            return "raw " + self.raw_text(op[1])
        if kind == "forget":
            return "forget"
        if kind == "tables":
            return "tables %d %d" % (len(self.objs["a"]), len(self.objs["b"]))
        raise ValueError(op)


def run_conversation(ops):
    """returns (model op texts, real outputs, real-only findings); a conversation that does not come to an end within
    a generous wall-clock bound is reported as blocked (a request nobody answers), never waited for"""
    import c10
    status, res = c10.bounded(lambda: _run_conversation(ops), 30.0)
    if status == "blocked":
        raise c10.Blocked("the conversation did not come to an end: a request issued while a message was being "
                          "unboxed was never answered")
    if status == "raised":
        raise res
    return res


def _run_conversation(ops):
    s = Session()
    try:
        texts, outs = [], []
        for op in ops:
            out = s.step(op)
            # the model text is computed after the step so that objects created by `build` are registered either way
            texts.append(s.model_op(op))
            outs.append(out)
        return texts, outs, list(s.err)
    finally:
        s.close()


# ---------------------------------------------------------------------------------------------- generators
def gen_plain(r):
    import c04
    for _ in range(50):
        v = c04.gen_value(r, r.below(3))
        if overlimit(v) or has_surrogate(v) or c04.depth_of(v) > 6:
            continue
        t = valtext.canon(v)
        if len(t) > 1500:
            continue
        return ["v", t]
    return ["v", "N"]


def gen_spec(r, depth, names, made):
    x = r.below(100)
    if x < 30:
        return gen_plain(r)
    if x < 62 or depth == 0:
        if names and r.chance(1, 2):
            return r.choice(names)
        kind = r.choice(sorted(KINDS))
        spec = ["o", kind, "%s%d" % (kind, len(names))]
        names.append(spec)
        return spec
    if x < 70 and made:
        return ["p", r.choice(sorted(made))]
    n = r.choice([0, 1, 2, 2, 3, 4])
    return ["t", [gen_spec(r, depth - 1, names, made) for _ in range(n)]]


STALE = len(B_KINDS)          # B's object that is never lent


def raw_shapes(made):
    """packages `_box` never produces: which error wins, and that nothing is created before a KeyError"""
    out = [["T", [["?", 9], ["L", STALE]]],                       # unknown label in front of a stale reference: KeyError
           ["T", [["L", STALE], ["?", 9]]],
           ["T", [["?", 9], ["V", "I1"]]],                        # ValueError
           ["T", [["M", "rawA"], ["T", [["L", STALE]]]]],        # fresh reference in front: KeyError, no proxy
           ["T", [["T", [["V", "( I1 )"], ["T", [["L", STALE]]]]], ["M", "rawA"]]],
           ["L", STALE], ["?", 77], ["?", 0],
           ["T", [["M", "rawB"], ["M", "rawB"], ["V", "N"]]]]
    for k in sorted(made):
        out.append(["T", [["L", k], ["V", "( I1 )"], ["M", "rawA"], ["M", "rawA"]]])
        out.append(["T", [["T", [["V", "I1"], ["L", k]]], ["?", 44]]])
        out.append(["T", [["L", k], ["L", STALE], ["L", k]]])
    return out


def gen_conversation(r):
    ops, names, made, sent = [], [], set(), []
    for k in range(len(B_KINDS)):
        if r.chance(1, 2):
            ops.append(["make", k])
            made.add(k)
    for _ in range(r.range(4, 10)):
        x = r.below(100)
        if x < 8:
            ops.append(["forget"])
            continue
        if x >= 94:
            ops.append(["raw", r.choice(raw_shapes(made))])
            continue
        if x < 14 and len(made) < len(B_KINDS) + 1:
            k = r.below(len(B_KINDS))
            ops.append(["make", k])
            made.add(k)
            continue
        if sent and x < 40:
            args = r.choice(sent)          # again: while its proxies live, or after they died
        else:
            args = [gen_spec(r, 3, names, made) for _ in range(r.choice([1, 1, 1, 2, 3]))]
            sent.append(args)
        y = r.below(10)
        if y < 4:
            ops.append(["send", True, args])
        elif y < 7:
            ops.append(["send", False, args])
        else:
            ops.append(["echo", args])
    ops.append(["tables"])
    return ops


def corpus():
    out = []
    for kind in sorted(KINDS):
        o = ["o", kind, kind + "0"]
        out.append([["send", True, [o]], ["send", True, [o]], ["echo", [o]], ["send", False, [["t", [o, ["v", "I1"], ["t", [o]]]]]],
                    ["forget"], ["send", False, [o]], ["echo", [["t", [o, o]]]], ["tables"]])
    pl = [["v", t] for t in ("N", "T", "F", "X", "E", "I0", "I-49", "I160", "I1000000000000000000000000000000", "D8000000000000000",
                             "D7ff8000000000001", "C3ff0000000000000:8000000000000000", "B", "B00ff", "S", "S97,8364,128512",
                             "( )", "( I1 ( I2 ( I3 ) ) )", "{ }", "{ I1 S97 }", "[ N N N ]", "[ I1 ( I2 ) { I3 } ]",
                             "( { ( I1 I2 ) } [ I1 I2 I3 ] )")]
    out.append([["send", True, pl[:12]], ["echo", pl[12:]], ["echo", [["t", pl[:6]]]], ["tables"]])
    lst, dct = ["o", "list", "l0"], ["o", "dict", "d0"]
    out.append([["make", 0], ["make", 1], ["make", 0], ["echo", [["p", 0], ["t", [["p", 1], lst, ["p", 0]]]]],
                ["send", True, [["p", 0], lst]], ["send", False, [["t", [["t", [["t", [dct, ["v", "I5"]]]]], lst]]]],
                ["forget"], ["echo", [lst, dct, ["p", 1]]], ["tables"]])
    f1, f2 = ["o", "forged_id_pack", "forged-one"], ["o", "forged_id_pack", "forged-two"]
    out.append([["send", True, [f1]], ["send", True, [f2]], ["send", True, [["t", [f2, f1, f2]]]], ["echo", [f1, f2]], ["forget"],
                ["send", False, [f2, f1]], ["tables"]])
    out.append([["make", 0], ["make", 2]] + [["raw", sh] for sh in raw_shapes({0, 2})] + [["send", True, [["o", "list", "rawA"]]]]
               + [["raw", sh] for sh in raw_shapes({0, 2})] + [["tables"]])
    return out


def surrogate_corpus():
    """search only (the correspondence leaves text with lone surrogates to C04): text strings holding lone surrogates —
    a high one, one escaped byte, adjacent escaped bytes that spell valid UTF-8 ('caf\\udcc3\\udca9'), a pair in the wrong
    order — alone, inside tuples, and echoed"""
    pl = [["v", t] for t in ("S55296", "S56448", "S99,97,102,56515,56489", "S56515,56489", "S57343,55296", "S97,56832,98",
                             "( S56515,56489 ( S55296 ) )", "[ S56515,56489 S56448 ]")]
    return [[["send", False, [x]], ["echo", [x]], ["tables"]] for x in pl] + [[["send", True, pl[:4]], ["echo", pl[4:]], ["tables"]]]


# ---------------------------------------------------------------------------------------------- statement-level extras
def extras_mutation():
    """a change made through the reference is a change to the owner's object (real code only)"""
    errs = []
    s = None
    try:
        s = Session()
        for i, (kind, what) in enumerate(sorted(MUTABLE.items())):
            spec = ["o", kind, kind + "-m"]
            s.step(["send", True, [["t", [["v", "I1"], spec]]]])
            o = s.named[kind + "-m"]
            s.fn["mutate"](i, (0, 1), what)
            ok = {"append": lambda: o[-1] == 7, "setitem": lambda: o.get("k") == 7, "add": lambda: 7 in o,
                  "setattr": lambda: o.attr == 7}[what]()
            if not ok:
                errs.append("a %s changed through its proxy did not change at the owner" % kind)
    except Exception as ex:  # noqa
        errs.append("mutation through a proxy raised %s" % type(ex).__name__)
    finally:
        if s is not None:
            s.close()
    return errs


def extras_copy():
    """obtain / deliver produce an equal but independent object (real code only)"""
    import rpyc.utils.classic as classic
    errs = []
    s = None
    try:
        s = Session()
        # obtain: B's objects copied to A
        originals = {"list": [1, [2, 3]], "dict": {"a": [1]}, "set": {1, 2}, "tuple_ref": (1, [2]), "bytearray": bytearray(b"ab")}
        for name, orig in sorted(originals.items()):
            k = s.register("b", orig)
            p = s.fn["make"](k)
            copy = classic.obtain(p)
            if isinstance(copy, s.BaseNetref):
                errs.append("obtain(%s) returned a proxy" % name)
            elif copy is orig or type(copy) is not type(orig) or copy != orig:
                errs.append("obtain(%s) is not an equal, distinct object of the same type" % name)
            else:
                inner = copy[1] if name in ("list", "tuple_ref") else copy["a"] if name == "dict" else None
                if inner is not None:
                    inner.append(99)
                    if copy == orig:
                        errs.append("obtain(%s): changing the copy changed the original" % name)
        # deliver: A's objects copied to B
        for name, orig in sorted({"list": [1, [2, 3]], "dict": {"a": [1]}, "myint": MyInt(7), "point": Point(1, [2])}.items()):
            p = classic.deliver(s.ca, orig)
            if not isinstance(p, s.BaseNetref):
                errs.append("deliver(%s) did not return a proxy" % name)
                continue
            pack = tuple(object.__getattribute__(p, "____id_pack__"))
            there = c10.lent_table(s.cb)[pack][0]
            if there is orig or type(there) is not type(orig) or there != orig:
                errs.append("deliver(%s) did not create an equal, distinct object of the same type at the peer" % name)
    except Exception as ex:  # noqa
        errs.append("obtain/deliver raised %s: %s" % (type(ex).__name__, str(ex)[:80]))
    finally:
        if s is not None:
            s.close()
    return errs


# ---------------------------------------------------------------------------------------------- correspondence
@c10.infrastructure
def correspondence(ctx):
    c = Corr()
    c.rule = ("conversations on two real connections: a corpus (every one of %d kinds of non-plain object — containers, "
              "functions, classes, modules, methods, instances, subclass instances of every plain type, enum members, "
              "namedtuples, frozenset/slice holding an object, iterators — sent kept twice, echoed, inside nested tuples, "
              "after forget, twice in one tuple; every plain type at its boundary forms; B's objects handed out and passed "
              "back) and seeded conversations (values nested to depth 3 mixing plain values, objects, subclass instances and "
              "proxies; resending earlier argument tuples while their proxies live and after they died; hand-made packages with "
              "stale local references and unknown labels in every order: which error wins, nothing created before a KeyError). "
              "Compared per step: "
              "label tree decoded from the real frames vs. model `box`; arrived structure incl. which proxy object (serial) "
              "and its count vs. model `unbox`; final tables. Non-trivial = at least one reference travelled; distinct = "
              "distinct canonical output of the conversation with serials kept." % len(KINDS))
    r = Rng(ctx.seed).fork("c03")
    convs = [(ops, "corpus") for ops in corpus()]
    n_rand = ctx.budget(1500, 30000)
    for i in range(n_rand):
        convs.append((gen_conversation(r.fork("c%d" % i)), "random"))
    lines, reals, kept = [], [], []
    deadline = time.time() + ctx.budget(40, 700)
    for ops, tag in convs:
        if time.time() > deadline:
            c.count("conversations:skipped-for-time")
            continue
        try:
            texts, outs, errs = run_conversation(ops)
        except Exception as ex:  # noqa
            c.disagreements.append(dict(case=dict(kind="history", ops=ops), impl="harness could not run the conversation: %r" % (ex,),
                                        model="-"))
            continue
        lines.append("box c03 " + " ; ".join(texts))
        reals.append(outs)
        kept.append((ops, tag, errs, texts))
    try:
        outs = run_driver(lines, exe="drv_box")
    except DriverError as ex:
        c.error = str(ex)
        return c
    for (ops, tag, errs, texts), real, got in zip(kept, reals, outs):
        model = got.split(" | ")
        c.count("conversations:" + tag)
        c.evaluations += len(ops)
        for op, out in zip(ops, real):
            c.count("op:" + op[0])
            if out.startswith("err"):
                c.count("outcome:" + out)
            for m in ("M", "L", "V"):
                if (" %s" % m) in (" " + out):
                    c.count("label:" + {"M": "REMOTE_REF", "L": "LOCAL_REF", "V": "VALUE"}[m])
            if "T(" in out:
                c.count("label:TUPLE")
        bad = None
        if len(model) != len(real):
            bad = dict(step=0, impl=" | ".join(real)[:300], model=got[:300])
        else:
            for i, (a, b) in enumerate(zip(real, model)):
                if a != b:
                    bad = dict(step=i, op=texts[i][:300], impl=a[:600], model=b[:600])
                    break
        if bad is None and errs:
            bad = dict(step=-1, impl="; ".join(errs)[:400], model="(statement-level observation)")
        if bad:
            bad["case"] = dict(kind="history", ops=ops)
            c.disagreements.append(bad)
        else:
            if any("M" in out.split(" => ")[0] or " L" in out for out in real):
                c.signatures.add(hashlib.sha1(got.encode()).hexdigest()[:16])
            if len(c.samples) < 10 and (c.evaluations % 211 < 12):
                c.samples.append(dict(tag=tag, conversation=" ; ".join(texts)[:500], outputs=" | ".join(real)[:700]))
    # statement-level checks that have no model side
    for name, fn in all_extras():
        try:
            errs = fn()
        except Exception as ex:  # noqa
            errs = ["%s could not run: %r" % (name, ex)]
        c.count("extra:" + name)
        c.evaluations += 1
        for e in errs:
            c.disagreements.append(dict(case=dict(kind="extra", name=name), impl=e, model="(statement-level observation)"))
    c.exhaustive = False
    return c


def extras_overtake():
    """a package that mixes a fresh object of a not-yet-seen class with a handed-back object whose last proxy dies at
    once (run-time classes, real INSPECT; shared with C10)"""
    import c10
    return c10.extra_release_overtakes()


def extras_falsy():
    """falsy objects received again while their proxy lives are that same proxy (shared with C10)"""
    import c10
    return c10.extra_falsy_baton()


def extras_inspect_window():
    """the same object of a not-yet-seen class in messages sent back to back (shared with C10)"""
    import c10
    return c10.extra_same_object_during_inspect()


def extras_cache_gc():
    """the object arrives again while the cyclic GC collects its old proxy (shared with C10)"""
    import c10
    return c10.extra_cache_hit_across_gc()


def all_extras():
    import c10
    table = (("mutation-through-proxy", extras_mutation), ("obtain-deliver", extras_copy), ("two-hops", extras_chain),
             ("release-overtakes-reference", extras_overtake), ("falsy-objects", extras_falsy),
             ("same-object-during-inspect", extras_inspect_window), ("cache-hit-across-gc", extras_cache_gc),
             ("unreceivable-message", lambda: c10.extra_unreceivable_message()))
    return tuple((name, c10._bounded_extra(name, fn)) for name, fn in table)


def extras_chain():
    """two hops: A -> B -> C and back; the reference returns through both connections as the original, the middle
    party gets its own proxy back (`is`), the far end sees a proxy (real code only)"""
    import simnet
    import rpyc.core.brine as brine
    from rpyc.core.channel import Channel
    from rpyc.core.netref import BaseNetref
    from rpyc.core.service import SlaveService
    errs = []
    net = simnet.Net()
    with net.installed():
        ca, cb = net.connect_pair(SlaveService(), SlaveService(), compress=False)      # A <-> B (B's end served by thread "B")
        sb2, sc = net.stream_pair("B2", "C")
        cb2 = SlaveService()._connect(Channel(sb2, False), {})                          # B <-> C, B's end used from B's thread
        cc = SlaveService()._connect(Channel(sc, False), {})
        net.spawn("C", cc.serve_all)
        try:
            seen = {}

            def at_c(x):                 # runs at C
                seen["c_got_proxy"] = isinstance(x, BaseNetref)
                return x
            echo_c = cb2._unbox(brine.load(brine.dump(cc._box(at_c))))                  # B's proxy of C's function

            def forward(x):              # runs at B: x is B's proxy of A's object
                seen["b_got_proxy"] = isinstance(x, BaseNetref)
                y = echo_c(x)
                seen["b_same"] = y is x
                return y
            fwd = ca._unbox(brine.load(brine.dump(cb._box(forward))))                   # A's proxy of B's function
            for orig in ([1, 2], {"a": 1}, len, MyInt(3)):
                seen.clear()
                z = fwd(orig)
                name = type(orig).__name__
                if z is not orig:
                    errs.append("a %s sent over two hops and back is not the original object" % name)
                if not seen.get("b_got_proxy") or not seen.get("c_got_proxy"):
                    errs.append("a %s did not travel as a reference over both hops" % name)
                if not seen.get("b_same"):
                    errs.append("the middle party did not get its own proxy of the %s back from the far end" % name)
        except Exception as ex:  # noqa
            errs.append("two-hop scenario raised %s: %s" % (type(ex).__name__.split(".")[-1], str(ex)[:100]))
        finally:
            echo_c = fwd = None
            net.shutdown([ca, cb2])
    return errs


# ---------------------------------------------------------------------------------------------- direct oracle
def strip_ids(text):
    """drop '#serial*count' from an arrival text"""
    import re
    return re.sub(r"#\d+\*\d+", "", text)


def oracle_conversation(ops):
    """the property statement evaluated on the real code for one conversation; None if it holds"""
    import c10
    status, res = c10.bounded(lambda: _oracle_conversation(ops), 30.0)
    if status == "blocked":
        return ("the conversation did not come to an end: a request issued while a value was being received was never "
                "answered (receiving a value must not depend on the peer answering)")
    if status == "raised":
        return "the conversation raised %s" % type(res).__name__
    return res


def _oracle_conversation(ops):
    errs = []
    s = None
    try:
        s = Session()
        kept_args = []
        for op in ops:
            kind = op[0]
            if kind == "make":
                p = s.fn["make"](op[1])
                s.held_a[op[1]] = p
                if not isinstance(p, s.BaseNetref):
                    errs.append("B's %s arrived at A by value" % type(s.objs["b"][op[1]]).__name__)
            elif kind in ("send", "echo"):
                specs = op[2] if kind == "send" else op[1]
                args = tuple(s.build(x) for x in specs)
                want = expected_arrival(s, args)
                if kind == "send":
                    # sent before and still kept there?  then every reference must arrive as the very same proxy
                    again = [i for i, k in enumerate(kept_args) if k is specs or k == specs]
                    got = s.fn["take_keep" if op[1] else "take"](*args)
                    if again and not s.fn["same_as_kept"](again[0], *args):
                        errs.append("a value sent again while its proxies are alive did not arrive as the same proxies")
                    if op[1]:
                        kept_args.append(specs)
                else:
                    z = s.fn["echo"](*args)
                    got = s.last_seen
                    if not echo_ok(args, z):
                        errs.append("echo of %s did not return equal plain values / the original objects: got %s" % (
                            s.ptext(args)[:120], s.describe(z, "a")[:120]))
                    del z
                if strip_ids(got) != want:
                    errs.append("sent %s, arrived %s, the statement says %s" % (s.ptext(args)[:150], strip_ids(got)[:150], want[:150]))
                del args
            elif kind == "forget":
                s.fn["forget"]()
                kept_args = []
            elif kind == "tables":
                s.fn["ping"]()
    except InvalidCase:
        return None
    except Exception as ex:  # noqa
        errs.append("the conversation raised %s: %s" % (type(ex).__name__.split(".")[-1], str(ex)[:100]))
    finally:
        if s is not None:
            s.close()
    return "; ".join(dict.fromkeys(errs)) if errs else None


def expected_arrival(s, v):
    """from the statement: plain -> the same value; exact tuple -> component-wise; A's proxy of B's object -> B's
    object; anything else -> a proxy of that object"""
    if plain(v):
        return valtext.canon(v)
    if type(v) is tuple:
        return "( " + "".join(expected_arrival(s, x) + " " for x in v) + ")"
    if isinstance(v, s.BaseNetref) and object.__getattribute__(v, "____conn__") is s.ca:
        return "R%s" % s.key_of_pack["b"].get(tuple(object.__getattribute__(v, "____id_pack__")), "?")
    return "P%d" % s.register("a", v)


def echo_ok(x, z):
    if plain(x):
        return valtext.canon(z) == valtext.canon(x)
    if type(x) is tuple:
        return type(z) is tuple and len(z) == len(x) and all(echo_ok(a, b) for a, b in zip(x, z))
    return z is x


def shrink_conv(ops, fails):
    cur = list(ops)
    changed = True
    while changed:
        changed = False
        for i in range(len(cur)):
            cand = cur[:i] + cur[i + 1:]
            try:
                if cand and fails(cand):
                    cur, changed = cand, True
                    break
            except Exception:  # noqa
                pass
    return cur


@c10.infrastructure
def oracle_search(ctx, corr, broken):
    deadline = time.time() + ctx.budget(60, 600)
    r = Rng(ctx.seed).fork("c03-search")
    known = getattr(ctx, "known_signatures", set())

    def found(ops, msg):
        ops = shrink_conv(ops, lambda cand: oracle_conversation(cand) is not None)
        msg = oracle_conversation(ops) or msg
        sig = "c03:" + msg.split(";")[0][:50].split(",")[0]
        if sig in known:
            return None
        return dict(kind="history", ops=ops), msg, sig
    for name, fn in all_extras():
        errs = [e for e in fn() if not e.startswith("[implementation-tied]")]
        if errs and ("c03:" + name) not in known:
            return dict(kind="extra", name=name), "; ".join(errs), "c03:" + name
    for d in corr.disagreements[:40]:
        ops = (d.get("case") or {}).get("ops")
        if not ops:
            continue
        msg = oracle_conversation(ops)
        if msg:
            res = found(ops, msg)
            if res:
                return res
        if time.time() > deadline:
            return None
    for ops in corpus() + surrogate_corpus():
        msg = oracle_conversation(ops)
        if msg:
            res = found(ops, msg)
            if res:
                return res
    i = 0
    while time.time() < deadline:
        ops = gen_conversation(r.fork("s%d" % i))
        i += 1
        msg = oracle_conversation(ops)
        if msg:
            res = found(ops, msg)
            if res:
                return res
    return None


@c10.infrastructure
def replay(case):
    if case.get("kind") == "extra":
        fn = dict(all_extras())[case["name"]]
        return dict(case=case, implementation=fn() or "holds")
    ops = case["ops"]
    texts, outs, errs = run_conversation(ops)
    model = run_driver(["box c03 " + " ; ".join(texts)], exe="drv_box")[0].split(" | ")
    return dict(case=case, model_ops=texts, implementation=outs, model=model,
                first_difference=next((i for i, (a, b) in enumerate(zip(outs, model)) if a != b), None),
                oracle=oracle_conversation(ops) or "holds")


# ---------------------------------------------------------------------------------------------- known findings
class KeyA(object):
    pass


class KeyB(object):
    pass


def probe_key_changes_while_lent():
    """KNOWN C03:key-of-lent-object-changes-while-lent — `get_id_pack` is recomputed from the object each time (class module and
    name, id(type), id(obj)).  After `o.__class__ = Other` the same object sent again arrives as a SECOND proxy, and
    `_handle_del` recomputes the key at release time: dropping the first proxy removes the second proxy's slot, and using the
    still-live second proxy raises KeyError.  Returns (reproduces, text)."""
    import c10
    import simnet
    from rpyc.core import brine

    def run():
        seen = []
        net = simnet.Net()
        with net.installed():
            ca, cb = net.connect_pair(compress=False, config_a={"allow_all_attrs": True})
            try:
                kept = []

                def keep(x):
                    kept.append(x)
                    return len(kept)

                def same():
                    return kept[0] is kept[1]

                def drop_first_use_second():
                    del kept[0]
                    try:
                        return kept[0].marker
                    except KeyError:
                        return "KeyError"

                def ping():
                    return None
                keep_p, same_p, dfus_p, ping_p = [ca._unbox(brine.load(brine.dump(cb._box(f))))
                                                  for f in (keep, same, drop_first_use_second, ping)]
                o = KeyA()
                o.marker = "mine"
                keep_p(o)
                o.__class__ = KeyB
                keep_p(o)
                if not same_p():
                    seen.append("the same object sent again after `__class__` was reassigned arrives as a second proxy")
                ping_p()
                got = dfus_p()
                ping_p()
                if got != "mine":
                    seen.append("after the first proxy was dropped the second, still live, proxy answers %s" % got)
            finally:
                keep_p = same_p = dfus_p = ping_p = None
                net.shutdown([ca])
        return seen
    status, res = c10.bounded(run, 30.0)
    if status != "ok":
        return False, "the probe did not run (%s)" % status
    return bool(res), "; ".join(res) if res else "does not reproduce"


@c10.infrastructure
def known_probes(ctx):
    reproduces, text = probe_key_changes_while_lent()
    return [("C03:key-of-lent-object-changes-while-lent", reproduces,
             "signature=C03:key-of-lent-object-changes-while-lent %s" % text)]

