"""C08 — every request gets exactly one response, to its own requester.

Correspondence: request streams on two REAL Connections over the deterministic network (harness/simnet.py)
against the ledger machine `Rpyc.Proto.Ledger` (lean/RpycModel/Proto/Ledger.lean) through `drv_proto`.
A stream is a program of side A — synchronous calls, asynchronous calls, awaits, a request whose send fails,
requests whose arguments cannot be decoded (unknown handler, wrong arity, stale local id, hand-built frame
with a bad label), hand-built response frames (duplicate, unmatched, stealing a pending waiter) — where every
call carries a script for the remote handler: nested synchronous / asynchronous calls back to the caller,
then one of the outcome classes value / reference / exception (an Exception, or a BaseException that is not one:
asyncio.CancelledError, GeneratorExit, a user class, SystemExit, KeyboardInterrupt — the last two also with the serving
side's propagate_*_locally switch on, where the configuration routes them locally) / unencodable result (int beyond the digit
limit, tuple beyond the recursion limit) / exception that cannot itself be serialized (huge int argument,
argument whose repr() raises).  A frame-level recorder (harness/protonet.py) turns what the transport saw
(writes, header reads), what the handlers logged (outcome) and what the program did (await, failed send,
injection) into the model's events; the model then PREDICTS the ledger (sender, message type, sequence
number of every frame, in order), which requests were executed, which waiter got which response with
which payload, the waiter tables, the stacks and the closed flags, and these are compared with the real run.

Direct oracle (real code only): per request — executed at most once, exactly one response frame bearing its
number, delivered to its own requester with the payload its handler produced; connection usable afterwards.
"""
import gc
import re
import sys
import time

import rpyc
from rpyc.core import consts
from rpyc.core.async_ import AsyncResult

import protonet
import valtext
from lineproto import run_driver, DriverError
from pipeline import Corr
from prng import Rng
from simnet import Net

ID = "C08"
LEAN_MODULE = "RpycModel.Props.C08"
NAMESPACE = "Rpyc.Props.C08"
GEN = ["Proto.lean"]
DRIVERS = ["drv_proto"]
TRUSTED = [
    "modelled, not verified: the fallback frame of `_send_exception` (two class-name strings, a constant note, an "
    "empty tuple, a constant text) is always encodable; the exception `_dispatch_request`'s `else:` branch catches "
    "from `_box`/`brine.dump` is itself serializable (the encoder's own ValueError/RecursionError/TypeError)",
    "the abstraction function of the harness (transport calls + handler log -> ledger events) in props/c08.py; "
    "requests rpyc issues by itself (HANDLE_DEL, GETROOT, GETATTR) are events like any other, with their outcome "
    "class read off their response frame",
    "GIL atomicity of `next(itertools.count())` and `dict.pop` (sequence numbers and the waiter table under "
    "threads are C12/C13's subject; here one thread runs at a time, except in the nine gated 'second thread in the "
    "window of _async_request' runs)",
    "one fact about the code is measured by harness/gen_proto.py on the live class and enters the model as a generated "
    "constant with a named proof obligation (decode_guarded: `_dispatch` delivers a response it cannot decode to its "
    "waiter as an error); the outcome classes of `_dispatch_request` are labels whose meaning (`trySuiteRaises`, "
    "`replySendRaises`, `excPayloadRaises`, `plainPayloadRaises := false`) is tied to the code by the correspondence "
    "alone, not derived from a model of box/dump/vinegar",
    "not modelled, not exercised: a user callback added with AsyncResult.add_callback that raises (the exception leaves "
    "`_dispatch` after the response has been delivered); a configured `logger` whose debug() raises inside "
    "`_dispatch_request`'s except suite (no response, serving side ends: probed, user object misbehaving); a result "
    "object whose attribute lookup raises a non-Exception BaseException while it is boxed in the `else:` branch (only "
    "`Exception` is caught there: no response, probed)",
]
ASSUMPTIONS = [
    "the connection stays open during the stream (how it ends is C11); timeouts of waiters are C15",
    "a reply whose unboxing makes a nested HANDLE_INSPECT round trip (first proxy of a non-builtin class) is one "
    "delivery in the model; the streams return references to builtin classes only (lists, bound methods)",
    "with propagate_SystemExit_locally / propagate_KeyboardInterrupt_locally on, that exception is re-raised locally by "
    "design instead of being answered (outcome raiseLocal in the model; exercised, compared up to that point, and not "
    "counted as a violation); every other BaseException is answered",
    "a handler that never returns gets no response (the statement speaks of requests that are executed): 'exactly one' "
    "is the counting invariant (a request sent is in the peer's inbox, being handled, or answered once) plus: finishing "
    "a handler always answers, and at quiescence everything has been answered and delivered (quiescent_all_answered); "
    "'remains usable' is: no side has left its serve loop and issue / finish / deliver are enabled (stays_usable) — "
    "application-level circular waits are possible in the machine as in rpyc",
    "side B starts no top-level requests (only nested ones from its handlers); duplicate REQUEST sequence numbers from a "
    "hostile peer are not injected (only responses are)",
]
EXPLANATION = ("Theorems over ALL event sequences of the ledger machine (any mix of sync/async/nested requests, any "
               "handler outcome, any number outstanding, hand-built responses). The statement is the CONJUNCTION of "
               "separate theorems, not one of them: sequence numbers strictly increase (seq_fresh, issue_allocates); each "
               "request is executed at most once and answered at most once with its own number (at_most_once, "
               "response_bears_own_seq); a response goes to the waiter registered under its number and to nobody else, "
               "unmatched ones are dropped (routed, each_waiter_one_outcome); exactly_one = every reachable state is Good, "
               "i.e. no side has left its serve loop AND the counting invariant [in peer's inbox] + [being handled] + "
               "[answered] = 1 holds for every request sent (every outcome class incl. BaseExceptions, unencodable "
               "results, unserializable exceptions; only the configured local propagation of SystemExit/"
               "KeyboardInterrupt is excluded); a response the receiver cannot decode still reaches its waiter as an "
               "error (undecodable_response_is_delivered, obligation_decode_guarded measured for MSG_REPLY and "
               "MSG_EXCEPTION; unguarded_decode_loses_response is the counterexample for the code before the repair); at "
               "quiescence every request has been answered and delivered exactly once (quiescent_all_answered); a failed "
               "send leaves no waiter behind (send_failure_unregisters). A message whose brine.load itself fails at the "
               "receiver (before its seq is known) is not an event of the machine: it is met by the correspondence "
               "(deep-and-wide tuples at the default recursion limit), not by a theorem.")

LIMIT = sys.get_int_max_str_digits() or 4300
BIG = 10 ** (LIMIT + 10)
FINAL_CID = 9999
TIMED_EXPIRY = 100
# x: an Exception; bc/bg/bb/bs/bk: BaseExceptions that are not Exceptions (asyncio.CancelledError, GeneratorExit, a user
# class, SystemExit, KeyboardInterrupt) — answered like any other unless the side is configured to propagate bs / bk locally
# vv / xv: the handler returns (payload, value) / raises ValueError(payload, value) where `value` is the boundary value of the
# serializer that travelled to it as a by-value argument inside the script
# vr / xr: the same, but the value does NOT travel with the request (the handler looks it up): result direction only
# xg / xc: the handler raises an exception the REQUESTER's side cannot rebuild from its payload (an ExceptionGroup; a class
# whose __new__ needs arguments): the response is well-formed on the wire, its decoding fails at the receiver
OUTS = ["v", "vv", "vr", "r", "x", "xv", "xr", "xg", "xc", "bc", "bg", "bb", "bs", "bk", "ei", "ed", "pi", "pr"]
MODEL_OUT = {"v": "v", "vv": "v", "vr": "v", "r": "r", "x": "x", "xv": "x", "xr": "x", "xg": "x", "xc": "x", "bc": "b", "bg": "b", "bb": "b", "bs": "b", "bk": "b",
             "ei": "e", "ed": "e", "pi": "p", "pr": "p"}
ALTERED = -2
LOCAL_SWITCH = {"SystemExit": "propagate_SystemExit_locally", "KeyboardInterrupt": "propagate_KeyboardInterrupt_locally"}
LOCAL_OUT = {"SystemExit": "bs", "KeyboardInterrupt": "bk"}


class NeedsArgs(Exception):
    """an exception class that `cls.__new__(cls)` cannot create: the receiver of its payload cannot rebuild it"""
    def __new__(cls, a, b):
        return Exception.__new__(cls, a, b)


UNDECODABLE_OUTS = ("xg", "xc")


class Boom(BaseException):
    """a user exception deriving from BaseException directly"""


def base_exception(out, payload):
    if out == "bc":
        import asyncio
        return asyncio.CancelledError(payload)
    return {"bg": GeneratorExit, "bb": Boom, "bs": SystemExit, "bk": KeyboardInterrupt}[out](payload)
INJECT_PAYLOAD = 7777


class BadRepr(object):
    def __repr__(self):
        raise RuntimeError("no repr")


def deep_tuple(n=5000):
    v = ()
    for _ in range(n):
        v = (v,)
    return v


def to_tuple(x):
    return tuple(to_tuple(i) for i in x) if isinstance(x, (list, tuple)) else x


_POOL = []
# nested tuples of 5+ items whose depth sits between "the sender cannot encode it" (deep_tuple, outcome `ed`) and "everybody
# can": at Python's default recursion limit the sender's `dump` manages them (2 frames per level); a decoder that needs more
# stack per level than the encoder does not, and the message is lost before its seq is known
DEFAULT_RECURSION_LIMIT = 1000
DEEP_WIDE = ((310, 5), (350, 5), (400, 5), (430, 6))


def deep_wide(depth, width):
    v = ()
    for _ in range(depth):
        v = tuple(range(width - 1)) + (v,)
    return v


def deep_wide_texts():
    return [valtext.to_text(deep_wide(d, w)) for d, w in DEEP_WIDE]


def is_deep_text(t):
    return len(t) > 2000 and t.count("(") > 150


def program_has_deep_value(program):
    def walk(sc):
        if len(sc) > 3 and isinstance(sc[3], str) and is_deep_text(sc[3]):
            return True
        return any(walk(sub) for _k, sub in sc[1])
    return any(len(act) > 1 and isinstance(act[1], (list, tuple)) and len(act[1]) > 2 and act[0] in ("s", "a", "t") and walk(act[1])
               for act in program)


def value_pool():
    """texts (valtext notation) of the serializer's boundary values that can travel by value: c04's boundary corpus
    (lone and paired surrogates, NUL and astral text, ints at the immediate-window edges and just below the digit limit,
    NaN payloads, signed zeros, 255/256-long strings and tuples, nested frozensets and slices ...), minus what `dump`
    refuses (that is the unencodable class) and minus the very large ones; plus the deep-and-wide tuples (DEEP_WIDE) that
    the sender can encode at the default recursion limit"""
    if _POOL:
        return _POOL
    try:
        from props import c04
    except ImportError:
        import c04
    from rpyc.core import brine
    seen = set()
    for v in c04.boundary_values():
        try:
            if not brine.dumpable(v) or c04.has_overlimit_int(v) or c04.depth_of(v) > 40:
                continue
            if type(v) in (tuple, frozenset) and len(v) > 300:
                continue
            data = brine.dump(v)
            if len(data) > 70000:
                continue
            t = valtext.to_text(v)
            if valtext.canon(valtext.from_text(t)) != valtext.canon(v):
                continue
        except Exception:  # noqa
            continue
        if t not in seen:
            seen.add(t)
            _POOL.append(t)
    for t in deep_wide_texts():
        if t not in seen:
            seen.add(t)
            _POOL.append(t)
    return _POOL


def gen_extra(r):
    if r.chance(3, 4):
        # (the deep-and-wide tuples travel in the boundary programs only, at a known small stack depth: inside nested
        # callbacks the SENDER's own stack may not suffice, which is the unencodable class, not this one)
        return r.choice([t for t in value_pool() if not is_deep_text(t)])
    try:
        from props import c04
    except ImportError:
        import c04
    from rpyc.core import brine
    for _ in range(5):
        v = c04.gen_value(r, 3)
        try:
            if brine.dumpable(v) and not c04.has_overlimit_int(v) and len(brine.dump(v)) < 20000:
                t = valtext.to_text(v)
                if valtext.canon(valtext.from_text(t)) == valtext.canon(v):
                    return t
        except Exception:  # noqa
            pass
    return "I7"


# ---------------------------------------------------------------------------------------------- the real run
class Node(rpyc.Service):
    """both sides expose the same service: `do(script)` runs one handler script"""
    def __init__(self, run, side):
        self.run = run
        self.side = side

    def exposed_setup(self, peer_do):
        self.run.peer_do[self.side] = peer_do

    def exposed_do(self, script):
        return self.run.handle(self.side, script)


class Run(object):
    def __init__(self, program):
        self.program = program
        self.net = Net()
        self.peer_do = {}
        self.invoked = []             # (side, cid) per handler invocation
        self.outcomes = {}            # (requester side, cid) -> [(kind, payload)]
        self.asyncs = {}              # (side, cid) -> AsyncResult
        self.a_async = []             # cids of A's top-level asynchronous requests, in order
        self.refs = {}                # id(object returned by reference) -> payload
        self.keep = []
        self.notes = []
        self.raw_results = {}         # label -> AsyncResult of requests issued outside `call`
        self.usable = None
        self.injected_seqs = set()
        self.skipped = []
        self.extras = {}              # cid -> the value that travels with that script
        self.arg_altered = []         # cids whose argument value arrived different from what was sent
        self.local_exc = None
        self.local = {}               # side -> "SystemExit" | "KeyboardInterrupt": its propagate_*_locally switch is on
        if program and program[0][0] == "cfg":
            self.local["B"] = program[0][1]

    def to_wire(self, script):
        """program form [cid, [[kind, script]...], out(, value text)] -> the tuple that travels (the value by value)"""
        cid, pre, out = script[0], script[1], script[2]
        w = (cid, tuple((k, self.to_wire(sub)) for k, sub in pre), out)
        if len(script) > 3:
            v = valtext.from_text(script[3])
            self.extras[cid] = v
            # vr / xr: only a marker travels; the handler fetches the value locally, so it crosses the wire once, as a result
            w = w + ((("#", cid),) if out in ("vr", "xr") else (v,))
        return w

    def check_extra(self, cid, payload, got):
        try:
            same = valtext.canon(got) == valtext.canon(self.extras.get(cid))     # (no value given: None travels)
        except Exception:  # noqa
            same = False
        return payload if same else ALTERED

    # -- handlers
    def handle(self, side, script):
        cid, pre, out = script[:3]
        extra = script[3] if len(script) > 3 else None
        self.invoked.append((side, cid))
        if out in ("vr", "xr"):
            extra = self.extras.get(cid)
        elif len(script) > 3 and self.check_extra(cid, 0, extra) == ALTERED:
            self.arg_altered.append(cid)
        for kind, sub in pre:
            self.call(side, kind, sub)
        payload = 1000 + cid if out in ("v", "vv", "vr", "r", "x", "xv", "xr", "xg", "xc") or out[0] == "b" else 0
        # SystemExit / KeyboardInterrupt on a side configured to propagate it locally: not answered, by configuration
        local = self.local.get(side) is not None and out == LOCAL_OUT[self.local[side]]
        self.rec.log(t="finish", side=side, cid=cid, out="l" if local else MODEL_OUT[out], payload=payload,
                     undec=out in UNDECODABLE_OUTS)
        if out[0] == "b":
            exc = base_exception(out, payload)
            if local:
                self.local_exc = exc       # enclosing handlers of this side let it pass (see `call`)
            raise exc
        if out == "v":
            return payload
        if out in ("vv", "vr"):
            return (payload, extra)
        if out in ("xv", "xr"):
            raise ValueError(payload, extra)
        if out == "xg":
            raise ExceptionGroup("several", [ValueError(payload), KeyError(payload)])
        if out == "xc":
            raise NeedsArgs(payload, 1)
        if out == "r":
            obj = [payload]
            self.refs[id(obj)] = payload
            self.keep.append(obj)
            return obj
        if out == "x":
            raise ValueError(payload)
        if out == "ei":
            return BIG
        if out == "ed":
            return deep_tuple()
        if out == "pi":
            raise ValueError(BIG)
        if out == "pr":
            raise ValueError(BadRepr())
        raise AssertionError(out)

    # -- requests
    def classify_val(self, res, cid=None):
        if type(res) is int:
            return ("R", res)
        if type(res) is tuple and len(res) == 2 and type(res[0]) is int:
            return ("R", self.check_extra(cid, res[0], res[1]))
        try:
            inst = res.____id_pack__[2]
            return ("R", self.refs.get(inst, -1))
        except Exception:  # noqa
            return ("R", 0)

    def classify_exc(self, ex, cid=None):
        if isinstance(ex, EOFError):
            return ("EOF", 0)
        if type(ex).__name__ in ("AsyncResultTimeout", "TimeoutError"):
            return ("TO", 0)
        a = getattr(ex, "args", ())
        if type(a) is tuple and len(a) == 2 and type(a[0]) is int:
            return ("X", self.check_extra(cid, a[0], a[1]))
        return ("X", a[0] if a and type(a[0]) is int else 0)

    def note(self, side, cid, kind, payload):
        self.outcomes.setdefault((side, cid), []).append((kind, payload))

    def async_done(self, side, cid, res):
        try:
            v = res.value
        except BaseException as ex:  # noqa
            kind, payload = self.classify_exc(ex, cid)
        else:
            kind, payload = self.classify_val(v, cid)
        if not isinstance(cid, int) and kind == "X":   # undecodable arguments: the exception's data is not compared
            payload = 0
        self.note(side, cid, kind, payload)

    def call(self, side, kind, sub):
        f = self.peer_do[side]
        cid = sub[0]
        self.rec.expect(side, kind=kind, cid=cid)
        if kind == "s":
            if side == "A":
                self._last_ref = None
            try:
                res = f(sub)
            except BaseException as ex:  # noqa
                if ex is self.local_exc:
                    raise       # the locally propagated SystemExit / KeyboardInterrupt unwinds every frame of its side
                self.note(side, cid, *self.classify_exc(ex, cid))
            else:
                self.note(side, cid, *self.classify_val(res, cid))
                if side == "A" and sub[2] == "r":
                    self._last_ref = res      # kept until the next synchronous call of A (then HANDLE_DEL goes out)
                res = None
        else:
            try:
                ar = rpyc.async_(f)(sub)
            except BaseException as ex:  # noqa
                self.note(side, cid, *self.classify_exc(ex))
                return
            self.asyncs[(side, cid)] = ar
            ar.add_callback(lambda r, side=side, cid=cid: self.async_done(side, cid, r))

    def seq_of(self, side, cid):
        for e in self.rec.events:
            if e["t"] == "write" and e["side"] == side and e.get("cid") == cid and e["msg"] == consts.MSG_REQUEST:
                return e["seq"]
        return None

    def raw_async(self, label, handler, *args, **kw):
        """an asynchronous request with arbitrary handler id / arguments (undecodable at the peer)"""
        self.rec.expect("A", kind="a", cid=None, bad=kw.get("bad", True), label=label)
        ar = self.ca.async_request(handler, *args)
        self.raw_results[label] = ar
        ar.add_callback(lambda r, label=label: self.async_done("A", label, r))
        return ar

    # -- the program of side A
    def action(self, i, act):
        ca, rec = self.ca, self.rec
        k = act[0]
        if k == "cfg":
            return
        if k in ("s", "a", "t"):
            self.call("A", "a" if k == "t" else k, self.to_wire(act[1]))
            if k in ("a", "t"):
                self.a_async.append(act[1][0])
            if k == "t":
                # a timed request: its reply must be reported whenever it is looked at, also after the deadline
                ar = self.asyncs.get(("A", act[1][0]))
                if ar is not None:
                    ar.set_expiry(TIMED_EXPIRY)
        elif k == "adv":
            # everything in flight is delivered first (virtual time stands still meanwhile), THEN the clock jumps
            # past every deadline: replies that arrived in time are looked at after their deadline
            self.drain()
            if not ca.closed:
                self.net.clock.now += 10 * TIMED_EXPIRY
        elif k == "w":
            if not self.a_async:
                return
            cid = self.a_async[act[1] % len(self.a_async)]
            self.await_("A", cid)
        elif k == "f":
            rec.log(t="issuefail", side="A")
            try:
                ca.async_request(consts.HANDLE_PING, BIG)
                self.notes.append("issuefail: no exception")
            except ValueError:
                pass
            except Exception as ex:  # noqa
                self.notes.append("issuefail: %s" % type(ex).__name__)
        elif k == "u":
            v, label = act[1], "u%d" % i
            if v == "handler":
                self.raw_async(label, 99999)
            elif v == "arity":
                self.raw_async(label, consts.HANDLE_CALL)
            elif v == "localid":
                # a proxy whose object the peer has already dropped: its local id is unknown there
                self.call("A", "s", (500 + i, (), "r"))
                stale = self._last_ref
                if stale is None:
                    return
                ca.sync_request(consts.HANDLE_DEL, stale, 1000)     # (a request rpyc itself would issue)
                self.keep.append(stale)
                self.raw_async(label, consts.HANDLE_REPR, stale)
            elif v == "label":
                # hand-built frame with a label `_unbox` does not know, written into the stream directly
                try:
                    seq = ca._get_seq_id()
                    ar = AsyncResult(ca)
                    ca._request_callbacks[seq] = ar
                except AttributeError:
                    self.skipped.append("label")
                    return
                self.raw_results[label] = ar
                ar.add_callback(lambda r, label=label: self.async_done("A", label, r))
                rec.expect("A", kind="a", cid=None, bad=True, label=label)
                self.net.streams["A"].write(protonet.frame_bytes(
                    (consts.MSG_REQUEST, seq, (consts.HANDLE_CALL, (99, 0)))))
        elif k == "j":
            mode = act[1]
            mine = [e for e in rec.events if e["t"] == "write" and e["side"] == "A" and e["ok"]
                    and e["msg"] == consts.MSG_REQUEST]
            answered = set(e["seq"] for e in rec.events if e["t"] == "recv" and e["side"] == "A"
                           and e.get("msg") in (consts.MSG_REPLY, consts.MSG_EXCEPTION))
            if mode == "dup":
                cand = [e["seq"] for e in mine if e["seq"] in answered]
                pref = [e["seq"] for e in mine if e["seq"] in answered and e.get("kind") == "a" and not e.get("hidden")]
                if pref and i % 2 == 0:
                    cand = pref         # an asynchronous result the program still holds
            elif mode in ("steal", "steal-undecodable"):
                cand = [e["seq"] for e in mine if e["seq"] not in answered and e.get("kind") == "a"
                        and not e.get("hidden")]
            else:
                cand = [100000 + i]
            if not cand:
                return
            seq = cand[-1]
            self.injected_seqs.add(seq)
            rec.injecting = (seq, INJECT_PAYLOAD)
            if mode == "steal-undecodable":
                # a reply that hands back a reference to an object of OURS that we do not (no longer) know: stale LOCAL_REF
                rec.injecting_undec = True
                body = (consts.LABEL_LOCAL_REF, ("builtins.list", 1, 2))
            else:
                body = (consts.LABEL_VALUE, INJECT_PAYLOAD)
            self.net.streams["B"].write(protonet.frame_bytes((consts.MSG_REPLY, seq, body)))
            rec.injecting = None
            rec.injecting_undec = False

    def await_(self, side, cid):
        ar = self.asyncs.get((side, cid))
        if ar is None:
            return
        seq = self.seq_of(side, cid)
        self.rec.log(t="await", side=side, seq=seq)
        try:
            ar.wait()
        except BaseException as ex:  # noqa
            self.notes.append("await %s: %s" % (cid, type(ex).__name__))

    def drain(self):
        net, ca = self.net, self.ca
        for _ in range(2000):
            net.yield_to_others("A")
            if net.streams["A"].inbox and not ca.closed:
                try:
                    ca.serve(0)
                except BaseException as ex:  # noqa
                    self.notes.append("drain: %s" % type(ex).__name__)
                    return
                continue
            if not net.streams["B"].inbox or self.cb.closed:
                return

    def execute(self):
        # programs carrying a deep-and-wide tuple run at Python's DEFAULT recursion limit (run.py raises it for the
        # harness's own recursions): that is where the encoder's and the decoder's stack needs can differ
        if not program_has_deep_value(self.program):
            return self._execute()
        import sys
        old = sys.getrecursionlimit()
        sys.setrecursionlimit(DEFAULT_RECURSION_LIMIT)
        try:
            return self._execute()
        finally:
            sys.setrecursionlimit(old)

    def _execute(self):
        net = self.net
        old_gc = gc.isenabled()
        gc.disable()
        try:
            with net.installed():
                sa, sb = Node(self, "A"), Node(self, "B")
                # no compression, 10 virtual minutes per synchronous request
                # both propagate_*_locally switches are set explicitly (DEFAULT_CONFIG has the KeyboardInterrupt one ON,
                # although its documentation table says False): off everywhere, except side B's as the program says
                cfg = {"sync_request_timeout": 600, "propagate_SystemExit_locally": False,
                       "propagate_KeyboardInterrupt_locally": False,
                       # exception classes of this module are rebuilt at the receiver (so one that cannot be is met)
                       "instantiate_custom_exceptions": True}
                from rpyc.core.channel import Channel
                stra, strb = net.stream_pair("A", "B")
                self.rec = rec = protonet.Recorder(net)
                rec.injecting = None
                rec.injecting_undec = False
                self._install_inject_tag()
                cfg_b = dict(cfg)
                if self.local.get("B"):
                    cfg_b[LOCAL_SWITCH[self.local["B"]]] = True
                self.ca = ca = sa._connect(Channel(stra, False), cfg)
                self.cb = cb = sb._connect(Channel(strb, False), cfg_b)

                def b_main():
                    try:
                        cb.serve_all()
                    except BaseException as ex:  # noqa  (whatever leaves serve_all ends side B's thread)
                        self.b_exit = type(ex).__name__
                self.b_exit = None
                net.spawn("B", b_main)
                self._last_ref = None
                try:
                    root = ca.root
                    self.peer_do["A"] = root.do
                    root.setup(sa.exposed_do)
                    for i, act in enumerate(self.program):
                        if ca.closed:
                            break
                        self.action(i, act)
                    # the connection must still be usable
                    if not ca.closed:
                        self.call("A", "s", (FINAL_CID, (), "v"))
                        self.usable = self.outcomes.get(("A", FINAL_CID)) == [("R", 1000 + FINAL_CID)]
                        self.drain()
                        for (side, cid), ar in list(self.asyncs.items()):
                            if side == "A" and (side, cid) not in self.outcomes:
                                self.await_("A", cid)
                        self.drain()
                    else:
                        self.usable = False
                except BaseException as ex:  # noqa
                    self.notes.append("program: %s %s" % (type(ex).__name__, str(ex)[:80]))
                    self.usable = False
                self.observe()
                rec.enabled = False
                self._last_ref = None
                self.peer_do.clear()
                self.asyncs.clear()
                self.raw_results.clear()
                self.keep = []
                root = None
                net.shutdown([ca])
        finally:
            if old_gc:
                gc.enable()
        return self

    def _install_inject_tag(self):
        rec = self.rec
        orig = rec._hook

        def hook(op, stream, arg):
            n = len(rec.events)
            orig(op, stream, arg)
            if op == "write" and rec.injecting is not None:
                for e in rec.events[n:]:
                    if e["t"] == "write":
                        e["injected"] = rec.injecting
                        e["undec"] = bool(rec.injecting_undec)
        for s in self.net.streams.values():
            s.fault = hook

    def local_fired(self):
        return any(e["t"] == "finish" and e["out"] == "l" for e in self.rec.events)

    # -- observation
    def observe(self):
        rec = self.rec
        self.cid_seq = {}
        for e in rec.events:
            if e["t"] == "write" and e["msg"] == consts.MSG_REQUEST and not e.get("hidden"):
                key = e.get("cid") if e.get("cid") is not None else e.get("label")
                self.cid_seq[(e["side"], key)] = e["seq"]
        self.obs = obs = {}
        obs["wire"] = ["%s:%d:%d" % (s, m, q) for (s, m, q) in rec.wire()]
        for side, peer in (("A", "B"), ("B", "A")):
            ex = sorted(self.cid_seq[(peer, cid)] for (s, cid) in self.invoked if s == side and (peer, cid) in self.cid_seq)
            obs["exec" + side] = ex
            res = []
            for (s, key), lst in self.outcomes.items():
                if s == side and (s, key) in self.cid_seq:
                    for kind, payload in lst:
                        res.append("%d%s%d" % (self.cid_seq[(s, key)], kind, payload))
            obs["res" + side] = sorted(res)
            conn = self.ca if side == "A" else self.cb
            try:
                obs["cb" + side] = sorted(conn._request_callbacks.keys())
            except AttributeError:
                obs["cb" + side] = None
            obs["dead" + side] = "T" if conn.closed else "F"
            obs["inbox" + side] = len(self.net.streams[side].inbox)
        obs["usable"] = self.usable
        obs["args_altered"] = sorted(self.arg_altered)
        # what each asynchronous result holds NOW (an outcome, once given, must not change)
        obs["final"] = {}
        for (side, cid), ar in self.asyncs.items():
            if side == "A" and (side, cid) in self.outcomes:
                try:
                    now = self.classify_val(ar.value, cid)
                except BaseException as ex:  # noqa
                    now = self.classify_exc(ex, cid)
                obs["final"]["%s" % (cid,)] = (list(self.outcomes[(side, cid)][0]), list(now))


# ---------------------------------------------------------------------------------------------- abstraction
def model_tokens(run):
    """raw log -> the ledger machine's events"""
    rec = run.rec
    fifo = {"A": [], "B": []}            # frames in flight towards each side
    toks = []
    resp_kind = {}                        # (sender, seq) -> msg of the response frame (for rpyc's own requests)
    for e in rec.events:
        if e["t"] == "write" and e["ok"] and e["msg"] in (consts.MSG_REPLY, consts.MSG_EXCEPTION) \
                and not e.get("injected"):
            resp_kind.setdefault((e["side"], e["seq"]), e["msg"])
    undec_next = {"A": False, "B": False}      # the handler that just finished raised something its requester cannot rebuild
    for e in rec.events:
        t, side = e["t"], e["side"]
        peer = "B" if side == "A" else "A"
        if t == "write":
            if not e["ok"]:
                continue
            if e.get("injected"):
                seq, val = e["injected"]
                toks.append("j%s%s%d:%d" % (peer, "R" if e["msg"] == consts.MSG_REPLY else "X", seq, val))
                fifo[peer].append(dict(msg=e["msg"], seq=e["seq"], undec=e.get("undec", False)))
            elif e["msg"] == consts.MSG_REQUEST:
                toks.append("i%s%s" % (side, e.get("kind", "s")))
                fifo[peer].append(dict(msg=e["msg"], seq=e["seq"], hidden=e.get("hidden", False),
                                       bad=e.get("bad", False)))
            else:
                fifo[peer].append(dict(msg=e["msg"], seq=e["seq"], undec=undec_next[side]))
                undec_next[side] = False
        elif t == "recv":
            if e.get("eof") or not fifo[side]:
                continue
            fr = fifo[side].pop(0)
            # (a response whose payload this side cannot decode: the model's deliverFail)
            toks.append(("D" if fr.get("undec") and fr["msg"] != consts.MSG_REQUEST else "d") + side)
            if fr["msg"] == consts.MSG_REQUEST:
                if fr.get("bad"):
                    toks.append("F%su:0" % side)
                elif fr.get("hidden"):
                    k = resp_kind.get((side, fr["seq"]))
                    toks.append("F%s%s:0" % (side, "v" if k == consts.MSG_REPLY else "x"))
        elif t == "finish":
            toks.append("F%s%s:%d" % (side, e["out"], e["payload"]))
            undec_next[side] = bool(e.get("undec"))
            if e["out"] == "l":
                break          # the exception leaves serve_all by configuration: the connection ends (C11 from here)
        elif t == "issuefail":
            toks.append("f" + side)
        elif t == "await":
            toks.append("w%s%d" % (side, e["seq"]))
    return toks


FIELD = re.compile(r"(\w+)=(\S+)")


def parse_model(line):
    m = re.match(r"acc=(\d+)/(\d+) wire=(\S+) A\[(.*?)\] B\[(.*?)\]$", line)
    if not m:
        return None
    out = dict(acc=int(m.group(1)), total=int(m.group(2)), wire=[] if m.group(3) == "-" else m.group(3).split(","))
    for side, body in (("A", m.group(4)), ("B", m.group(5))):
        d = dict(FIELD.findall(body))
        for k, v in d.items():
            out[k + side] = [] if v == "-" else v.split(",")
    return out


def canonical(run, mline):
    """(impl_text, model_text): the comparable projection of both sides"""
    o = run.obs
    visible = set(run.cid_seq.values())
    impl = ["acc=all", "wire=" + ",".join(o["wire"])]
    mod = []
    if o.get("args_altered"):
        impl.append("argument-values-altered-in-transit=%s" % o["args_altered"])
    changed = sorted(c for c, (first, now) in o.get("final", {}).items() if first != now)
    if changed:
        impl.append("results-that-changed-after-they-were-given=%s" % changed)
    pm = parse_model(mline)
    if pm is None:
        return ("(impl) " + " ".join(impl), "(model) " + mline)
    if run.local_fired():
        # configured local propagation: the serving side is gone; compared up to that point
        n = len(pm["wire"])
        impl = ["acc=all", "wire=" + ",".join(o["wire"][:n]), "execB=" + ",".join(map(str, o["execB"])),
                "serving-side-ended=" + o["deadB"]]
        peer_visible = set(q for (s_, _k), q in run.cid_seq.items() if s_ != "B")
        mod = ["acc=all" if pm["acc"] == pm["total"] else "acc=%d/%d" % (pm["acc"], pm["total"]),
               "wire=" + ",".join(pm["wire"]),
               # (handlers that had been invoked and were unwound by the propagating exception count as invoked)
               "execB=" + ",".join(str(q) for q in sorted(set(int(x) for x in pm["execB"] + pm["abandB"]))
                                   if q in peer_visible),
               "serving-side-ended=" + pm["deadB"][0]]
        return " ".join(impl), " ".join(mod)
    mod.append("acc=all" if pm["acc"] == pm["total"] else "acc=%d/%d" % (pm["acc"], pm["total"]))
    mod.append("wire=" + ",".join(pm["wire"]))
    for side in "AB":
        impl.append("exec%s=%s" % (side, ",".join(map(str, o["exec" + side]))))
        peer_visible = set(q for (s, _k), q in run.cid_seq.items() if s != side)
        mod.append("exec%s=%s" % (side, ",".join(str(q) for q in sorted(int(x) for x in pm["exec" + side])
                                                 if q in peer_visible)))
        impl.append("res%s=%s" % (side, ",".join(o["res" + side])))
        mine = set(q for (s, _k), q in run.cid_seq.items() if s == side)
        mres = sorted(x for x in pm["res" + side] if int(re.match(r"\d+", x).group(0)) in mine)
        mod.append("res%s=%s" % (side, ",".join(mres)))
        if o["cb" + side] is not None:
            impl.append("cb%s=%s" % (side, ",".join(map(str, o["cb" + side]))))
            mod.append("cb%s=%s" % (side, ",".join(re.match(r"\d+", x).group(0) for x in pm["cb" + side])))
        impl.append("closed%s=%s" % (side, o["dead" + side]))
        mod.append("closed%s=%s" % (side, pm["dead" + side][0]))
        impl.append("inbox%s=%d" % (side, o["inbox" + side]))
        mod.append("inbox%s=%d" % (side, len(pm["inbox" + side])))
        mod.append("stack%s=%d" % (side, len(pm["stack" + side])))
        impl.append("stack%s=0" % side)
    _ = visible
    return " ".join(impl), " ".join(mod)


# ---------------------------------------------------------------------------------------------- generators
def gen_script(r, next_cid, depth, outs):
    cid = next_cid[0]
    next_cid[0] += 1
    pre = []
    if depth > 0:
        for _ in range(r.choice([0, 0, 1, 1, 2])):
            pre.append([r.choice(["s", "s", "a"]), gen_script(r, next_cid, depth - 1, outs)])
    out = r.choice(outs)
    sc = [cid, pre, out]
    if out in ("vv", "xv", "vr", "xr") or r.chance(1, 4):
        sc.append(gen_extra(r))        # a boundary value of the serializer travels as a by-value argument
    return sc


def gen_program(r, size, heavy, local=None):
    """heavy: include the slow outcome classes (deep tuple, repr that raises); local: "SystemExit" | "KeyboardInterrupt":
    side B propagates that exception locally, and only handlers at B's base level raise it"""
    outs = ["v", "vv", "vv", "vr", "r", "x", "xv", "xr", "xg", "xc", "bc", "bg", "bb", "bs", "bk", "ei", "pi"] + (["ed", "pr"] if heavy else [])
    if local:
        outs = [o for o in outs if o != LOCAL_OUT[local]]
    next_cid = [1]
    prog = [["cfg", local]] if local else []

    def top(depth):
        sc = gen_script(r, next_cid, depth, outs)
        if local and r.chance(1, 3):
            sc[2] = LOCAL_OUT[local]
        return sc
    for _ in range(size):
        k = r.below(20)
        if k < 7:
            prog.append(["s", top(r.choice([0, 1, 1, 2, 3]))])
        elif k < 12:
            prog.append(["a", top(r.choice([0, 0, 1, 2]))])
        elif k < 14:
            prog.append(["w", r.below(8)])
        elif k < 15:
            if r.chance(1, 2):
                prog.append(["f"])
            else:
                prog.append(["t", top(r.choice([0, 0, 1]))])
                if r.chance(2, 3):
                    prog.append(["adv"])
        elif k < 18:
            prog.append(["u", r.choice(["handler", "arity", "localid", "label"])])
        else:
            prog.append(["j", r.choice(["dup", "unmatched", "steal", "steal-undecodable"])])
    return prog


def boundary_programs():
    """one small stream per outcome class / variant, and the classic shapes"""
    out = []
    for o in OUTS:
        out.append([["s", [1, [], o]]])
        out.append([["a", [1, [], o]], ["w", 0]])
        out.append([["s", [1, [["s", [2, [], o]]], "v"]]])           # the callback has that outcome
        out.append([["s", [1, [["s", [2, [["s", [3, [], o]]], "v"]]], o]]])
    for v in ("handler", "arity", "localid", "label"):
        out.append([["u", v]])
        out.append([["a", [1, [], "v"]], ["u", v], ["s", [2, [], "r"]]])
    out.append([["f"], ["s", [1, [], "v"]], ["f"], ["a", [2, [], "x"]]])
    out.append([["a", [1, [], "v"]], ["a", [2, [], "x"]], ["a", [3, [], "r"]], ["s", [4, [], "v"]], ["w", 0], ["w", 1]])
    out.append([["s", [1, [], "v"]], ["j", "dup"], ["s", [2, [], "v"]]])
    out.append([["j", "unmatched"], ["s", [1, [], "v"]]])
    out.append([["a", [1, [], "v"]], ["j", "steal"], ["w", 0], ["s", [2, [], "v"]]])
    # responses the requester's side cannot decode: they still reach their own requester (as an error), whoever is serving
    out.append([["a", [1, [], "v"]], ["j", "steal-undecodable"], ["w", 0], ["s", [2, [], "v"]]])
    for o in UNDECODABLE_OUTS:
        out.append([["a", [1, [], o]], ["s", [2, [], "v"]], ["w", 0]])        # delivered while ANOTHER request is serving
        out.append([["a", [1, [], o]], ["a", [2, [], "v"]], ["w", 1], ["w", 0]])
    out.append([["a", [1, [["a", [2, [], "x"]], ["s", [3, [["a", [4, [], "r"]]], "v"]]], "ei"]], ["s", [5, [], "pi"]]])
    # every boundary value of the serializer as argument + result, and as argument + exception argument (also via a callback)
    for t in deep_wide_texts():
        # argument + result, result only + exception argument only, asynchronous with an exception argument
        out.append([["s", [1, [], "vv", t]]])
        out.append([["s", [1, [], "vr", t]], ["a", [2, [], "xr", t]], ["w", 0]])
        out.append([["a", [1, [], "xv", t]], ["s", [2, [], "v"]], ["w", 0]])
    out.append([["s", [1, [["s", [2, [], "vv", deep_wide_texts()[0]]]], "xv", deep_wide_texts()[0]]]])
    for i, t in enumerate(t for t in value_pool() if not is_deep_text(t)):
        out.append([["s", [1, [], "vv", t]]])
        if i % 2 == 0:
            out.append([["s", [1, [], "vr", t]], ["a", [2, [], "xr", t]], ["w", 0]])
        if i % 3 == 0:
            out.append([["a", [1, [], "xv", t]], ["w", 0]])
        if i % 5 == 0:
            out.append([["s", [1, [["s", [2, [], "vv", t]]], "xv", t]]])
    # timed requests whose reply arrives before the deadline and is looked at (awaited, read, read again) after it
    for o in ("v", "x", "r", "vv", "ei"):
        out.append([["t", [1, [], o, "S97,55296"]], ["s", [2, [], "v"]], ["adv"], ["w", 0]])
        out.append([["t", [1, [["s", [2, [], "v"]]], o]], ["adv"], ["t", [3, [], o]], ["adv"], ["w", 1], ["w", 0]])
    # SystemExit / KeyboardInterrupt with the matching propagate_*_locally switch on at the serving side: routed locally by
    # configuration (the other one, and every other BaseException, is still answered)
    for kind, lo, other in (("SystemExit", "bs", "bk"), ("KeyboardInterrupt", "bk", "bs")):
        out.append([["cfg", kind], ["s", [1, [], other]], ["s", [2, [], "bc"]], ["s", [3, [], lo]]])
        out.append([["cfg", kind], ["a", [1, [], "v"]], ["a", [2, [["s", [3, [], "v"]]], lo]], ["s", [4, [], "v"]]])
        out.append([["cfg", kind], ["s", [1, [["s", [2, [], other]]], "bb"]], ["a", [3, [], lo]]])
    return out


def stats_of(prog):
    kinds, outs, depth = set(), set(), [0]

    def walk(s, d):
        outs.add(s[2])
        if len(s) > 3:
            kinds.add("value:" + s[3][:1])
        depth[0] = max(depth[0], d)
        for k, sub in s[1]:
            kinds.add("nested-" + k)
            walk(sub, d + 1)
    for a in prog:
        kinds.add(a[0] if a[0] not in ("u", "j", "cfg") else a[0] + ":" + a[1])
        if a[0] in ("s", "a", "t"):
            walk(a[1], 0)
    return kinds, outs, depth[0]


# ---------------------------------------------------------------------------------------------- a second thread in the window
# The ledger machine registers the waiter and writes the request in ONE step (`issue`).  On the code this is a window:
# another thread of the same side may receive and dispatch the reply at any point between the request's bytes leaving and
# `_async_request` (and `async_request`) returning.  These few runs (real socket pair, real threads, gated — no timing)
# put exactly that other thread's `serve()` at each such point and check that the response still reaches its requester.
import socket
import threading

WINDOW_CEILING = 3.0
WINDOW_GATES = ("in_write", "after_send", "after_async_request")
WINDOW_KINDS = ("async_value", "async_exception", "sync_value")
# a SECOND SENDER instead of a second receiver: while the first thread is inside channel.send() (holding the send lock),
# another thread of the same side issues its own request; then everything is quiet.  Both requests must reach the peer
# and be answered (the sender that holds the lock drains what was queued meanwhile).
TWO_SENDERS = dict(kind="window", request="two_senders", gate="in_write")


class Infrastructure(Exception):
    """a window run could not be set up: exit 2, never a violation"""


class GateSock(object):
    """a real socket; when armed, the first send() — once its bytes are really out — calls `hook` before returning"""
    def __init__(self, real):
        self._real = real
        self.hook = None

    def send(self, data, *a):
        self._real.sendall(data)
        h, self.hook = self.hook, None
        if h is not None:
            h()
        return len(data)

    def sendall(self, data, *a):
        self.send(data, *a)

    def __getattr__(self, name):
        return getattr(self._real, name)


class WindowSvc(rpyc.Service):
    def exposed_add(self, a, b):
        return a + b

    def exposed_fail(self, a):
        raise ValueError(a)


def run_window(kind, gate):
    from rpyc.core.channel import Channel
    from rpyc.core.protocol import Connection
    from rpyc.core.stream import SocketStream
    try:
        a, b = socket.socketpair()
    except Exception as ex:  # noqa
        raise Infrastructure("socketpair: %r" % (ex,))
    gs = GateSock(a)
    stra, strb = SocketStream(gs), SocketStream(b)
    cfg = {"sync_request_timeout": WINDOW_CEILING}
    ca = rpyc.VoidService()._connect(Channel(stra), cfg)
    cb = WindowSvc()._connect(Channel(strb), cfg)
    res = dict(kind=kind, gate=gate, pumps=0, pumped_dispatch=None, outcome=None, gate_reached=False)
    pump_req, pump_done, stop = threading.Event(), threading.Event(), threading.Event()

    def quiet(fn):
        try:
            fn()
        except BaseException:  # noqa
            pass

    second = {}

    def second_thread():
        # another thread of side A: when asked, it serves the connection once (waiting for the reply to arrive) —
        # or, in the two-senders run, issues a request of its own
        while True:
            pump_req.wait()
            pump_req.clear()
            if stop.is_set():
                return
            try:
                if kind == "two_senders":
                    second["ar"] = rpyc.async_(second["fn"])(1, 2)
                    res["pumped_dispatch"] = "second request issued"
                else:
                    res["pumped_dispatch"] = bool(ca.serve(WINDOW_CEILING / 2))
            except BaseException as ex:  # noqa
                res["pumped_dispatch"] = "raised %s" % type(ex).__name__
            pump_done.set()

    def pump():
        res["gate_reached"] = True
        res["pumps"] += 1
        pump_done.clear()
        pump_req.set()
        pump_done.wait(WINDOW_CEILING)

    tb = threading.Thread(target=lambda: quiet(cb.serve_all), daemon=True, name="win-B")
    t2 = threading.Thread(target=second_thread, daemon=True, name="win-A2")
    tb.start()
    t2.start()
    state = {"sent": False, "done": False}
    inner = getattr(Connection, "_async_request", None)
    outer = getattr(Connection, "async_request", None)

    def tracer(frame, event, arg):
        code = frame.f_code
        if (inner is not None and code is inner.__code__) or (outer is not None and code is outer.__code__):
            return local
        return None

    def local(frame, event, arg):
        if state["sent"] and not state["done"] and event in ("line", "return"):
            is_inner = inner is not None and frame.f_code is inner.__code__
            if (gate == "after_send" and is_inner) or (gate == "after_async_request" and not is_inner):
                state["done"] = True
                pump()
        return local
    try:
        root = ca.root
        fn = root.fail if kind == "async_exception" else root.add
        second["fn"] = root.add
        expected = ("X", 5) if kind == "async_exception" else ("R", 12)

        def mark():
            state["sent"] = True
            if gate == "in_write":
                state["done"] = True
                pump()
        gs.hook = mark
        if gate != "in_write":
            if inner is None or outer is None:
                res["outcome"] = "skipped"
                return res
            sys.settrace(tracer)
        try:
            try:
                if kind == "sync_value":
                    v = fn(5, 7)
                else:
                    ar = rpyc.async_(fn)(5) if kind == "async_exception" else rpyc.async_(fn)(5, 7)
                    sys.settrace(None)
                    ar.set_expiry(WINDOW_CEILING)
                    v = ar.value
                got = ("R", v)
            except BaseException as ex:  # noqa
                a0 = getattr(ex, "args", ())
                if type(ex).__name__ in ("AsyncResultTimeout", "TimeoutError"):
                    got = ("TO", 0)
                elif isinstance(ex, EOFError):
                    got = ("EOF", 0)
                else:
                    got = ("X", a0[0] if a0 and type(a0[0]) is int else 0)
        finally:
            sys.settrace(None)
        res["outcome"] = "%s%d" % got
        res["expected"] = "%s%d" % expected
        if kind == "two_senders":
            # then quiet: nobody sends anything else; the second request must have been written and answered too
            try:
                ar2 = second.get("ar")
                if ar2 is None:
                    got2 = ("NONE", 0)
                else:
                    ar2.set_expiry(WINDOW_CEILING)
                    got2 = ("R", ar2.value)
            except BaseException as ex:  # noqa
                got2 = ("TO", 0) if type(ex).__name__ in ("AsyncResultTimeout", "TimeoutError") else ("X", 0)
            res["outcome"] += ",%s%d" % got2
            res["expected"] += ",R3"
    finally:
        stop.set()
        pump_req.set()
        for st in (stra, strb):
            try:
                st.close()
            except Exception:  # noqa
                pass
        tb.join(WINDOW_CEILING)
        t2.join(WINDOW_CEILING)
    if res["outcome"] != "skipped" and not res["gate_reached"]:
        raise Infrastructure("the gate %s was never reached (%s)" % (gate, kind))
    return res


def window_oracle(res):
    if res["outcome"] == "skipped":
        return None
    if res["kind"] == "two_senders" and res["outcome"] != res["expected"]:
        return ("two threads of one side sending at once (the second while the first is inside channel.send()), then quiet: "
                "the requesters got %s instead of %s — a request that was queued behind the sender was never written"
                % (res["outcome"], res["expected"]), "C08:queued-request-never-sent")
    if res["outcome"] != res["expected"]:
        return ("%s request with another thread of the same side serving %s: the other thread dispatched the reply (%r), "
                "the requester got %s instead of %s" % (res["kind"], {"in_write": "while the request was being written",
                "after_send": "right after `_send` returned inside `_async_request`",
                "after_async_request": "right after `_async_request` returned"}[res["gate"]], res["pumped_dispatch"],
                res["outcome"], res["expected"]), "C08:reply-dispatched-by-another-thread-is-lost")
    return None


def window_cases():
    return [dict(kind="window", request=k, gate=g) for k in WINDOW_KINDS for g in WINDOW_GATES] + [dict(TWO_SENDERS)]


# ---------------------------------------------------------------------------------------------- correspondence
def run_case(prog):
    run = Run(prog).execute()
    toks = model_tokens(run)
    return run, "ledger run 0 0 " + " ".join(toks)


def correspondence(ctx):
    c = Corr()
    c.rule = ("request streams of side A (sync, async, timed, await, clock advance, failed send, 4 kinds of undecodable "
              "arguments, 4 kinds of hand-built responses: duplicate, unmatched, stealing a waiter, undecodable) whose "
              "handler scripts nest sync/async callbacks up to depth 3 and end in one of %d outcomes (value, value with a "
              "boundary value as argument+result / as result only, reference, Exception plain / with a boundary value, "
              "ExceptionGroup, a class the receiver cannot rebuild, five BaseException classes, unencodable int / deep "
              "tuple, exception with unserializable int / repr); boundary corpus (every outcome x {sync, async+await, "
              "callback, depth-3}, every value of the pool incl. %d deep-and-wide tuples run at the default recursion "
              "limit, configured local propagation) + seeded random streams. " % (len(OUTS), len(DEEP_WIDE)) +
              "Compared: ledger (sender, type, seq of every frame, in order), executed requests, (seq, kind, payload) "
              "given to each requester, waiter tables, closed flags, empty inboxes/stacks, every event accepted by the "
              "model. Non-trivial = at least one request; distinct = distinct (action kinds, outcome set, depth, "
              "frame-count class).")
    r = Rng(ctx.seed).fork("c08")
    n_rand = ctx.budget(1300, 40000)
    deadline = time.time() + ctx.budget(30, 700)
    progs = boundary_programs()
    for i in range(n_rand):
        local = None if i % 12 else r.choice(["SystemExit", "KeyboardInterrupt"])
        progs.append(gen_program(r, r.choice([1, 2, 3, 4, 6, 9]), heavy=(i % 8 == 0), local=local))
    lines, runs = [], []
    for prog in progs:
        if time.time() > deadline and len(runs) >= len(boundary_programs()):
            c.count("skipped:time-budget")
            continue
        try:
            run, line = run_case(prog)
        except Exception as ex:  # noqa
            c.error = "harness crashed on %r: %r" % (prog, ex)
            return c
        runs.append((prog, run))
        lines.append(line)
    for o in ("v", "r", "x", "b", "u", "e", "p", "l"):
        lines.append("ledger dispatch " + o)
    try:
        outs = run_driver(lines, exe="drv_proto")
    except DriverError as ex:
        c.error = str(ex)
        return c
    for (prog, run), line, got in zip(runs, lines, outs):
        c.evaluations += 1
        impl, mod = canonical(run, got)
        kinds, outcomes, depth = stats_of(prog)
        for k in kinds:
            c.count("action:" + k)
        for o in outcomes:
            c.count("outcome:" + o)
        c.count("depth:%d" % depth)
        c.count("frames:%s" % ("<10" if len(run.obs["wire"]) < 10 else "<40" if len(run.obs["wire"]) < 40 else ">=40"))
        for s in run.skipped:
            c.count("skipped-variant:" + s)
        for n in run.notes:
            c.count("note:" + n.split(":")[0])
        for e in run.rec.events:
            if e["t"] == "write" and e["ok"]:
                c.count("impl-frame:" + protonet.MSG_NAME.get(e["msg"], "?") + (":own" if e.get("hidden") else ""))
        c.count("usable:%s" % run.obs["usable"])
        if kinds:
            c.signatures.add("%s|%s|%d|%d" % (",".join(sorted(kinds)), ",".join(sorted(outcomes)), depth,
                                              min(len(run.obs["wire"]) // 10, 9)))
        if run.local_fired():
            c.count("configured-local-propagation:%s" % run.local.get("B"))
        if impl != mod or not (run.obs["usable"] or run.local_fired()):
            c.disagreements.append(dict(case=dict(kind="history", program=prog), impl=impl[:1500], model=mod[:1500],
                                        ops=line[:1500], notes=run.notes[:5], usable=run.obs["usable"]))
        elif len(c.samples) < 12 and c.evaluations % 97 == 5:
            c.samples.append(dict(program=prog, ops=line[:300], outcome=impl[:300]))
    # what `_dispatch_request` does per outcome class, as the model has it (the streams above exercise each on the code)
    expect = {"v": "respond %d" % consts.MSG_REPLY, "r": "respond %d" % consts.MSG_REPLY}
    for o in ("x", "b", "u", "e", "p"):
        expect[o] = "respond %d" % consts.MSG_EXCEPTION
    expect["l"] = "propagate"          # re-raised locally, as configured
    for o, got in zip(("v", "r", "x", "b", "u", "e", "p", "l"), outs[len(runs):]):
        c.evaluations += 1
        c.count("dispatch-class:" + o)
        if got != expect[o]:
            c.disagreements.append(dict(case=dict(kind="history", program=[["s", [1, [], {"u": "v"}.get(o, o)]]]),
                                        impl=expect[o], model=got, ops="ledger dispatch " + o))
    # the reply dispatched by ANOTHER thread of the requester's side inside the window of `_async_request`
    wlines, wres = [], []
    for case in window_cases():
        res = run_window(case["request"], case["gate"])           # Infrastructure propagates: exit 2
        if window_oracle(res):
            c.count("window-run-repeated")      # real threads: repeated once before it is believed
            res = run_window(case["request"], case["gate"])
        wres.append((case, res))
        if case["request"] == "two_senders":
            wlines.append("ledger run 0 0 iAa iAa dB FBv:12 dB FBv:3 dA dA")
        else:
            wlines.append("ledger run 0 0 iA%s dB FB%s:%d dA" % ("s" if case["request"] == "sync_value" else "a",
                                                                "x" if case["request"] == "async_exception" else "v",
                                                                5 if case["request"] == "async_exception" else 12))
    try:
        wouts = run_driver(wlines, exe="drv_proto")
    except DriverError as ex:
        c.error = str(ex)
        return c
    for (case, res), line, got in zip(wres, wlines, wouts):
        if res["outcome"] == "skipped":
            c.count("window:skipped")
            continue
        c.evaluations += 1
        c.count("window-gate:" + case["gate"])
        c.count("window-request:" + case["request"])
        pm = parse_model(got)
        mod = "delivered=" + ",".join(re.sub(r"^\d+", "", x) for x in (pm["resA"] if pm else ["?"]))
        impl = "delivered=" + res["outcome"]
        c.signatures.add("window|%s|%s|%s" % (case["request"], case["gate"], impl))
        if impl != mod or window_oracle(res):
            c.disagreements.append(dict(case=case, impl=impl, model=mod, ops=line,
                                        notes=["other thread's serve(): %r" % (res["pumped_dispatch"],)], usable=None))
    c.exhaustive = False
    return c


# ---------------------------------------------------------------------------------------------- direct oracle
def oracle(run):
    """the property restated on ONE real run; None if it holds, else (text, signature)"""
    rec = run.rec
    obs = run.obs
    reqs = [e for e in rec.events if e["t"] == "write" and e["ok"] and e["msg"] == consts.MSG_REQUEST
            and e.get("handler") != consts.HANDLE_CLOSE]
    resp = {}
    for e in rec.events:
        if e["t"] == "write" and e["ok"] and e["msg"] in (consts.MSG_REPLY, consts.MSG_EXCEPTION) and not e.get("injected"):
            resp.setdefault((e["side"], e["seq"]), []).append(e["msg"])
    out_of = {}     # cid -> outcome letter, from the handler log
    for e in rec.events:
        if e["t"] == "finish":
            out_of[(e["side"], e["cid"])] = (e["out"], e["payload"], bool(e.get("undec")))
    # SystemExit / KeyboardInterrupt raised where the configuration routes it locally: from then on the serving side is
    # gone by configuration; requests it had not answered yet are not the statement's business
    local = run.local_fired()
    for e in reqs:
        peer = "B" if e["side"] == "A" else "A"
        n = len(resp.get((peer, e["seq"]), []))
        if local and (n == 0 or e["side"] == "B"):
            continue      # (the side that went away may also have left its own nested requests without looking at the answer)
        who = "request seq %d of %s (%s)" % (e["seq"], e["side"], "cid %s" % e.get("cid") if not e.get("hidden") else
                                             "handler %s" % e.get("handler"))
        if n != 1:
            sig = "C08:no-response" if n == 0 else "C08:duplicate-response"
            if n == 0 and getattr(run, "b_exit", None) and not local:
                sig = "C08:request-lost-receiver-cannot-decode"
            if n == 0 and not e.get("hidden"):
                o = out_of.get((peer, e.get("cid")), ("?", 0, False))[0]
                if o == "b":
                    sig = "C08:baseexception-no-response"
                elif o == "p":
                    sig = "C08:unserializable-exception-no-response"
                elif o == "e":
                    sig = "C08:unencodable-result-no-response"
            return ("%s got %d response frames (closed: A=%s B=%s; serving thread ended with %s)"
                    % (who, n, obs["deadA"], obs["deadB"], getattr(run, "b_exit", None)), sig)
        if e.get("hidden") or e["seq"] in run.injected_seqs and e["side"] == "A":
            continue
        key = e.get("cid") if e.get("cid") is not None else e.get("label")
        if e.get("cid") is not None:
            cnt = sum(1 for (s, cid) in run.invoked if s == peer and cid == e["cid"])
            if cnt > 1:
                return ("%s was executed %d times" % (who, cnt), "C08:executed-twice")
            if cnt == 0:
                return ("%s was never executed but answered" % who, "C08:not-executed")
        got = run.outcomes.get((e["side"], key), [])
        if len(got) != 1:
            sig = "C08:requester-outcomes"
            if not got and e.get("cid") is not None and out_of.get((peer, e["cid"]), ("", 0, False))[2]:
                sig = "C08:undecodable-response-not-delivered"
            return ("%s: its requester was given %d outcomes %r" % (who, len(got), got[:3]), sig)
        kind, payload = got[0]
        wire_kind = "R" if resp[(peer, e["seq"])][0] == consts.MSG_REPLY else "X"
        if kind != wire_kind:
            sig = "C08:misrouted"
            if any("RecursionError" in n for n in run.notes):
                sig = "C08:request-lost-receiver-cannot-decode"      # the response arrived; its receiver could not decode it
            return ("%s: the response frame was %s but the requester saw %s%s" % (
                who, wire_kind, kind, " (RecursionError at the receiver)" if sig != "C08:misrouted" else ""), sig)
        if e.get("cid") is not None and (peer, e["cid"]) in out_of:
            o, p, undec = out_of[(peer, e["cid"])]
            want = {"v": "R", "r": "R"}.get(o, "X")
            if undec and kind == "X":
                continue          # the response could not be decoded here: its requester was told so (an error), as it must
            if kind == want and payload == ALTERED:
                return ("%s: the value carried by its response arrived altered at the requester" % who, "C08:response-altered")
            if kind != want or (o in ("v", "r", "x", "b") and payload != p):
                return ("%s: handler produced %s/%d, requester got %s/%d" % (who, o, p, kind, payload), "C08:misrouted")
    # a duplicate hand-built response for an answered request must not reach anybody
    for cid, (first, now) in obs.get("final", {}).items():
        if first != now and now[0] == "TO":
            return ("request cid %s was answered (%r, stored in its result) but reading the result later reports a timeout"
                    % (cid, first), "C08:stored-response-reported-as-timeout")
        if first != now:
            return ("asynchronous request cid %s was given %r and later holds %r: a second response was delivered to it"
                    % (cid, first, now), "C08:second-response-delivered")
    for (side, key), lst in run.outcomes.items():
        if len(lst) > 1:
            return ("request %s of %s was given %d outcomes" % (key, side, len(lst)), "C08:requester-outcomes")
    if local:
        return None
    if not obs["usable"] or obs["deadA"] == "T" or obs["deadB"] == "T":
        return ("connection not usable after the stream (final call ok: %s, closed A=%s B=%s, notes %s)"
                % (obs["usable"], obs["deadA"], obs["deadB"], run.notes[:3]), "C08:connection-unusable")
    return None


def shrink(prog, failing):
    """greedy: drop actions, then drop nested calls, while the oracle still fails with the same signature"""
    sig = failing
    cur = prog
    changed = True
    while changed:
        changed = False
        for i in range(len(cur)):
            cand = cur[:i] + cur[i + 1:]
            if not cand:
                continue
            try:
                res = oracle(Run(cand).execute())
            except Exception:  # noqa
                res = None
            if res and res[1] == sig:
                cur, changed = cand, True
                break
    return cur


def oracle_search(ctx, corr, broken):
    r = Rng(ctx.seed).fork("c08-search")
    deadline = time.time() + ctx.budget(60, 600)

    def check(prog):
        try:
            run = Run(prog).execute()
        except Exception:  # noqa
            return None
        res = oracle(run)
        if res and res[1] not in getattr(ctx, "known_signatures", set()):
            small = shrink(prog, res[1])
            run2 = Run(small).execute()
            res2 = oracle(run2) or res
            return (dict(kind="history", program=small), res2[0], res2[1])
        return None

    def check_window(case):
        res = run_window(case["request"], case["gate"])
        if window_oracle(res):
            res = run_window(case["request"], case["gate"])
        w = window_oracle(res)
        if w and w[1] not in getattr(ctx, "known_signatures", set()):
            return (case, w[0], w[1])
        return None

    for d in corr.disagreements[:50]:
        if d.get("case", {}).get("kind") == "window":
            f = check_window(d["case"])
            if f:
                return f
    for d in corr.disagreements[:50]:
        prog = d.get("case", {}).get("program")
        if prog:
            f = check(prog)
            if f:
                return f
    for prog in boundary_programs():
        f = check(prog)
        if f:
            return f
    for case in window_cases():
        f = check_window(case)
        if f:
            return f
    i = 0
    while time.time() < deadline:
        f = check(gen_program(r, r.choice([1, 2, 3, 5, 8]), heavy=(i % 4 == 0),
                              local=None if i % 10 else r.choice(["SystemExit", "KeyboardInterrupt"])))
        i += 1
        if f:
            return f
    return None


def replay(case):
    if case.get("kind") == "window":
        res = run_window(case["request"], case["gate"])
        w = window_oracle(res)
        return dict(case=case, implementation=res, oracle=w[0] if w else "holds")
    prog = case["program"]
    run, line = run_case(prog)
    out = dict(case=case)
    try:
        got = run_driver([line], exe="drv_proto")[0]
    except DriverError as ex:
        got = "driver: %s" % ex
    impl, mod = canonical(run, got)
    out["implementation"] = impl
    out["model"] = mod
    out["model_ops"] = line
    res = oracle(run)
    out["oracle"] = res[0] if res else "holds"
    out["notes"] = run.notes
    return out
