"""C06 — attribute access by the peer follows the connection's own policy, and only its own.

Correspondence (real rpyc vs. Rpyc.Policy through the compiled driver `drv_policy`):

* EXHAUSTIVE decision table: for every one of the 128 settings of the seven attribute switches x every prefix of
  PREFIXES x every name class x every object shape x {getattr, setattr, delattr, callattr} (+ `_handle_ctxexit`
  and `_handle_cmp` on the shapes where they apply) the REAL handler (`Connection._handle_*`, hence the real
  `_access_attr`/`_check_attr`) is called on a fresh canary object whose class logs every attribute actually
  read / written / deleted / called; the log (hasattr probes included, in order), whether an accessor or hook was
  reached, and the exception class otherwise, are compared with the model's answer line by line.
* Isolation: seeded random histories of connections (opened through the real `Connection(...)` /
  `Service._connect` with differing config dicts — literal ones and application dict OBJECTS that are edited
  before and AFTER being passed and then reused for other connections —, classic-mode connects (`SlaveService`,
  real `ClassicService` pairs via utils.factory/utils.classic), `MasterService` pairs, connections a real
  `ThreadedServer` makes from one `protocol_config` dict, several real servers constructed without a configuration
  (their `protocol_config` edited in place afterwards, connections made by each before and after), closes, and the application editing `DEFAULT_CONFIG`
  itself (restored when the case ends)); these histories are SAMPLED;
  after every event every connection's `_config` (read key by key), a panel of its decisions and `DEFAULT_CONFIG`
  are compared with the model's world, and `DEFAULT_CONFIG` is compared by deep equality with a snapshot plus
  the application's own edits.  A connection's configuration is the copy taken when it was opened.

What the harness itself decides (trusted, see TRUSTED): the mapping from a canary class to the model's object
description (which hooks the class defines = what `getattr(type(obj), "_rpyc_*attr", None)` returns; the set of
names `hasattr` is true for = `dir(obj)` of a fresh instance), and the flattening of the model's event kinds onto
what a canary can observe (a `hasattr` probe and a `getattr` access are both a read).

Direct oracle (`oracle_case`, `oracle_history`): the property statement as a Python decision table, evaluated on
the real code alone.  It is written from the statement, not from the model, and demands no more than it says.
"""
import copy
import time
import zlib

import valtext
from lineproto import run_driver, DriverError
from pipeline import Corr
from prng import Rng

ID = "C06"
LEAN_MODULE = "RpycModel.Props.C06"
NAMESPACE = "Rpyc.Props.C06"
GEN = ["Policy.lean"]
DRIVERS = ["drv_policy"]
TRUSTED = [
    "modelled, not verified: `hasattr(obj, n)`, what evaluating an attribute does besides answering (`probeExtra`) and "
    "what a user-written `_rpyc_*attr` hook does are parameters of the model (universally quantified in the theorems, "
    "read off the canary objects by the harness: dir() of a fresh instance, hooks the canary class defines; for "
    "`restricted` views the view's `__getattr__ = _rpyc_getattr` is modelled: probing a listed name reads the target); "
    "CPython's `getattr(type(obj), name, None)` lookup of type-level hooks; strict UTF-8 of `str(bytes, 'utf8')` equals "
    "the model's decoder; what getattr/setattr/delattr and calling a value do once invoked is the object's business "
    "(the check only verifies that the real handler passes their result/exception through)",
    "the harness flattens the model's events onto what a canary can observe: probe and getattr-access are both a read "
    "of that name on that object; a call is logged by the value object",
    "serving a request (`access` in the heap model) is assumed to write no configuration object. That is true of the "
    "handlers themselves; it is NOT enforced against the peer: under classic mode (and for any service exposing them) a "
    "peer may reach `conn._config`, other connections or `rpyc.core.protocol.DEFAULT_CONFIG` through "
    "`SlaveService.exposed_getconn` / `getmodule` / `eval` and edit them — that is the peer being given the process, "
    "outside this property (C07 covers what a service exposes)",
    "DEFAULT_CONFIG.copy() is shallow: the `safe_attrs` set OBJECT is shared by reference between DEFAULT_CONFIG and "
    "every connection that was not given its own (measured: Gen.initSharesDefaultSafeSet; modelled: `SafeV.dfltSet`; "
    "theorem shared_default_set_hazard shows an in-place growth reaches open connections). No rpyc code grows it "
    "(measured for the classic connect, compared deep-equal after every event of every history); application code "
    "that mutates that set in place is outside the statement (`HEvent.fair`)",
    "handlers that take no attribute name are outside this property: repr/str/hash/dir/inspect/call/buffiter/"
    "instancecheck reach an object without consulting the attribute policy or an object's hooks (C07 / C02 cover what "
    "they can do); C06 covers getattr/setattr/delattr/callattr/cmp/ctxexit/oldslicing",
    "probes are compared as SETS per request (which names were probed on which object), not their order or repetition; "
    "the accesses, hook calls and calls are compared in order",
    "a class whose METACLASS defines `_rpyc_getattr` is outside the shapes: `getattr(type(obj), '_rpyc_getattr', None)` "
    "finds the metaclass's hook bound to the class and every by-name request on its instances fails with TypeError",
    "histories are single-threaded: two concurrent classic connects sharing ONE SlaveService instance (`self._conn = "
    "conn` in on_connect) are not explored",
    "calling `SlaveService.on_connect(conn)` by hand on an established or closed connection is not a history event "
    "(the classic overrides belong to the connect); `_cleanup` keeps `_config` of a closed connection",
]
ASSUMPTIONS = [
    "the seven attribute switches are bools and exposed_prefix is a str (a non-str prefix makes `startswith` raise "
    "TypeError; not a configuration in the statement's sense)",
    "'has no effect' for a refused request means: no accessor, no hook, no call. `_check_attr` still evaluates "
    "`hasattr(obj, prefix+name)` (and `hasattr(obj, name)`) before refusing — also for writes and deletes — and hasattr "
    "runs a property getter / `__getattr__` of those two attributes; an object whose attribute LOOKUP has side effects, "
    "or raises something other than AttributeError, sees that (theorems: denied_no_effect is 'nothing but probes', and "
    "effect-free under PureProbes)",
    "a delete request on a `restricted` view is decided by the configuration about the view object; its probes read "
    "the wrapped target for LISTED names only (theorems restricted_del_*); the target is never written/deleted/called",
    "undecodable bytes names raise UnicodeDecodeError rather than TypeError (DESIGN.md C06: accepted as within the "
    "statement: refused, no effect)",
    "old-style slicing (`_handle_oldslicing`) is two call-by-name requests: a refusal of the first name is swallowed and "
    "the second peer-chosen name is tried; each follows the decision table",
]
EXPLANATION = (
    "Theorems (Lean, all configurations/names/objects/histories): _check_attr's decision as one closed formula and in "
    "the statement's words (allowed iff kind enabled and (name allowed or twin exists); which of name/twin is accessed; "
    "only AttributeError otherwise); a refused request (getattr/setattr/delattr/callattr, cmp, ctxexit, both stages of "
    "oldslicing) leaves nothing but hasattr probes of the name and its twin — no accessor, hook or call; what is read "
    "and called on success is exactly the approved name; type-level hooks make the configuration irrelevant, restricted "
    "views permit exactly attrs/wattrs — also for HANDLE_CMP requests, where the object's own read hook decides "
    "(cmp_hook_decides; cmp_bypass_counterexample is the variant before the repair) —, a delete on a view reaches the "
    "target only by reads of listed names, Service refuses writes/deletes; isolation over a HEAP of dict objects with identity (DEFAULT_CONFIG, the application's "
    "dicts, one _config chain per connection, the shared default safe_attrs set object): for the construction the "
    "generator measured on the live code (own shallow copy; classic overrides into the connection's own dict) an "
    "established connection's configuration survives every later event, rpyc never writes the modelled keys of "
    "DEFAULT_CONFIG, of a caller's dict or of another server's protocol_config (Server.__init__ does write a `logger` "
    "entry into the dict it is given), opening takes a snapshot; each state-sharing variant (aliasing DEFAULT_CONFIG / the caller's dict, a "
    "read-through mapping, classic overrides written into the caller's dict, growing the shared set) is in the model "
    "and provably breaks isolation; name typing (valid UTF-8 bytes = text, non-text TypeError, undecodable "
    "UnicodeDecodeError, all before any effect).")


# ------------------------------------------------------------------------------------------------ real code access
_MODS = []


def rpyc_mods():
    if not _MODS:
        from rpyc.core import protocol, service
        from rpyc.utils import helpers
        _MODS.append((protocol, service, helpers))
    return _MODS[0]


class DummyChannel(object):
    """a channel nothing is ever read from; close() of a connection sends its goodbye into the void"""
    def __init__(self):
        self.closed = False
        self.sent = 0

    def send(self, data):
        self.sent += 1

    def recv(self):
        raise EOFError("dummy channel")

    def poll(self, timeout):
        return False

    def close(self):
        self.closed = True

    def fileno(self):
        return -1


SWITCH_KEYS = ["allow_safe_attrs", "allow_exposed_attrs", "allow_public_attrs", "allow_all_attrs",
               "allow_getattr", "allow_setattr", "allow_delattr"]
OTHER_KEYS = ["allow_pickle", "import_custom_exceptions", "instantiate_custom_exceptions",
              "instantiate_oldstyle_exceptions"]
SHORT = dict(zip(SWITCH_KEYS + OTHER_KEYS,
                 ["safe", "exposed", "public", "all", "get", "set", "del", "pickle", "import", "inst", "oldstyle"]))


_CPS = {}


def cps(s):
    r = _CPS.get(s)
    if r is None:
        r = _CPS[s] = ",".join(str(ord(c)) for c in s)
    return r


def stok(s):
    return "S" + cps(s)


def slist(names):
    return "[ " + "".join(stok(n) + " " for n in names) + "]"


def cfg_text(cfg):
    """canonical text of the modelled part of a real config dict (same form as the driver's showCfg)"""
    def bit(k):
        v = cfg[k]
        if type(v) is not bool:
            raise ValueError("config[%r] is not a bool: %r" % (k, v))
        return "1" if v else "0"
    return "%s %s %s %s" % ("".join(bit(k) for k in SWITCH_KEYS), "".join(bit(k) for k in OTHER_KEYS),
                            stok(cfg["exposed_prefix"]), slist(sorted(cfg["safe_attrs"])))


# ------------------------------------------------------------------------------------------------ canaries
LOG = []          # (object tag, kind, name)   kind: g s d c hg hs hd
LAST = {}         # "exc": the exception the last canary accessor raised; "val": the value the last read returned


class Val(object):
    """the value stored under an attribute: callable, records being called"""
    def __init__(self, name):
        self.name = name
        self.got = None

    def __call__(self, *args, **kwargs):
        LOG.append((None, "c", self.name))
        self.got = (args, kwargs)
        return ("called", self)


class Foreign(Val):
    """stands in for an inherited, non-canary value (``__class__``, ``object.__eq__`` ...) while a request runs, so
    that calling what was read is observable like for any other attribute"""
    def __init__(self, name, wrapped):
        Val.__init__(self, name)
        self.wrapped = wrapped

    def __call__(self, *args, **kwargs):
        r = Val.__call__(self, *args, **kwargs)
        if FOREIGN_RAISES[0]:
            raise ValueError("the object's own failure")
        return r


FOREIGN_RAISES = [False]      # `oldslicing-r`: inherited values raise when called, like the canary's own


ARMED = [False]     # True only while run_real() executes the handler


def _seen(name, v):
    if ARMED[0] and not issubclass(type(v), Val):      # type(), not isinstance(): that would read v.__class__
        v = Foreign(name, v)
    LAST["val"] = v
    return v


class CanaryBase(object):
    """every attribute actually read / written / deleted on an instance is logged, then performed"""
    def __getattribute__(self, name):
        LOG.append((object.__getattribute__(self, "_tag"), "g", name))
        try:
            v = object.__getattribute__(self, name)
        except BaseException as ex:  # noqa
            LAST["exc"] = ex
            raise
        return _seen(name, v)

    def __setattr__(self, name, value):
        LOG.append((object.__getattribute__(self, "_tag"), "s", name))
        try:
            object.__setattr__(self, name, value)
        except BaseException as ex:  # noqa
            LAST["exc"] = ex
            raise

    def __delattr__(self, name):
        LOG.append((object.__getattribute__(self, "_tag"), "d", name))
        try:
            object.__delattr__(self, name)
        except BaseException as ex:  # noqa
            LAST["exc"] = ex
            raise


class Plain(CanaryBase):
    pass


class HookNone(CanaryBase):
    """hooks present on the type but set to None count as absent"""
    _rpyc_getattr = None
    _rpyc_setattr = None
    _rpyc_delattr = None


def make_hooked(g, s, d, err):
    """class with type-level hooks; each of g/s/d is None (hook not defined) or the set of names it permits"""
    ns = {}
    if g is not None:
        def _rpyc_getattr(self, name):
            LOG.append((object.__getattribute__(self, "_tag"), "hg", name))
            if name not in g:
                raise err(name)
            return getattr(self, name)
        ns["_rpyc_getattr"] = _rpyc_getattr
    if s is not None:
        def _rpyc_setattr(self, name, value):
            LOG.append((object.__getattribute__(self, "_tag"), "hs", name))
            if name not in s:
                raise err(name)
            setattr(self, name, value)
        ns["_rpyc_setattr"] = _rpyc_setattr
    if d is not None:
        def _rpyc_delattr(self, name):
            LOG.append((object.__getattribute__(self, "_tag"), "hd", name))
            if name not in d:
                raise err(name)
            delattr(self, name)
        ns["_rpyc_delattr"] = _rpyc_delattr
    return type("Hooked", (CanaryBase,), ns)


_SERVICE_CANARY = []


def service_canary_class():
    """a real rpyc Service subclass; its write/delete hooks are Service's own, made observable by a logging wrapper
    (only for the hooks Service really defines)"""
    if not _SERVICE_CANARY:
        _protocol, service, _helpers = rpyc_mods()
        ns = {}
        for hook, kind in (("_rpyc_getattr", "hg"), ("_rpyc_setattr", "hs"), ("_rpyc_delattr", "hd")):
            orig = getattr(service.Service, hook, None)
            if orig is not None:
                def wrapper(self, name, *args, _orig=orig, _kind=kind):
                    LOG.append((object.__getattribute__(self, "_tag"), _kind, name))
                    return _orig(self, name, *args)
                ns[hook] = wrapper
        _SERVICE_CANARY.append(type("SvcCanary", (CanaryBase, service.Service), ns))
    return _SERVICE_CANARY[0]


FALLBACK = "getslice_fb"          # the second, peer-chosen name of `_handle_oldslicing`; every canary has it


class RaisingVal(Val):
    """a value whose call raises (after being logged): makes the first stage of oldslicing fail in the call"""
    def __call__(self, *args, **kwargs):
        Val.__call__(self, *args, **kwargs)
        raise ValueError("the object's own failure")


RAISING = [False]       # build the shapes' name/twin values as RaisingVal


def fill(obj, tag, names):
    object.__setattr__(obj, "_tag", tag)
    for n in list(names) + [FALLBACK]:
        try:
            object.__setattr__(obj, n, RaisingVal(n) if (RAISING[0] and n != FALLBACK) else Val(n))
        except TypeError:
            pass                    # e.g. __class__: inherited, cannot hold a canary value; the object has it anyway
    return obj


def dir_names(obj):
    """names hasattr() is true for on a fresh canary instance (the `has` the model is given)"""
    n = len(LOG)
    names = sorted(set(x for x in dir(obj) if type(x) is str))
    del LOG[n:]
    return names


def instrument_view(view, tag):
    """make reads/deletes on a `restricted` view and the calls of its hooks observable"""
    cls = type(view)

    def vget(self, name):
        LOG.append((tag, "g", name))
        return object.__getattribute__(self, name)

    def vdel(self, name):
        LOG.append((tag, "d", name))
        try:
            object.__delattr__(self, name)
        except BaseException as ex:  # noqa
            LAST["exc"] = ex
            raise
    cls.__getattribute__ = vget
    cls.__delattr__ = vdel
    for hook, kind in (("_rpyc_getattr", "hg"), ("_rpyc_setattr", "hs"), ("_rpyc_delattr", "hd")):
        orig = cls.__dict__.get(hook)
        if orig is not None:
            def wrapper(self, name, *args, _orig=orig, _kind=kind):
                LOG.append((tag, _kind, name))
                return _orig(self, name, *args)
            setattr(cls, hook, wrapper)
    return view


class Shape(object):
    """a way of building a fresh real object + its description for the model, given the name and the twin"""
    def __init__(self, key, kind, has, **kw):
        self.key, self.kind, self.has, self.kw = key, kind, has, kw

    def attr_names(self, name, twin):
        out = []
        if "n" in self.has:
            out.append(name)
        if "t" in self.has and twin not in out:
            out.append(twin)
        return out

    def build(self, name, twin):
        """-> (object handed to the handler, description line(s) builder input)"""
        names = self.attr_names(name, twin)
        k = self.kind
        if k == "plain":
            return fill(Plain(), 0, names)
        if k == "hooknone":
            return fill(HookNone(), 0, names)
        if k == "insthook":
            o = fill(Plain(), 0, names)
            for h in ("_rpyc_getattr", "_rpyc_setattr", "_rpyc_delattr"):
                object.__setattr__(o, h, lambda *a: ("instance-level hook must never run",))
            return o
        if k == "service":
            return fill(service_canary_class()(), 0, names)
        if k == "hooked":
            g, s, d = [None if x is None else (set([name]) if x == "n" else set()) for x in self.kw["hooks"]]
            cls = make_hooked(g, s, d, self.kw.get("err", AttributeError))
            return fill(cls(), 0, names)
        if k == "restricted":
            _p, _s, helpers = rpyc_mods()
            target = fill(Plain(), 1, names)
            attrs = [name] if "n" in self.kw["attrs"] else ["other_attr"]
            if self.kw["wattrs"] is None:
                view = helpers.restricted(target, attrs)
            else:
                view = helpers.restricted(target, attrs, [name] if "n" in self.kw["wattrs"] else [])
            return instrument_view(view, 0)
        raise ValueError(k)

    def describe(self, name, twin):
        """`policy obj ...` lines for the model"""
        obj = self.build(name, twin)
        k = self.kind
        if k in ("plain", "hooknone", "insthook"):
            return ["policy obj 0 plain " + slist(dir_names(obj))]
        if k == "service":
            return ["policy obj 0 service " + slist(dir_names(obj))]
        if k == "hooked":
            toks = []
            for x in self.kw["hooks"]:
                if x is None:
                    toks.append("-")
                else:
                    toks.append("L %s %s" % (self.kw.get("err", AttributeError).__name__, slist([name] if x == "n" else [])))
            return ["policy obj 0 hooked %s %s" % (slist(dir_names(obj)), " ".join(toks))]
        if k == "restricted":
            names = self.attr_names(name, twin)
            attrs = [name] if "n" in self.kw["attrs"] else ["other_attr"]
            w = "N" if self.kw["wattrs"] is None else slist([name] if "n" in self.kw["wattrs"] else [])
            # hasattr(view, n): class/instance attributes of the view, plus (via __getattr__) listed names the target has
            vn = sorted(set(object.__dir__(obj)))       # what the view has ITSELF; listed names go through __getattr__
            del LOG[:]
            return ["policy obj 1 plain " + slist(dir_names(fill(Plain(), 1, names))),
                    "policy obj 0 restricted 1 %s %s %s" % (slist(attrs), w, slist(vn))]
        raise ValueError(k)


SHAPES = [
    Shape("has-name", "plain", "n"),
    Shape("has-twin", "plain", "t"),
    Shape("has-both", "plain", "nt"),
    Shape("has-neither", "plain", ""),
    Shape("hooks-allow-name", "hooked", "nt", hooks=("n", "n", "n")),
    Shape("hooks-deny-all-ValueError", "hooked", "nt", hooks=("", "", ""), err=ValueError),
    Shape("get-hook-only", "hooked", "nt", hooks=("n", None, None)),
    Shape("restricted-attrs-name", "restricted", "nt", attrs="n", wattrs=None),
    Shape("restricted-wattrs-name", "restricted", "nt", attrs="", wattrs="n"),
    Shape("restricted-readonly", "restricted", "nt", attrs="n", wattrs=""),
    Shape("service-subclass", "service", "nt"),
    Shape("hook-is-None", "hooknone", "nt"),
    Shape("instance-level-hook", "insthook", "n"),
]
SHAPE_BY_KEY = dict((s.key, s) for s in SHAPES)


class StrSub(str):
    pass


class BytesSub(bytes):
    pass


OTHER_NAMES = {
    "int": lambda: 5, "none": lambda: None, "str-subclass": lambda: StrSub("foo"),
    "bytes-subclass": lambda: BytesSub(b"foo"), "bytearray": lambda: bytearray(b"foo"),
    "tuple": lambda: ("foo",), "bool": lambda: True, "float": lambda: 1.5,
}


def name_classes(p):
    """(class key, the `name` argument) for prefix p"""
    out = [
        ("prefixed", p + "foo"), ("prefixed-twice", p + p + "foo"), ("equal-to-prefix", p), ("public", "foo"),
        ("safe-listed-plain", "next"), ("single-underscore", "_x"), ("underscore-only", "_"),
        ("underscore-then-prefix", "_" + p + "foo"), ("dunder-not-safe", "__secret__"),
        ("dunder-not-safe-inherited", "__class__"), ("dunder-safe-inherited", "__eq__"),
        ("dunder-safe", "__getitem__"), ("dunder-exit", "__exit__"), ("empty", ""), ("non-ascii", "café"),
        ("astral", "\U0001F600x"), ("lone-surrogate-text", "a\ud800"), ("nul-inside", "a\x00b"),
        ("bytes-public", b"foo"), ("bytes-prefixed", (p + "foo").encode("utf8")), ("bytes-underscore", b"_x"),
        ("bytes-safe", b"__eq__"), ("bytes-non-ascii", "café".encode("utf8")), ("bytes-empty", b""),
        ("bytes-invalid-ff", b"\xff\xfe"), ("bytes-overlong", b"\xc0\xaf"), ("bytes-surrogate", b"\xed\xa0\x80"),
        ("bytes-truncated", b"fo\xe2\x82"), ("bytes-5byte", b"\xf8\x88\x80\x80\x80"), ("bytes-beyond-10ffff", b"\xf4\x90\x80\x80"),
    ]
    out += [(k, mk()) for k, mk in sorted(OTHER_NAMES.items())]
    # operator names a peer may put into a HANDLE_CMP request beyond the six comparisons (used for cmp only)
    out += [("cmpop-delitem", "__delitem__"), ("cmpop-setitem", "__setitem__"), ("cmpop-getattribute", "__getattribute__"),
            ("cmpop-lt", "__lt__"), ("cmpop-init", "__init__")]
    return out


def name_token(name):
    t = type(name)
    if t is str:
        return stok(name)
    if t is bytes:
        return "B" + name.hex()
    return "O"


def decoded_or_fallback(name):
    """the text the shapes are built around: the name if it is text, its decoding if it is valid UTF-8, else 'zz'"""
    if type(name) is str:
        return name
    if type(name) is bytes:
        try:
            return name.decode("utf8")
        except UnicodeDecodeError:
            return "zz"
    return "zz"


REQS = ["getattr", "setattr", "delattr", "callattr"]
OLD_R_SHAPES = ("has-name", "has-both", "hooks-allow-name")


def build_for(shape, req, text, twin):
    """fresh real object for one request (values raise when called for `oldslicing-r`)"""
    RAISING[0] = req == "oldslicing-r"
    try:
        return shape.build(text, twin)
    finally:
        RAISING[0] = False

CALL_ARGS = (1, "two")
CALL_KWARGS = (("k", 3),)


def run_real(conn, obj, req, name):
    """call the real handler; -> canonical line `<log> -> invoked | err <Class>` (+ ' !passthrough: ..' if the handler
    did not hand the accessor's own result/exception through)"""
    del LOG[:]
    LAST.clear()
    newval = Val("<new>")
    note = ""
    ARMED[0] = True
    FOREIGN_RAISES[0] = req == "oldslicing-r"
    try:
        if req == "getattr":
            res = conn._handle_getattr(obj, name)
            if res is not LAST.get("val"):
                note = " !passthrough: getattr result is not the value read"
        elif req == "setattr":
            res = conn._handle_setattr(obj, name, newval)
            if res is not None:
                note = " !passthrough: setattr returned %r" % (res,)
        elif req == "delattr":
            res = conn._handle_delattr(obj, name)
            if res is not None:
                note = " !passthrough: delattr returned %r" % (res,)
        elif req == "callattr":
            res = conn._handle_callattr(obj, name, CALL_ARGS, CALL_KWARGS)
            v = LAST.get("val")
            if not (type(res) is tuple and len(res) == 2 and res[1] is v and v.got == (CALL_ARGS, dict(CALL_KWARGS))):
                note = " !passthrough: callattr did not call the value read with the given arguments"
        elif req == "ctxexit":
            res = conn._handle_ctxexit(obj, None)
            v = LAST.get("val")
            if not (type(res) is tuple and len(res) == 2 and res[1] is v and v.got == ((None, None, None), {})):
                note = " !passthrough: ctxexit did not call __exit__(None, None, None)"
        elif req in ("oldslicing", "oldslicing-r"):
            res = conn._handle_oldslicing(obj, name, FALLBACK, 1, 5, ("x",))
            v = LAST.get("val")
            if not (type(res) is tuple and len(res) == 2 and res[1] is v
                    and v.got in (((slice(1, 5), "x"), {}), ((1, 5, "x"), {}))):
                note = " !passthrough: oldslicing did not call the value read with the slice arguments"
        elif req == "cmp":
            other = object()
            res = conn._handle_cmp(obj, other, name)
            v = LAST.get("val")
            got_args = v.got[0] if issubclass(type(v), Val) and v.got else None      # compare by identity: `==` would call
            called_ok = got_args is not None and not v.got[1] and (             # the canary's own __eq__
                (len(got_args) == 2 and got_args[0] is obj and got_args[1] is other)
                or (len(got_args) == 1 and got_args[0] is other))
            if not (type(res) is tuple and len(res) == 2 and res[1] is v and called_ok):
                note = " !passthrough: cmp did not call <op>(obj, other) / the hook's bound <op>(other)"
        else:
            raise ValueError(req)
        out = "invoked"
    except BaseException as ex:  # noqa
        if ex is LAST.get("exc"):
            out = "invoked"          # the accessor ran; the exception is the object's own
        else:
            out = "err " + valtext.err_name(ex)
    finally:
        ARMED[0] = False
        FOREIGN_RAISES[0] = False
    return show_log(LOG) + "-> " + out + note


def show_log(log):
    out = []
    for tag, kind, name in log:
        nm = cps(name) if type(name) is str else "NONTEXT"      # e.g. type(view).__getattribute__(view, <other>)
        if kind == "c":
            out.append("c:" + nm)
        else:
            out.append("%s%d:%s" % (kind, tag, nm))
    return "".join(x + " " for x in out)


def flatten_model(line):
    """model line -> what a canary can observe"""
    if " -> " in line:
        evs, out = line.split(" -> ")
        evs = evs.split()
    elif line.startswith("-> "):
        evs, out = [], line[3:]
    else:
        return line
    flat = []
    for e in evs:
        head, _, rest = e.partition(":")
        kind, tag = head[0], head[1:]
        if kind == "p":
            flat.append("g%s:%s" % (tag, rest))
        elif kind == "a":
            op, _, nm = rest.partition(":")
            flat.append("%s%s:%s" % (op[0], tag, nm))
        elif kind == "h":
            op, _, nm = rest.partition(":")
            flat.append("h%s%s:%s" % (op[0], tag, nm))
        elif kind == "c":
            flat.append("c:" + rest)
        else:
            flat.append("?" + e)
    return "".join(x + " " for x in flat) + "-> " + ("invoked" if out.startswith("ok ") else out)


_CANON = {}


def canon(line):
    r = _CANON.get(line)
    if r is None:
        if len(_CANON) > 200000:
            _CANON.clear()
        r = _CANON[line] = _canon(line)
    return r


def _canon(line):
    """the compared form of an output line: `hasattr` probes as a SET (their order and repetition are not part of the
    property: a rewrite that probes the name before the twin is harmless), everything else in order.  A read counts as
    the ACCESS (kept in place) when a call follows it, when a hook call precedes it, or when it is the last event of
    an `invoked` line; every other read is a probe."""
    evs, sep, out = line.rpartition("-> ")
    if not sep:
        return line
    toks = evs.split()
    probes, rest = set(), []
    for i, t in enumerate(toks):
        if t.startswith("g") and t[1:2].isdigit():
            nxt = toks[i + 1] if i + 1 < len(toks) else None
            prv = toks[i - 1] if i > 0 else None
            is_access = (nxt is not None and nxt.startswith("c:")) or (prv is not None and prv.startswith("hg")) \
                or (nxt is None and out.startswith("invoked"))
            if not is_access:
                probes.add(t)
                continue
        rest.append(t)
    return "P{%s} %s-> %s" % (" ".join(sorted(probes)), "".join(t + " " for t in rest), out)


def observable(shape, line):
    """a restricted view's `__getattr__` reading the target while `hasattr(view, ..)` is probed is modelled
    (`probeExtra`) and compared like everything else.  Only for a view handed to `_handle_cmp`: reads of its CLASS
    (`Restricted`, a plain `type`) cannot be logged, so events of object 3 are dropped from the model's line."""
    if getattr(shape, "kind", None) != "cmp-view":
        return line
    evs, _, out = line.rpartition("-> ")
    toks = [t for t in evs.split() if not (t[:1] in "gsdh" and t.split(":")[0].endswith("3"))]
    return "".join(t + " " for t in toks) + "-> " + out


# ------------------------------------------------------------------------------------------------ configurations
CUSTOM_SAFE = ["foo", "_x", "__secret__", "exposed_foo"]      # thorough tier: a caller-supplied safe_attrs
PREFIXES_QUICK = ["exposed_", "x", ""]
PREFIXES_THOROUGH = ["exposed_", "x", "", "_", "__", "foo", "é_"]


def all_bits():
    for m in range(128):
        yield [bool(m >> (6 - i) & 1) for i in range(7)]


def make_conn(cfg, root=None):
    protocol, service, _h = rpyc_mods()
    return protocol.Connection(root if root is not None else service.VoidService(), DummyChannel(), cfg)


def cfg_dict(bits, prefix, safe=None):
    d = dict(zip(SWITCH_KEYS, bits))
    d["exposed_prefix"] = prefix
    if safe is not None:
        d["safe_attrs"] = set(safe)
    return d


def bits_str(bits):
    return "".join("1" if b else "0" for b in bits)


# ------------------------------------------------------------------------------------------------ meta canary (cmp)
HOOK_NAMES = ("_rpyc_getattr", "_rpyc_setattr", "_rpyc_delattr")


class MetaCanary(type):
    """type(obj) is what `_handle_cmp` hands to `_access_attr`: class-level reads are logged"""
    def __getattribute__(cls, name):
        if name in HOOK_NAMES:
            return type.__getattribute__(cls, name)      # looking a hook up on the class is not an attribute request
        LOG.append((3, "g", name))
        try:
            v = type.__getattribute__(cls, name)
        except BaseException as ex:  # noqa
            LAST["exc"] = ex
            raise
        return _seen(name, v)


class MetaHooked(MetaCanary):
    """a metaclass that defines the read hook: it decides for reads of its classes' attributes"""
    def _rpyc_getattr(cls, name):
        LOG.append((3, "hg", name))
        if name != type.__getattribute__(cls, "_permit"):
            raise AttributeError(name)
        return getattr(cls, name)


class _CmpView(object):
    """marker shape: a restricted view handed to `_handle_cmp`; reads of its CLASS (object 3) cannot be observed"""
    kind = "cmp-view"
    key = "restricted-view"


CMP_VIEW = _CmpView()


def build_cmp_object(kind, has, name, twin):
    """-> (the object handed to `_handle_cmp`, model lines defining object 0 = the instance and object 3 = its type)"""
    names = []
    if "n" in has:
        names.append(name)
    if "t" in has and twin not in names:
        names.append(twin)
    if kind == "view":
        _p, _s, helpers = rpyc_mods()
        target = fill(Plain(), 1, names)
        view = instrument_view(helpers.restricted(target, [name]), 0)
        vn = sorted(set(object.__dir__(view)))
        del LOG[:]
        tnames = sorted(set(x for x in dir(type(view)) if type(x) is str))
        return view, ["policy obj 1 plain " + slist(dir_names(fill(Plain(), 1, names))),
                      "policy obj 0 restricted 1 %s N %s" % (slist([name]), slist(vn)),
                      "policy obj 3 plain " + slist(tnames)]
    # names the interpreter itself uses on the class are not overridden with canary values (the class has them anyway,
    # by inheritance; reads of them are still logged and wrapped)
    ns = dict((n, Val(n)) for n in names if n not in ("__getattribute__", "__setattr__", "__delattr__", "__init__",
                                                      "__new__", "__class__", "__dict__"))
    ns["_permit"] = name
    bases = (CanaryBase,)
    inst_hook = None
    if kind in ("inst-hook-allow", "inst-hook-deny", "inst-hook-deny-valueerror"):
        err = ValueError if kind.endswith("valueerror") else AttributeError
        permitted = set([name]) if kind == "inst-hook-allow" else set()

        def _rpyc_getattr(self, attr):
            LOG.append((0, "hg", attr))
            if attr not in permitted:
                raise err(attr)
            return getattr(self, attr)
        ns["_rpyc_getattr"] = _rpyc_getattr
        inst_hook = (err.__name__, sorted(permitted))
    if kind == "service":
        bases = (CanaryBase, rpyc_mods()[1].Service)
    meta = MetaHooked if kind == "meta-hooked" else MetaCanary
    cls = meta("CmpCanary", bases, ns)
    n0 = len(LOG)
    cnames = sorted(set(x for x in dir(cls) if type(x) is str))
    del LOG[n0:]
    inst = fill(object.__new__(cls), 0, [])       # not cls(): `__init__` may be one of the canary values
    inames = dir_names(inst)
    if kind == "meta-hooked":
        tline = "policy obj 3 hooked %s L AttributeError %s - -" % (slist(cnames), slist([name]))
    else:
        tline = "policy obj 3 plain " + slist(cnames)
    if inst_hook is not None:
        oline = "policy obj 0 hooked %s L %s %s - -" % (slist(inames), inst_hook[0], slist(inst_hook[1]))
    elif kind == "service":
        oline = "policy obj 0 service " + slist(inames)
    else:
        oline = "policy obj 0 plain " + slist(inames)
    return inst, [oline, tline]


CMP_SHAPES = [("type-has-name", "plain", "n"), ("type-has-twin", "plain", "t"), ("type-has-both", "plain", "nt"),
              ("type-has-neither", "plain", ""),
              # (no metaclass-hook shape: `getattr(type(obj), "_rpyc_getattr", None)` finds a METACLASS's hook bound to
              #  the class, so instances of such classes already fail every by-name request with TypeError)
              ("instance-hook-allows-name", "inst-hook-allow", "nt"), ("instance-hook-refuses", "inst-hook-deny", "nt"),
              ("instance-hook-refuses-ValueError", "inst-hook-deny-valueerror", "n"),
              ("restricted-view", "view", "nt"), ("service-instance", "service", "nt")]
CMP_KIND = dict((k, (kd, hs)) for k, kd, hs in CMP_SHAPES)


# ------------------------------------------------------------------------------------------------ the exhaustive table
def table_cases(prefixes, shapes=None, name_filter=None, safe=None):
    """yields (case dict, model setup lines, model op line, thunk running the real code -> canonical line, shape);
    `safe`: a custom safe_attrs list instead of the default one"""
    for p in prefixes:
        conns = []
        for bits in all_bits():
            conns.append((bits, make_conn(cfg_dict(bits, p, safe))))
        try:
            cfg_lines = ["policy cfg %d %s" % (i, cfg_line_of(c)) for i, (_b, c) in enumerate(conns)]
            for ckey, name in name_classes(p):
                if name_filter and ckey not in name_filter:
                    continue
                text = decoded_or_fallback(name)
                twin = p + text
                tok = name_token(name)
                for shape in ([] if ckey.startswith("cmpop-") else (shapes or SHAPES)):
                    setup = shape.describe(text, twin)
                    reqs = REQS + ["oldslicing"] + (["oldslicing-r"] if shape.key in OLD_R_SHAPES else []) \
                        + (["ctxexit"] if ckey == "dunder-exit" else [])
                    for i, (bits, conn) in enumerate(conns):
                        for req in reqs:
                            case = dict(kind="input", prefix=p, bits=bits_str(bits), name_class=ckey,
                                        name=tok, shape=shape.key, req=req)
                            if safe is not None:
                                case["safe"] = list(safe)
                            if req == "ctxexit":
                                line = "policy ctx %d 0" % i
                            elif req in ("oldslicing", "oldslicing-r"):
                                line = "policy old %d 0 %s %s %s" % (i, tok, stok(FALLBACK),
                                                                     "T" if req == "oldslicing-r" else "F")
                            else:
                                line = "policy acc %d 0 %s %s" % (i, req, tok)
                            yield (case, cfg_lines, setup, line,
                                   (lambda conn=conn, shape=shape, req=req, name=name, text=text, twin=twin:
                                    run_real(conn, build_for(shape, req, text, twin), req, name)), shape)
                        cfg_lines = []
                        setup = []
                for skey, kind, has in CMP_SHAPES:
                    if kind not in ("plain", "meta-hooked") and type(name) is not str:
                        continue          # name typing precedes everything: covered on the five type-level shapes
                    inst, setup = build_cmp_object(kind, has, text, twin)     # reads only: one object serves all
                    for i, (bits, conn) in enumerate(conns):
                        case = dict(kind="input", prefix=p, bits=bits_str(bits), name_class=ckey, name=tok,
                                    shape=skey, req="cmp")
                        if safe is not None:
                            case["safe"] = list(safe)
                        yield (case, cfg_lines, setup, "policy cmp %d 0 3 %s" % (i, tok),
                               (lambda conn=conn, inst=inst, name=name: run_real(conn, inst, "cmp", name)),
                               CMP_VIEW if kind == "view" else None)
                        cfg_lines = []
                        setup = []
        finally:
            for _b, c in conns:
                c.close()


def cfg_line_of(conn):
    """`<bits7> <bits4> <prefix> D|[..]` of a REAL connection's config (read after construction)"""
    protocol, _s, _h = rpyc_mods()
    t = cfg_text(conn._config)
    b7, b4, pfx, rest = t.split(" ", 3)
    if conn._config["safe_attrs"] == protocol.DEFAULT_CONFIG["safe_attrs"] and \
            sorted(conn._config["safe_attrs"]) == sorted(protocol.DEFAULT_CONFIG["safe_attrs"]):
        rest = "D"
    return "%s %s %s %s" % (b7, b4, pfx, rest)


def abstract(line, text, twin):
    """output line with the concrete names replaced by N (name) / T (twin) for the distinctness signature"""
    n, t = cps(text), cps(twin)
    toks = []
    for tok in line.split(" "):
        if ":" in tok and not tok.startswith("!"):
            head, _, nm = tok.rpartition(":")
            toks.append(head + ":" + ("N" if nm == n else "T" if nm == t else "?"))
        else:
            toks.append(tok)
    return " ".join(toks)


# ------------------------------------------------------------------------------------------------ histories
PANEL_NAMES = ["foo", "bar", "_x", "__secret__", "__eq__", "next"]
HISTORY_PREFIXES = ["exposed_", "x", "", "get_"]


def panel_object(kind):
    """fresh objects the panel requests are made on; attribute sets are fixed (twins for every HISTORY_PREFIX)"""
    names = ["foo", "_x", "__secret__", "exposed_bar", "xbar", "get_bar", "exposed_foo", "x_x", "other_attr"]
    if kind == "plain":
        return fill(Plain(), 0, names)
    if kind == "service":
        return fill(service_canary_class()(), 0, names)
    if kind == "view":
        _p, _s, helpers = rpyc_mods()
        return instrument_view(helpers.restricted(fill(Plain(), 1, names), ["foo"], ["bar"]), 0)
    raise ValueError(kind)


PANEL = [("plain", "getattr", "foo"), ("plain", "getattr", "bar"), ("plain", "callattr", "bar"),
         ("plain", "setattr", "foo"), ("plain", "delattr", "_x"), ("plain", "getattr", "__secret__"),
         ("plain", "getattr", b"_x"), ("plain", "setattr", "brand_new"), ("plain", "getattr", "next"),
         ("service", "setattr", "foo"), ("service", "getattr", "bar"), ("view", "getattr", "foo"),
         ("view", "getattr", "_x"), ("view", "delattr", "foo")]
PANEL_OBJ_ID = {"plain": 10, "service": 11, "view": 12}


def panel_setup_lines():
    out = []
    o = panel_object("plain")
    out.append("policy obj 10 plain " + slist(dir_names(o)))
    o = panel_object("service")
    out.append("policy obj 11 service " + slist(dir_names(o)))
    v = panel_object("view")
    tnames = ["foo", "_x", "__secret__", "exposed_bar", "xbar", "get_bar", "exposed_foo", "x_x", "other_attr"]
    vn = sorted(set(object.__dir__(v)))
    del LOG[:]
    out.append("policy obj 1 plain " + slist(dir_names(fill(Plain(), 1, tnames))))
    # the view is object 0 in its own log; the driver numbers it 12 -> renumbered when compared
    out.append("policy obj 12 restricted 1 %s %s %s" % (slist(["foo"]), slist(["bar"]), slist(vn)))
    return out


def renumber(line, frm, to):
    """object tag `frm` -> `to` in an output line"""
    toks = []
    for t in line.split(" "):
        head, sep, rest = t.partition(":")
        if sep and head and head[-1].isdigit():
            i = len(head)
            while i > 0 and head[i - 1].isdigit():
                i -= 1
            if head[i:] == str(frm):
                t = head[:i] + str(to) + ":" + rest
        toks.append(t)
    return " ".join(toks)


def gen_overlay(r):
    ov = {}
    for k in SWITCH_KEYS + OTHER_KEYS:
        if r.chance(1, 3):
            ov[k] = r.chance(1, 2)
    if r.chance(1, 3):
        ov["exposed_prefix"] = r.choice(HISTORY_PREFIXES)
    if r.chance(1, 6):
        ov["safe_attrs"] = sorted(r.choice([["foo"], ["_x", "next"], [], ["__secret__", "bar"]]))
    if r.chance(1, 4):
        ov["sync_request_timeout"] = r.range(1, 90)      # keys the policy does not read
    if r.chance(1, 6):
        ov["connid"] = "c%d" % r.below(100)
    return ov


def gen_env_overlay(r):
    """a small edit of a settings dict / of DEFAULT_CONFIG: a few switches, sometimes the prefix or the safe list"""
    ov = {}
    for k in r.shuffle(list(SWITCH_KEYS))[:r.range(1, 3)]:
        ov[k] = r.chance(1, 2)
    if r.chance(1, 4):
        ov["exposed_prefix"] = r.choice(HISTORY_PREFIXES)
    if r.chance(1, 8):
        ov["safe_attrs"] = sorted(r.choice([["foo"], ["_x", "next"], ["__secret__", "bar"]]))
    if r.chance(1, 8):
        ov[r.choice(OTHER_KEYS)] = r.chance(1, 2)
    return ov


N_DICTS = 2
N_SERVERS = 3
CLASSIC_KINDS = ("slave", "slave-noarg", "classic-pair")       # connection kinds whose local service grants itself classic mode


def gen_history(r):
    """events: open (literal dict) / openwith (an application dict OBJECT that may be edited before and AFTER, and
    reused for several connections, classic and plain) / close / edit (the application edits dict object d) / setdefault (the
    application edits DEFAULT_CONFIG; restored when the case ends) / check"""
    slots = r.range(2, 5)
    state = ["fresh"] * slots
    evs = []
    if r.chance(2, 3):
        # applications keep ONE settings dict and pass it to several connections: give it content first
        ov = gen_overlay(r)
        ov.setdefault(r.choice(SWITCH_KEYS), r.chance(1, 2))
        evs.append(["edit", 0, ov])
    servers = {}            # k -> service kind ("void" | "slave") of the real servers constructed so far
    if r.chance(1, 3):
        # two servers constructed without a configuration; the first one's protocol_config is edited in place; the
        # second is constructed before or after that; each then makes a connection
        servers[0] = r.choice(["void", "void", "slave"])
        servers[1] = r.choice(["void", "void", "slave"])
        later = r.chance(1, 2)
        evs.append(["newserver", 0, None, servers[0]])
        if not later:
            evs.append(["newserver", 1, None, servers[1]])
        if r.chance(1, 3):
            evs.append(["srvconn", 0, 1 if not later else 0, servers[1 if not later else 0]])
            state[0] = "live"
        ov = gen_env_overlay(r)
        ov.setdefault(r.choice(["allow_public_attrs", "allow_all_attrs", "allow_setattr"]), True)
        evs.append(["editserver", 0, ov])
        if later:
            evs.append(["newserver", 1, None, servers[1]])
        order = [1, 0] if r.chance(2, 3) else [0, 1]
        for sk in order[:r.range(1, 2)]:
            free = [x for x in range(slots) if state[x] == "fresh"]
            if free:
                evs.append(["srvconn", free[0], sk, servers[sk]])
                state[free[0]] = "live"
    for _ in range(r.range(3, 14)):
        i = r.below(slots)
        k = r.below(10)
        e = r.below(14)
        if e >= 12:
            # real servers: constructed without a protocol_config (mostly) or with an application dict object; edited
            # in place afterwards (`server.protocol_config[...] = ...`, the idiom of the library's own tests)
            if len(servers) < N_SERVERS and (not servers or r.chance(1, 2)):
                sk = len(servers)
                servers[sk] = r.choice(["void", "void", "slave"]) if not r.chance(1, 12) else "void-pool"
                evs.append(["newserver", sk, None if r.chance(3, 4) else r.below(N_DICTS), servers[sk]])
            else:
                evs.append(["editserver", r.choice(sorted(servers)), gen_env_overlay(r)])
        elif state[i] == "fresh" and servers and r.chance(1, 3):
            sk = r.choice(sorted(servers))
            evs.append(["srvconn", i, sk, servers[sk]])
            state[i] = "live"
        elif e < 2:
            evs.append(["edit", r.below(N_DICTS), gen_env_overlay(r) if r.chance(2, 3) else gen_overlay(r)])
        elif e == 2:
            evs.append(["setdefault", gen_env_overlay(r)])
        elif state[i] == "fresh":
            kind = r.choice(["direct", "void", "slave", "slave", "custom", "classic-pair", "master-pair", "server"])
            if r.chance(1, 8):
                # no config argument at all (the constructors' own `config={}` default object)
                evs.append(["open", i, {}, r.choice(["void-noarg", "void-noarg", "slave-noarg"])])
            elif r.chance(3, 5):
                evs.append(["openwith", i, 0 if r.chance(2, 3) else r.below(N_DICTS), kind])
            else:
                evs.append(["open", i, gen_overlay(r), kind])
            state[i] = "live"
        elif state[i] == "live":
            if k < 3:
                evs.append(["close", i])
                state[i] = "closed"
            else:
                evs.append(["check"])
        else:
            evs.append(["check"])
    return dict(kind="history", slots=slots, events=evs)


def to_real_dict(ov):
    d = dict(ov)
    if "safe_attrs" in d:
        d["safe_attrs"] = set(d["safe_attrs"])
    return d


def overlay_tokens(ov):
    toks = []
    for k in SWITCH_KEYS + OTHER_KEYS:
        if k in ov:
            toks.append("%s %s" % (SHORT[k], "T" if ov[k] else "F"))
    if "exposed_prefix" in ov:
        toks.append("prefix " + stok(ov["exposed_prefix"]))
    if "safe_attrs" in ov:
        toks.append("safelist " + slist(sorted(ov["safe_attrs"])))
    return " ".join(toks)


def reset_mutable_defaults():
    """every history starts from a clean process as far as the harness can arrange it: dict objects that live in the
    DEFAULT ARGUMENTS of the constructors/connect functions (`config={}` ...) survive from one case to the next, so
    whatever an earlier case (or a defect) left in them is removed — a replay of one history then stands on its own"""
    protocol, service, _h = rpyc_mods()
    from rpyc.utils import server as server_mod, factory
    fns = [protocol.Connection.__init__, server_mod.Server.__init__]
    c = vars(service.Service).get("_connect")
    fns.append(getattr(c, "func", getattr(c, "__func__", None)))
    fns += [getattr(factory, n) for n in dir(factory) if n.startswith("connect")]
    for fn in fns:
        for d in (getattr(fn, "__defaults__", None) or ()) + tuple((getattr(fn, "__kwdefaults__", None) or {}).values()):
            if isinstance(d, dict) and d:
                d.clear()


def close_conn(conn):
    """close a connection made by HistoryRun.open_conn (pairs live on their own in-memory network)"""
    net = getattr(conn, "_c06_net", None)
    if net is None:
        conn.close()
        return
    with net.installed():
        try:
            conn.close()
        finally:
            net.shutdown()


class HistoryRun(object):
    """executes a history on the real code; yields per-step observations in the model's text form"""
    def __init__(self, hist):
        self.hist = hist
        self.conns = [None] * hist["slots"]
        self.dicts = [dict() for _ in range(N_DICTS)]       # the application's settings-dict OBJECTS
        self.servers, self.captured, self.socks, self.keep = {}, [], [], []
        self.srv = {}            # k -> real server object made by a `newserver` event
        self.pools = []
        protocol, service, _h = rpyc_mods()
        self.protocol, self.service = protocol, service

        class CustomService(service.Service):
            seen = []

            def on_connect(self, conn):
                CustomService.seen.append(conn._config["allow_all_attrs"])      # reads, never writes
        self.custom = CustomService

    def open_conn(self, kind, cfg):
        """establish a real connection of the given kind with the given config dict OBJECT"""
        protocol, service = self.protocol, self.service
        if kind == "direct":
            return protocol.Connection(service.VoidService(), DummyChannel(), cfg)
        if kind == "void":
            return service.VoidService._connect(DummyChannel(), cfg)
        if kind == "custom":
            return self.custom()._connect(DummyChannel(), cfg)
        if kind == "void-noarg":
            return service.VoidService._connect(DummyChannel())            # no config at all: the `config={}` default
        if kind == "slave-noarg":
            return service.SlaveService._connect(DummyChannel())
        if kind == "slave":
            return service.SlaveService._connect(DummyChannel(), cfg)      # classic mode
        if kind in ("classic-pair", "master-pair"):
            # a REAL pair over the deterministic in-memory network, made the way applications make them:
            #   classic-pair: factory.connect_stream(.., ClassicService, config=cfg)  <->  utils.classic.connect_stream
            #   master-pair : factory.connect_stream(.., MasterService, config=cfg)   <->  a SlaveService peer
            import simnet
            from rpyc.utils import factory, classic
            net = simnet.Net()
            with net.installed():
                sa, sb = net.stream_pair("A", "B")
                if kind == "classic-pair":
                    net.spawn("B", lambda: classic.connect_stream(sb).serve_all())
                    conn = factory.connect_stream(sa, service.ClassicService, config=cfg)
                else:
                    net.spawn("B", lambda: factory.connect_stream(sb, service.SlaveService).serve_all())
                    conn = factory.connect_stream(sa, service.MasterService, config=cfg)
            conn._c06_net = net
            return conn
        if kind == "server":
            # what a server does for every client: ONE protocol_config dict object, `dict(protocol_config, ...)` per
            # connection (utils/server.py `_serve_client`), captured instead of served
            import socket
            srv = self.servers.get(id(cfg))
            if srv is None:
                from rpyc.utils.server import ThreadedServer
                got = self.captured

                class CapturingServer(ThreadedServer):
                    def _handle_connection(self, conn):
                        got.append(conn)
                srv = CapturingServer(service.VoidService, hostname="127.0.0.1", port=0, protocol_config=cfg,
                                      auto_register=False)
                self.servers[id(cfg)] = srv
                self.keep.append(cfg)
            a, b = socket.socketpair()
            self.socks += [a, b]
            srv._serve_client(a, None)
            return self.captured.pop()
        raise ValueError(kind)

    def make_server(self, svc, pool=False, **kw):
        """a real ThreadedServer that hands every connection it makes to the harness instead of serving it
        (`pool`: a ThreadPoolServer, whose `_authenticate_and_build_connection` is a separate per-client path)"""
        from rpyc.utils.server import ThreadedServer, ThreadPoolServer
        got = self.captured
        if pool:
            srv = ThreadPoolServer(svc, hostname="127.0.0.1", port=0, auto_register=False, nbThreads=1, **kw)
            self.pools.append(srv)
            return srv

        class CapturingServer(ThreadedServer):
            def _handle_connection(self, conn):
                got.append(conn)
        return CapturingServer(svc, hostname="127.0.0.1", port=0, auto_register=False, **kw)

    def decisions_of(self, c):
        out = []
        for okind, req, name in PANEL:
            line = run_real(c, panel_object(okind), req, name)
            if okind == "view":
                line = observable(SHAPE_BY_KEY["restricted-attrs-name"], line)
            out.append(line)
        return out

    def apply(self, ev):
        protocol, service = self.protocol, self.service
        if ev[0] in ("open", "openwith"):
            _o, i, ov, kind = ev
            if ev[0] == "open":
                cfg = to_real_dict(ov)
            else:
                cfg = self.dicts[ov]            # the OBJECT itself, not a copy: it may be edited later
            self.conns[i] = self.open_conn(kind, cfg)
        elif ev[0] == "close":
            close_conn(self.conns[ev[1]])
        elif ev[0] == "newserver":
            _n, k, d, skind = ev
            svc = service.SlaveService if skind == "slave" else service.VoidService
            kw = {} if d is None else dict(protocol_config=self.dicts[d])
            self.srv[k] = self.make_server(svc, pool=(skind == "void-pool"), **kw)
        elif ev[0] == "srvconn":
            import socket
            a, b = socket.socketpair()
            self.socks += [a, b]
            if ev[3] == "void-pool":
                _sock, conn = self.srv[ev[2]]._authenticate_and_build_connection(a)
                self.conns[ev[1]] = conn
            else:
                self.srv[ev[2]]._serve_client(a, None)
                self.conns[ev[1]] = self.captured.pop()
        elif ev[0] == "editserver":
            cfg = to_real_dict(ev[2])
            items = sorted(cfg.items(), key=lambda kv: kv[0])
            # both idioms: item assignment for the first key, .update() for the rest
            self.srv[ev[1]].protocol_config[items[0][0]] = items[0][1]
            self.srv[ev[1]].protocol_config.update(dict(items[1:]))
        elif ev[0] == "edit":
            self.dicts[ev[1]].update(to_real_dict(ev[2]))
        elif ev[0] == "setdefault":
            protocol.DEFAULT_CONFIG.update(to_real_dict(ev[1]))       # restored by the caller when the case ends
        elif ev[0] == "check":
            pass
        else:
            raise ValueError(ev[0])

    def model_lines(self, ev):
        if ev[0] == "open":
            return ["policy open %d %s %s" % (ev[1], "classic" if ev[3] in CLASSIC_KINDS else "plain",
                                             overlay_tokens(ev[2]))]
        if ev[0] == "openwith":
            return ["policy openwith %d %s %d" % (ev[1], "classic" if ev[3] in CLASSIC_KINDS else "plain", ev[2])]
        if ev[0] == "newserver":
            return ["policy newserver %d %s" % (ev[1], "N" if ev[2] is None else str(ev[2]))]
        if ev[0] == "srvconn":
            return ["policy srvconn %d %d %s" % (ev[1], ev[2], "classic" if ev[3] == "slave" else "plain")]
        if ev[0] == "editserver":
            return ["policy editserver %d %s" % (ev[1], overlay_tokens(ev[2]))]
        if ev[0] == "edit":
            return ["policy dict %d %s" % (ev[1], overlay_tokens(ev[2]))]
        if ev[0] == "setdefault":
            return ["policy setdefault " + overlay_tokens(ev[1])]
        if ev[0] == "close":
            return ["policy close %d" % ev[1]]
        return []

    def conn_state(self, i):
        c = self.conns[i]
        if c is None:
            return "fresh"
        return ("closed " if c.closed else "live ") + cfg_text(c._config)

    def decisions(self, i):
        """panel decisions of connection i on fresh objects (real code)"""
        c = self.conns[i]
        out = []
        for okind, req, name in PANEL:
            line = run_real(c, panel_object(okind), req, name)
            if okind == "view":
                line = observable(SHAPE_BY_KEY["restricted-attrs-name"], line)
            out.append(line)
        return out

    def cleanup(self):
        for c in self.conns:
            if c is not None and not c.closed:
                close_conn(c)
        for srv in self.pools:
            try:
                srv.close()
            except Exception:  # noqa
                pass
        for srv in list(self.servers.values()) + list(self.srv.values()):
            try:
                srv.listener.close()
            except Exception:  # noqa
                pass
        for sk in self.socks:
            try:
                sk.close()
            except Exception:  # noqa
                pass


def default_text():
    protocol, _s, _h = rpyc_mods()
    return cfg_text(protocol.DEFAULT_CONFIG)


def history_lines(hist):
    """-> (model lines, expected outputs from the real code (None = setup line expecting `ok`), labels)"""
    protocol, _s, _h = rpyc_mods()
    reset_mutable_defaults()
    snapshot = copy.deepcopy(protocol.DEFAULT_CONFIG)
    run = HistoryRun(hist)
    lines, want, labels = ["policy reset"] + panel_setup_lines(), [], []
    want = [None] * len(lines)
    labels = ["setup"] * len(lines)
    try:
        expected_default = copy.deepcopy(snapshot)
        for step, ev in enumerate(hist["events"]):
            run.apply(ev)
            if ev[0] == "setdefault":
                expected_default.update(to_real_dict(ev[1]))
            for l in run.model_lines(ev):
                lines.append(l)
                want.append(None)
                labels.append("event")
            for i in range(hist["slots"]):
                lines.append("policy wcfg %d" % i)
                want.append(run.conn_state(i))
                labels.append("step %d: config of connection %d" % (step, i))
            lines.append("policy wdflt")
            want.append(default_text())
            labels.append("step %d: DEFAULT_CONFIG" % step)
            if protocol.DEFAULT_CONFIG != expected_default:
                lines.append("policy wdflt")
                want.append("DEFAULT_CONFIG is no longer deep-equal to its snapshot (plus the application's own edits)")
                labels.append("step %d: DEFAULT_CONFIG deep equality" % step)
            for i in range(hist["slots"]):
                c = run.conns[i]
                if c is None or c.closed:
                    continue
                dec = run.decisions(i)
                for (okind, req, name), d in zip(PANEL, dec):
                    lines.append("policy wacc %d %d %s %s" % (i, PANEL_OBJ_ID[okind], req, name_token(name)))
                    want.append(d)
                    labels.append("step %d: connection %d %s %s %r" % (step, i, okind, req, name))
    finally:
        run.cleanup()
        if protocol.DEFAULT_CONFIG != snapshot:      # keep later cases meaningful
            protocol.DEFAULT_CONFIG.clear()
            protocol.DEFAULT_CONFIG.update(snapshot)
    return lines, want, labels


def compare_history(hist, outs, want, labels, lines):
    """-> list of disagreement dicts"""
    bad = []
    for l, w, lab, o in zip(lines, want, labels, outs):
        if w is None:
            if o != "ok":
                bad.append(dict(case=hist, at=lab, impl="(setup line) " + l[:200], model=o))
            continue
        got = o
        if l.startswith("policy wacc"):
            got = flatten_model(o)
            objid = l.split()[3]
            if objid == "12":
                got = observable(SHAPE_BY_KEY["restricted-attrs-name"], renumber(got, 12, 0))
            else:
                got = renumber(got, int(objid), 0)
        if l.startswith("policy wacc"):
            got, w = canon(got), canon(w)
        if got != w:
            bad.append(dict(case=hist, at=lab, impl=w[:400], model=got[:400]))
    return bad


# ------------------------------------------------------------------------------------------------ correspondence
def outcome_class(line, text, twin):
    evs, _, out = line.rpartition("-> ")
    if not out.startswith("invoked"):
        return out.split(" !")[0]
    toks = [t for t in evs.split() if not t.startswith("c:")]
    last = toks[-1] if toks else "?"
    nm = last.rpartition(":")[2]
    which = "name" if nm == cps(text) else "twin" if nm == cps(twin) else "other"
    return "invoked:%s:%s" % (last[0] if not last.startswith("h") else "hook", which)


def correspondence(ctx):
    c = Corr()
    prefixes = ctx.budget(PREFIXES_QUICK, PREFIXES_THOROUGH)
    n_hist = ctx.budget(600, 6000)
    c.rule = (
        "decision table enumerated COMPLETELY (thorough tier: again with a caller-supplied safe list for two prefixes): "
        "128 settings of the seven attribute switches x prefixes %r x %d name "
        "classes (prefixed, prefixed twice, equal to the prefix, public, safe-listed, _x, _, dunder in/not in the safe "
        "list, inherited dunders, __exit__, empty, non-ASCII, astral, lone surrogate, NUL, valid/invalid/overlong/"
        "surrogate/truncated UTF-8 bytes, int/None/bool/float/tuple/bytearray/str-subclass/bytes-subclass) x %d object "
        "shapes (has name / twin / both / neither, own hooks allowing / refusing with ValueError, get-hook only, three "
        "restricted views, Service subclass, hook set to None, instance-level hook) x getattr/setattr/delattr/callattr "
        "(+ oldslicing with a fixed fallback name, also with a first value whose call raises; + ctxexit on __exit__; + cmp "
        "with 5 further operator names on 4 type-level shapes + instance-hooked classes (allowing / refusing / refusing "
        "with ValueError), a restricted view and a Service instance), each on the real Connection._handle_* with a fresh "
        "logging canary; compared: ordered log of attributes read/written/deleted/called, accessor-or-hook reached, "
        "exception class. Then %d seeded connection histories (open with literal config dicts or with application dict "
        "objects that are edited after use and reused / connection kinds: bare Connection, Void/custom Service._connect, "
        "SlaveService._connect, real ClassicService and MasterService pairs made through utils.factory / utils.classic on "
        "the in-memory network, connections made by a real ThreadedServer from ONE protocol_config dict, several real "
        "servers constructed WITHOUT a protocol_config whose protocol_config is edited in place afterwards and which make "
        "connections before and after / close / the "
        "application editing DEFAULT_CONFIG mid-history); the histories are SAMPLED, only the table is exhaustive; comparing every connection's config, %d panel decisions per live "
        "connection and DEFAULT_CONFIG after every event. Non-trivial: anything but 'operation kind disabled, no "
        "probe, AttributeError'. Distinct: (prefix, name class, shape, request, output with names abstracted to "
        "name/twin) for the table; (step kind, observation kind, output) for histories."
        % (prefixes, len(name_classes("p")), len(SHAPES), n_hist, len(PANEL)))
    t0 = time.time()
    n_table = 0
    sample_every = 104729
    passes = [(p, None) for p in prefixes] + ctx.budget([], [("exposed_", CUSTOM_SAFE), ("", CUSTOM_SAFE)])
    # the model driver works on one pass (in a helper thread: it is a subprocess) while the real code runs the next
    import concurrent.futures
    pool = concurrent.futures.ThreadPoolExecutor(1)

    def produce():
        """passes with their driver future; at most two passes are alive at a time"""
        prev = None
        for p, safe in passes:
            lines, recs = [], []
            for case, cfgl, setup, line, thunk, shape in table_cases([p], safe=safe):
                for l in cfgl + setup:
                    lines.append(l)
                    recs.append(None)
                lines.append(line)
                recs.append((case, thunk(), shape))
            cur = (p, safe, lines, recs, pool.submit(run_driver, lines, "drv_policy"))
            if prev is not None:
                yield prev
            prev = cur
        if prev is not None:
            yield prev
    for p, safe, lines, recs, fut in produce():
        try:
            outs = fut.result()
        except DriverError as ex:
            c.error = str(ex)
            return c
        ncls = dict(name_classes(p))
        flat_memo, cls_memo, dist = {}, {}, {}
        for l, rec, o in zip(lines, recs, outs):
            if rec is None:
                if o != "ok":
                    c.disagreements.append(dict(case=dict(kind="setup", line=l[:300]), impl="ok", model=o))
                continue
            case, impl, shape = rec
            n_table += 1
            nc = case["name_class"]
            cmpview = shape is not None and shape.kind == "cmp-view"
            key = (nc, impl, o, cmpview)
            info = cls_memo.get(key)
            if info is None:
                got = flatten_model(o)
                if cmpview:
                    got = observable(shape, got)
                got, cimpl = _canon(got), _canon(impl)
                nm = ncls[nc]
                text = decoded_or_fallback(nm)
                twin = p + text
                tail = o.rpartition("-> ")[2]
                info = cls_memo[key] = (
                    "impl:" + outcome_class(cimpl, text, twin),
                    "model:" + (" ".join(tail.split(" ")[:2]) if tail.startswith("ok") else tail),
                    "probes:%d" % sum(1 for t in o.split(" ") if t.startswith("p")),
                    abstract(cimpl, text, twin),
                    cimpl == "P{} -> err AttributeError" and type(nm) is str,
                    got, cimpl)
            got, impl = info[5], info[6]
            for k in (info[0], info[1], info[2], "req:" + case["req"]):
                dist[k] = dist.get(k, 0) + 1
            if not info[4]:
                c.signatures.add((p, "default-safe" if safe is None else "custom-safe", nc, case["shape"], case["req"], info[3]))
            if got != impl:
                if len(c.disagreements) < 2000:
                    c.disagreements.append(dict(case=case, impl=impl[:400], model=got[:400], model_raw=o[:400]))
            elif n_table % sample_every == 1 and len(c.samples) < 8:
                c.samples.append(dict(case=case, outcome=impl[:300]))
        for k, v in dist.items():
            c.count(k, v)
    c.evaluations += n_table
    ctx.log("table: %d cases in %.1fs" % (n_table, time.time() - t0))
    c.extra["exhaustive_table_cases"] = n_table
    c.extra["exhaustive_scope"] = ("the decision table (switches x prefixes x name classes x shapes x requests) is "
                                   "enumerated completely; connection histories are seeded samples")
    # ---- histories
    t1 = time.time()
    r = Rng(ctx.seed).fork("c06-histories")
    n_checks = 0
    batch = []          # (hist, lines, want, labels)

    def flush():
        nonlocal n_checks
        if not batch:
            return None
        all_lines = [l for _h, ls, _w, _lab in batch for l in ls]
        try:
            outs = run_driver(all_lines, exe="drv_policy")
        except DriverError as ex:
            return str(ex)
        pos = 0
        for hist, lines, want, labels in batch:
            o = outs[pos:pos + len(lines)]
            pos += len(lines)
            bad = compare_history(hist, o, want, labels, lines)
            c.evaluations += 1
            n_checks += sum(1 for w in want if w is not None)
            kinds = tuple(sorted(set(e[0] + (":" + e[3] if e[0] in ("open", "openwith", "srvconn", "newserver") else "") for e in hist["events"])))
            c.count("history:len=%d" % len(hist["events"]))
            for e in hist["events"]:
                c.count("history-event:" + e[0] + (":" + e[3] if e[0] in ("open", "openwith", "srvconn", "newserver") else ""))
            for w, lab in zip(want, labels):
                if w is not None:
                    c.signatures.add(("history", lab.split(": ")[1].split(" ")[0], w if len(w) < 120 else hash(w)))
            if len(hist["events"]) > 3:
                c.signatures.add(("history-shape", kinds, len(hist["events"])))
            for b in bad[:3]:
                if len(c.disagreements) < 2000:
                    c.disagreements.append(b)
            if c.evaluations % 151 == 7 and len(c.samples) < 12:
                c.samples.append(dict(case=hist, checks=sum(1 for w in want if w is not None),
                                      outcome="all agree" if not bad else "DISAGREE"))
        del batch[:]
        return None
    for h in range(n_hist):
        hist = gen_history(r)
        lines, want, labels = history_lines(hist)
        batch.append((hist, lines, want, labels))
        if len(batch) >= 200:
            err = flush()
            if err:
                c.error = err
                return c
    err = flush()
    if err:
        c.error = err
        return c
    ctx.log("histories: %d histories, %d comparisons in %.1fs" % (n_hist, n_checks, time.time() - t1))
    c.extra["histories"] = n_hist
    c.extra["history_comparisons"] = n_checks
    # `exhaustive` is about the whole run: the decision table is enumerated completely, the histories are SAMPLED
    c.exhaustive = False
    c.extra["decision_table_enumerated_completely"] = True
    c.extra["histories_are_seeded_samples"] = True
    return c


# ------------------------------------------------------------------------------------------------ direct oracle
def _real_has(obj, n):
    """does the real object have attribute n (asked without going through the logging hooks)"""
    try:
        object.__getattribute__(obj, n)
        return True
    except AttributeError:
        return False
    except Exception:  # noqa
        return True


def statement_table(cfg, op_key, text, has_name, has_twin):
    """The property statement as a decision table (written from the statement, not from the model).
    -> ("allow", {acceptable attribute names}) or ("deny",)"""
    enabled = bool(cfg[op_key])
    prefix = cfg["exposed_prefix"]
    allowed = bool(cfg["allow_all_attrs"]
                   or (cfg["allow_exposed_attrs"] and text.startswith(prefix))
                   or (cfg["allow_safe_attrs"] and text in cfg["safe_attrs"])
                   or (cfg["allow_public_attrs"] and not text.startswith("_")))
    twin_counts = bool(cfg["allow_exposed_attrs"] and prefix != "" and has_twin)
    if not enabled or not (allowed or twin_counts):
        return ("deny",)
    names = set()
    if allowed:
        names.add(text)
    if twin_counts and not (allowed and has_name):
        # "or have an exposed-prefixed twin on the object, which is then what is accessed": the twin stands in when
        # the name itself is not allowed or the object does not have it.  A name that IS allowed and that the object
        # HAS is the attribute the peer asked for — nothing else may be touched in its place.
        names.add(prefix + text)
    return ("allow", names)


OP_KEY = {"getattr": "allow_getattr", "callattr": "allow_getattr", "ctxexit": "allow_getattr", "cmp": "allow_getattr",
          "oldslicing": "allow_getattr", "oldslicing-r": "allow_getattr",
          "setattr": "allow_setattr", "delattr": "allow_delattr"}
OP_KIND = {"getattr": "g", "callattr": "g", "ctxexit": "g", "cmp": "g", "setattr": "s", "delattr": "d",
           "oldslicing": "g", "oldslicing-r": "g"}


def parse_observed(line):
    evs, _, out = line.rpartition("-> ")
    toks = evs.split()
    entries = []
    for t in toks:
        head, _, nm = t.partition(":")
        name = "<non-text>" if nm == "NONTEXT" else "".join(chr(int(x)) for x in nm.split(",")) if nm else ""
        entries.append((head, name))
    return entries, out.strip()


_ORACLE_CONNS = {}


def _close_oracle_conns():
    for c in _ORACLE_CONNS.values():
        if not c.closed:
            c.close()
    _ORACLE_CONNS.clear()


def oracle_case(case):
    """None if the statement holds for this one table case on the real code, else a description"""
    p = case["prefix"]
    bits = [ch == "1" for ch in case["bits"]]
    name = dict(name_classes(p))[case["name_class"]]
    req = case["req"]
    conn = _ORACLE_CONNS.get((p, case["bits"], tuple(case.get("safe") or ())))
    if conn is None:
        if len(_ORACLE_CONNS) > 600:
            _close_oracle_conns()
        conn = _ORACLE_CONNS[(p, case["bits"], tuple(case.get("safe") or ()))] = make_conn(
            cfg_dict(bits, p, case.get("safe")))
    try:
        cfg = conn._config
        text = decoded_or_fallback(name)
        twin = p + text
        if req == "cmp":
            kind, has = CMP_KIND[case["shape"]]
            obj, _setup = build_cmp_object(kind, has, text, twin)
            subject = type(obj)
            hooks, hook_err = {}, "AttributeError"
            # an object whose class defines the read hook decides; so does a metaclass hook for reads of the class
            if kind in ("meta-hooked", "inst-hook-allow", "view"):
                hooks = {"g": set([text])}
            elif kind.startswith("inst-hook-deny"):
                hooks = {"g": set()}
                hook_err = "ValueError" if kind.endswith("valueerror") else "AttributeError"
            has_n = _cls_has(subject, text)
            has_t = _cls_has(subject, twin)
            view = kind == "view"
        else:
            shape = SHAPE_BY_KEY[case["shape"]]
            obj = build_for(shape, req, text, twin)
            view = shape.kind == "restricted"
            hooks, hook_err = {}, "AttributeError"
            if shape.kind == "hooked":
                for k, x in zip("gsd", shape.kw["hooks"]):
                    if x is not None:
                        hooks[k] = set([text]) if x == "n" else set()
                hook_err = shape.kw.get("err", AttributeError).__name__
            elif shape.kind == "service":
                # Service's own write/delete hooks refuse everything (if the class defines them at all)
                for k, h in (("s", "_rpyc_setattr"), ("d", "_rpyc_delattr")):
                    if getattr(rpyc_mods()[1].Service, h, None) is not None:
                        hooks[k] = set()
            elif view:
                hooks = {"g": set([text]) if "n" in shape.kw["attrs"] else set(["other_attr"])}
                w = shape.kw["wattrs"]
                hooks["s"] = hooks["g"] if w is None else (set([text]) if "n" in w else set())
            has_n, has_t = _real_has(obj, text), _real_has(obj, twin)
        line = run_real(conn, obj, req, "__exit__" if req == "ctxexit" else name)
        if req == "ctxexit":
            name, text, twin = "__exit__", "__exit__", p + "__exit__"
            has_n, has_t = _real_has(obj, text), _real_has(obj, twin)
    finally:
        pass
    entries, out = parse_observed(line)
    if "!passthrough" in out:
        return "handler did not pass the accessor's result through: " + line
    effects = [(h, n) for h, n in entries if h[0] in "sdc" and not h.startswith("h")]
    kind = OP_KIND[req]
    if req in ("oldslicing", "oldslicing-r"):
        if hooks or view:
            return None          # objects with their own read hook decide both stages themselves
        return oracle_oldslicing(cfg, p, name, text, has_n, has_t, _real_has(obj, FALLBACK),
                                 _real_has(obj, p + FALLBACK), req == "oldslicing-r", entries, out, line)
    # --- name typing
    if type(name) is not str:
        bad_bytes = type(name) is bytes and text == "zz" and name != b"zz"
        if type(name) is not bytes or bad_bytes:
            ok_errs = ("err TypeError", "err UnicodeDecodeError") if bad_bytes else ("err TypeError",)
            if out not in ok_errs:
                return "a name that is not text must fail with TypeError; observed: " + line
            if entries:
                return "a name that is not text must have no effect; observed: " + line
            return None
    # --- who decides
    if kind in hooks:
        if text in hooks[kind]:
            want_obj = "1" if view else "0"
            touched = [(h, n) for h, n in entries if h == kind + want_obj]
            if not out.startswith("invoked") or not touched or touched[-1][1] != text:
                return "the object's own hook permits %r for this request but it was not performed: %s" % (text, line)
            return None
        if out != "err " + hook_err:
            return "the object's own hook refuses %r with %s but observed: %s" % (text, hook_err, line)
        if effects or any(h[0] in "gsd" and h.endswith("1") for h, _n in entries):
            return "a request the object's hook refused had an effect: " + line
        return None
    if view and kind == "d":
        # no delete hook on a restricted view: the statement only promises the view permits exactly its lists,
        # so a delete must never reach the wrapped object
        if any(h in ("d1", "s1") for h, _n in entries):
            return "a delete on a restricted view reached the wrapped object: " + line
        return None
    verdict = statement_table(cfg, OP_KEY[req], text, has_n, has_t)
    if verdict[0] == "deny":
        if out != "err AttributeError":
            return "the configuration does not allow this request, it must fail with AttributeError; observed: " + line
        if effects:
            return "a denied request had an effect: " + line
        stray = [(h, n) for h, n in entries if n not in (text, twin)]
        if stray:
            return "a denied request read attributes other than the name and its twin (%r): %s" % (stray, line)
        return None
    if not out.startswith("invoked"):
        return "the configuration allows this request (acceptable targets %s) but it failed: %s" % (
            sorted(verdict[1]), line)
    acc = [(h, n) for h, n in entries if h[0] == kind and not h.startswith("h")]
    if not acc or acc[-1][1] not in verdict[1]:
        return "allowed request touched %r, acceptable: %s; observed: %s" % (
            acc[-1][1] if acc else None, sorted(verdict[1]), line)
    stray = [(h, n) for h, n in effects if n not in verdict[1]]
    if stray:
        return "allowed request also touched %r: %s" % (stray, line)
    return None


def oracle_oldslicing(cfg, p, name, text, has_n, has_t, has_fb, has_fbt, raising, entries, out, line):
    """old-style slicing is two call-by-name requests in a row (the second only if the first ends in an exception):
    each stage must follow the decision table; nothing outside what the table allows may be called"""
    v1 = statement_table(cfg, "allow_getattr", text, has_n, has_t) if type(name) is str or (
        type(name) is bytes and not (text == "zz" and name != b"zz")) else ("deny",)
    v2 = statement_table(cfg, "allow_getattr", FALLBACK, has_fb, has_fbt)
    allowed = set()
    for v in (v1, v2):
        if v[0] == "allow":
            allowed |= v[1]
    calls = [n for h, n in entries if h == "c"]
    if any(n not in allowed for n in calls):
        return "old-style slicing called %r, which the configuration allows for neither name (%s): %s" % (
            calls, sorted(allowed), line)
    if v1[0] == "deny" and v2[0] == "deny":
        if out != "err AttributeError" or calls:
            return "both names of an old-style slicing request are refused by the configuration; observed: " + line
        return None
    if v2[0] == "allow" and not out.startswith("invoked"):
        return "the fallback name is allowed (%s) but old-style slicing failed: %s" % (sorted(v2[1]), line)
    first_can_succeed = v1[0] == "allow" and not raising and (
        (text in v1[1] and has_n) or ((p + text) in v1[1] and has_t and not (text in v1[1])))
    if first_can_succeed and (len(calls) != 1 or calls[0] not in v1[1]):
        return "the first name is allowed and present, it alone must be called (%s); observed: %s" % (sorted(v1[1]), line)
    return None


def _cls_has(cls, n):
    try:
        type.__getattribute__(cls, n)
        return True
    except AttributeError:
        return False


def oracle_history(hist):
    """The isolation clause on the real code alone: no event of one connection changes what ANY other connection
    allows (panel decisions of every other live connection, and of a connection freshly opened with no config, are
    the same before and after each event)."""
    protocol, _s, _h = rpyc_mods()
    reset_mutable_defaults()
    snapshot = copy.deepcopy(protocol.DEFAULT_CONFIG)
    run = HistoryRun(hist)

    def fresh_default_decisions():
        c = make_conn({})
        try:
            out = []
            for okind, req, name in PANEL:
                out.append(run_real(c, panel_object(okind), req, name))
            return out
        finally:
            c.close()
    try:
        base = fresh_default_decisions()
        shadow = [dict() for _ in range(N_DICTS)]      # what the APPLICATION wrote into its dict objects, kept apart
        sshadow = {}                                    # ... and into each server's protocol_config
        for step, ev in enumerate(hist["events"]):
            # edits of an application dict / of DEFAULT_CONFIG belong to no connection: EVERY open connection is "other"
            actor = ev[1] if ev[0] in ("open", "openwith", "srvconn", "close") else None
            before = {}
            for j, c in enumerate(run.conns):
                if c is not None and not c.closed and j != actor:
                    before[j] = run.decisions(j)
            run.apply(ev)
            if ev[0] == "edit":
                shadow[ev[1]].update(copy.deepcopy(ev[2]))
            if ev[0] == "newserver":
                # what the application told server k: the dict object it gave (shared with it, documented), else nothing
                sshadow[ev[1]] = shadow[ev[2]] if ev[2] is not None else {}
            if ev[0] == "editserver":
                sshadow[ev[1]].update(copy.deepcopy(ev[2]))
            if ev[0] == "srvconn":
                # a connection made by server B decides as B's OWN configuration says, whatever was done to other servers
                said = copy.deepcopy(sshadow[ev[2]])
                ref = run.open_conn("slave" if ev[3] == "slave" else "void", to_real_dict(said))
                try:
                    want = run.decisions_of(ref)
                finally:
                    close_conn(ref)
                got = run.decisions(ev[1])
                if got != want:
                    k = [i for i in range(len(want)) if want[i] != got[i]][0]
                    return ("step %d: connection %d was made by server %d, whose own configuration says %r, but it decides "
                            "%s %s %r as %r; a connection opened with exactly those settings decides %r"
                            % (step, ev[1], ev[2], said, PANEL[k][0], PANEL[k][1], PANEL[k][2], got[k], want[k]))
            if ev[0] in ("open", "openwith"):
                # the new connection's policy = defaults overridden by exactly what the application's dict said when it
                # was passed (plus classic overrides iff it is the classic one): same decisions as a connection of the
                # same kind opened with a PRIVATE copy of those settings
                said = copy.deepcopy(ev[2] if ev[0] == "open" else shadow[ev[2]])
                ref = run.open_conn({"void-noarg": "void", "slave-noarg": "slave"}.get(ev[3], ev[3]), to_real_dict(said))
                try:
                    want = run.decisions_of(ref)
                finally:
                    close_conn(ref)
                got = run.decisions(ev[1])
                if got != want:
                    k = [i for i in range(len(want)) if want[i] != got[i]][0]
                    how = ("its settings dict object %d, which other connections were opened with before" % ev[2]
                           if ev[0] == "openwith" else "a literal dict")
                    return ("step %d: connection %d (%s service) was opened with the application's settings %r (%s) but "
                            "decides %s %s %r as %r; a connection opened with a private copy of the same settings decides %r"
                            % (step, ev[1], ev[3], said, how, PANEL[k][0], PANEL[k][1], PANEL[k][2], got[k], want[k]))
            for j, dec in before.items():
                after = run.decisions(j)
                if after != dec:
                    k = [i for i in range(len(dec)) if dec[i] != after[i]][0]
                    what = ("%s on connection %s" % (ev[0], actor) if actor is not None else
                            "the application editing server %s's protocol_config" % ev[1] if ev[0] == "editserver" else
                            "constructing server %s" % ev[1] if ev[0] == "newserver" else
                            "the application editing its settings dict %s after use" % ev[1] if ev[0] == "edit" else
                            "the application editing DEFAULT_CONFIG" if ev[0] == "setdefault" else ev[0])
                    return ("step %d (%s) changed what the already-open connection %d allows: %s %s %r: before %r, after %r"
                            % (step, what, j, PANEL[k][0], PANEL[k][1], PANEL[k][2], dec[k], after[k]))
            now = fresh_default_decisions()
            if ev[0] == "setdefault":
                base = now            # the application changed the defaults itself: later connections start from them
            if now != base:
                k = [i for i in range(len(base)) if base[i] != now[i]][0]
                return ("after step %d (%s on connection %s) a connection opened with no config decides %s %s %r as %r, "
                        "before the history it was %r" % (step, ev[0], actor, PANEL[k][0], PANEL[k][1], PANEL[k][2],
                                                          now[k], base[k]))
        return None
    finally:
        run.cleanup()
        if protocol.DEFAULT_CONFIG != snapshot:
            protocol.DEFAULT_CONFIG.clear()
            protocol.DEFAULT_CONFIG.update(snapshot)


def shrink_history(hist, msg):
    evs = list(hist["events"])
    changed = True
    while changed:
        changed = False
        for k in range(len(evs)):
            cand = evs[:k] + evs[k + 1:]
            # an event on a slot whose `open` was removed makes no sense
            opened = set()
            ok = True
            made = set()
            for e in cand:
                if e[0] in ("open", "openwith"):
                    opened.add(e[1])
                elif e[0] == "close" and e[1] not in opened:
                    ok = False
                elif e[0] == "newserver":
                    made.add(e[1])
                elif e[0] == "editserver" and e[1] not in made:
                    ok = False
                elif e[0] == "srvconn":
                    if e[2] not in made:
                        ok = False
                    opened.add(e[1])
            if not ok:
                continue
            h2 = dict(hist, events=cand)
            try:
                m2 = oracle_history(h2)
            except Exception:  # noqa
                m2 = None
            if m2:
                evs, msg, changed = cand, m2, True
                break
    return dict(hist, events=evs), msg


def case_signature(case, msg):
    if case.get("kind") == "history":
        if "was opened with the application's settings" in msg:
            return "history:later connection does not follow the settings it was given"
        if "was made by server" in msg:
            return "history:server connection does not follow its own server's configuration"
        return "history:" + msg.split(") changed")[0].split("(")[-1][:60]
    return "input:%s:%s:%s" % (case.get("req"), case.get("shape"), msg.split(";")[0][:50])


def oracle_search(ctx, corr, broken):
    try:
        return _oracle_search(ctx, corr, broken)
    finally:
        _close_oracle_conns()


def _oracle_search(ctx, corr, broken):
    deadline = time.time() + ctx.budget(60, 600)
    known = getattr(ctx, "known_signatures", set())
    best = None

    def consider(case, msg):
        nonlocal best
        sig = case_signature(case, msg)
        if sig in known:
            return
        size = len(case.get("events", [])) if case.get("kind") == "history" else 0
        if best is None or size < best[3]:
            best = (case, msg, sig, size)
    # 1. cases the correspondence disagreed on
    for d in corr.disagreements[:300]:
        case = d.get("case", {})
        try:
            if case.get("kind") == "input":
                msg = oracle_case(case)
                if msg:
                    consider(case, msg)
                    break
            elif case.get("kind") == "history":
                msg = oracle_history(case)
                if msg:
                    case, msg = shrink_history(case, msg)
                    consider(case, msg)
                    break
        except Exception as ex:  # noqa
            ctx.log("oracle crashed on a disagreeing case: %r" % (ex,))
    if best:
        return best[:3]
    r = Rng(ctx.seed).fork("c06-search")

    def search_histories(until):
        n = 0
        while time.time() < until and n < 20000:
            n += 1
            hist = gen_history(r)
            msg = oracle_history(hist)
            if msg:
                hist, msg = shrink_history(hist, msg)
                consider(hist, msg)
                return True
        return False

    def search_table(until):
        # boundary corpus: the whole decision table through the oracle (default prefix first)
        for p in ["exposed_", "x", ""]:
            for case, _cfgl, _setup, _line, _thunk, _shape in table_cases([p]):
                msg = oracle_case(case)
                if msg:
                    consider(case, msg)
                    return True
                if time.time() > until:
                    return False
        return False
    # a broken obligation about object identity / construction points at histories: look there first
    about_sharing = any(("measured_modes_are_good" in b or "config_handling_is_modelled" in b
                         or "breaks_isolation" in b or "shared_default_set_hazard" in b) for b in broken)
    if about_sharing:
        if search_histories(time.time() + (deadline - time.time()) / 2) or search_table(deadline):
            return best[:3]
        return None
    if search_table(deadline) or search_histories(deadline):
        return best[:3]
    return None


def replay(case):
    out = dict(case=case)
    if case.get("kind") == "history":
        lines, want, labels = history_lines(case)
        outs = run_driver(lines, exe="drv_policy")
        bad = compare_history(case, outs, want, labels, lines)
        def short(t):
            return t if len(t) < 160 else t[:120] + " ...(%d chars, crc %08x)" % (len(t), zlib.crc32(t.encode()))
        out["implementation"] = [dict(at=lab, observed=short(w)) for w, lab in zip(want, labels) if w is not None][:400]
        out["model_disagreements"] = [dict(at=b["at"], impl=b["impl"], model=b["model"]) for b in bad][:50]
        out["oracle"] = oracle_history(case) or "holds"
        return out
    p = case["prefix"]
    for cs, cfgl, setup, line, thunk, shape in table_cases(
            [p], shapes=[SHAPE_BY_KEY[case["shape"]]] if case["shape"] in SHAPE_BY_KEY else [SHAPES[0]],
            name_filter={case["name_class"]}, safe=case.get("safe")):
        if cs["bits"] == case["bits"] and cs["req"] == case["req"] and cs["shape"] == case["shape"]:
            impl = thunk()
            conn = make_conn(cfg_dict([ch == "1" for ch in case["bits"]], p, case.get("safe")))
            try:
                cfgline = "policy cfg 0 " + cfg_line_of(conn)
            finally:
                conn.close()
            # rebuild the object description for this very case
            if case["req"] == "cmp":
                name = dict(name_classes(p))[case["name_class"]]
                text = decoded_or_fallback(name)
                kind, has = CMP_KIND[case["shape"]]
                _inst, setup2 = build_cmp_object(kind, has, text, p + text)
            else:
                name = dict(name_classes(p))[case["name_class"]]
                text = decoded_or_fallback(name)
                setup2 = SHAPE_BY_KEY[case["shape"]].describe(text, p + text)
            op = line.split(" ")
            op[2] = "0"
            res = run_driver([cfgline] + setup2 + [" ".join(op)], exe="drv_policy")
            out["implementation"] = impl
            out["model"] = res[-1]
            out["model_as_observable"] = flatten_model(res[-1])
            out["oracle"] = oracle_case(case) or "holds"
            return out
    out["error"] = "case not found in the table"
    return out
