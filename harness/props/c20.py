"""C20 — uploading and downloading files and directory trees reproduces them byte for byte; a name filter
excludes exactly the entries it rejects.

Correspondence: the real `rpyc.classic.upload / download / upload_file / download_file` through a real classic
connection (a `SlaveService` peer over the deterministic in-memory network) between temporary directories, against
Rpyc.Files (lean/RpycModel/Files/Model.lean) through `drv_files`: generated trees (depth <= 4, fan-out <= 4, empty
directories, fifos and dangling links as "neither file nor directory"), file sizes {0, 1, c-1, c, c+1, 2c, 3c+1} for
chunk sizes c in {1, 2, 7, 64000}, filters (none, reject a suffix, reject directories by their name prefix, reject
all), invalid top-level paths with and without ignore_invalid, single files at top level, destination absent or an
empty directory.  The destination tree is read back recursively and compared byte-wise with the model's result.
Direct oracle (real code only): destination == source pruned by the filter, written from the statement.
"""
import os
import shutil
import tempfile
import time as _walltime

from lineproto import run_driver, DriverError
from pipeline import Corr
from prng import Rng

ID = "C20"
LEAN_MODULE = "RpycModel.Props.C20"
NAMESPACE = "Rpyc.Props.C20"
GEN = ["Files.lean"]
DRIVERS = ["drv_files"]
TRUSTED = [
    "modelled, not verified: the filesystem and the remote open/os.* calls are real and trusted: read(n) on a regular "
    "file returns the next min(n, remaining) bytes, write appends, listdir names are unique, isdir/isfile follow symbolic "
    "links (a link to a file is a file, to a directory a directory; the kernel stops after 40 links, there a link cycle "
    "becomes 'neither'); fifos, devices, dangling links are 'other'",
    "not modelled: os.makedirs creating missing parents of the destination; conn.modules.os.path.join using the peer's "
    "separator; unreadable files / listing errors in mid-tree (a partial destination); chunk_size None or negative (read-all)",
]
ASSUMPTIONS = [
    "the transfer is judged on what the source tree looks like through isdir/isfile/listdir at the time of the transfer "
    "(links followed); the destination may be absent or hold anything - the result is the pruned source laid over it "
    "(theorem transfer_onto_any_destination); the oracle demands the last source's files byte for byte and tolerates "
    "what earlier transfers left",
    "recursion depth: upload/download recurse once per directory level; beyond the interpreter's recursion limit (about 480 "
    "nested directories) the transfer ends with RecursionError and a partial destination - the theorems have no depth bound, "
    "the code has; generated depth <= 4 (plus one 82-level link cycle)",
    "chunk size >= 1 (with 0 the first read is empty and nothing is copied; shown as an example in Props/C20.lean)",
    "names are sequences of code points (undecodable file-name bytes are lone surrogates, as os.fsdecode gives them); "
    "they cross the wire as brine str - this relies on the C04 repair (lone surrogates serialisable)",
    "a filter OBJECT that is falsy (defines __bool__/__len__ as false) is ignored by the code (`not filter or filter(fn)`): "
    "everything is transferred (theorem falsy_filter_is_no_filter; real-code replay: filter Z) - against the letter of "
    "'a name filter excludes exactly the entries it rejects'; reported, not judged by the oracle",
    "a regular file where a directory is needed / a directory where a file is to be written: FileExistsError / "
    "IsADirectoryError from the underlying call, the transfer stops there (modelled; outside the statement)",
]
EXPLANATION = ("Property theorems for all trees, contents, names, filters and chunk sizes >= 1: the chunk loop copies every byte "
               "string exactly; upload = prune (mutual structural induction); download, transcribed separately, = upload; "
               "path-by-path characterisation; no filter => identity; a transfer onto ANY destination = the pruned source laid "
               "over it (files replaced whatever their size/age, directories merged, type conflicts as OSErrors), the last "
               "transfer wins; default chunk sizes regenerated from the source are >= 1. Harness-level metamorphic relation (not a "
               "theorem: the model's input is the tree, not how its path is spelt): the result does not depend on the spelling "
               "of the source / destination path. NOT counted as property theorems "
               "(one-step unfoldings, kept in Files/Lemmas.lean): invalid_top_level, top_level_not_filtered.")

CHUNKS = [1, 2, 7, 64000]


def cps(name):
    """a name as the model gets it: its code points in hex, dot-separated (lone surrogates - undecodable bytes - included)"""
    return ".".join("%x" % ord(ch) for ch in name) if name else "-"


def uncps(text):
    return "" if text == "-" else "".join(chr(int(x, 16)) for x in text.split("."))


F_TMP, F_TXT, F_D = "S" + cps(".tmp"), "S" + cps(".txt"), "P" + cps("d")
ODD_FILES = ["\u00e9%d.txt", "\u65e5\u672c%d.tmp", "nl\n%d", "trail%d ", " lead%d.tmp", "\udcff%d", "f%d\t.bak", "\U0001f600%d",
             "e\u0301%d.txt", "f\udc80%d.tmp"]
ODD_DIRS = ["d\u00e9%d", "d\udcfe%d", "d\n%d.tmp", "\u65e5%d "]
LINK = {"area": None, "n": 0, "root": None}       # where link targets are made; set by the rig for each case


# ------------------------------------------------------------------------------------------ trees
# a tree is ("F", bytes) | ("X", kind) | ("D", [(name, tree), ...])
def sizes_for(c):
    return [0, 1, c - 1, c, c + 1, 2 * c, 3 * c + 1]


CONTENT_KINDS = ["rand", "zeros", "last0", "lastfull0", "first0", "mid0", "rep00", "repff", "rep0a", "rep0d", "crlf",
                 "dup", "pattern"]


def content(kind, n, c, r=None):
    """file contents of length n, shaped relative to the chunk size c: whole chunks of zeros at the end / start / middle
    (sparse-file shortcuts), a single repeated byte, CR/LF-heavy text (text-mode translation), every chunk equal to the
    previous one (dedup shortcuts), random bytes.  The non-zero filler never contains a zero byte."""
    if n == 0:
        return b""
    base = bytearray((i * 31 + 7) % 255 + 1 for i in range(n))
    if kind == "rand":
        return r.bytes(n) if r is not None else bytes((i * i * 7 + i * 13 + 5) & 0xFF for i in range(n))
    if kind == "zeros":
        return bytes(n)
    if kind.startswith("rep"):
        return bytes([int(kind[3:], 16)]) * n
    if kind == "crlf":
        unit = b"\r\n\n\r\r\na\r\nb\n\rc\x1a\r\n"
        return (unit * (n // len(unit) + 1))[:n]
    if kind == "dup":
        unit = bytes(base[:max(1, min(c, n))])
        return (unit * (n // len(unit) + 1))[:n]
    if kind == "pattern":
        return bytes(base)
    nchunks = (n + c - 1) // c
    if kind == "last0":                       # the last chunk as it is read (may be partial)
        lo, hi = c * (nchunks - 1), n
    elif kind == "lastfull0":                 # the last complete chunk
        k = n // c
        lo, hi = (c * (k - 1), c * k) if k else (0, 0)
    elif kind == "first0":
        lo, hi = 0, min(c, n)
    else:                                     # mid0
        m = nchunks // 2
        lo, hi = c * m, min(c * (m + 1), n)
    base[lo:hi] = bytes(hi - lo)
    return bytes(base)


_BIG = {}


def big_content(n):
    if n not in _BIG:
        unit = bytes((i * 37 + 11) % 251 + 1 for i in range(1009))
        _BIG[n] = (unit * (n // len(unit) + 1))[:n - 2] + bytes([n & 0xFF, (n >> 8) & 0xFF])[:min(2, n)]
    return _BIG[n]


def gen_tree(r, depth, c, budget, force_dir=False):
    """budget: [remaining number of large files] (only matters for the 64000-byte chunk)"""
    k = r.below(10)
    if not force_dir and (depth == 0 or k < 4):
        if k == 0 and depth < 4:
            return ("X", r.choice(["fifo", "dangling"]))
        n = r.choice(sizes_for(c))
        if n > 1000:
            if budget[0] <= 0:
                n = r.choice([0, 1, 2, 999])
            else:
                budget[0] -= 1
        return ("F", content(r.choice(CONTENT_KINDS), n, c, r))
    fan = r.below(5) if not force_dir else r.range(1, 4)
    entries = []
    used = set()
    for i in range(fan):
        sub = gen_tree(r, depth - 1, c, budget)
        if sub[0] == "D":
            name = r.choice(["d%d", "d%d", "dir%d", "d%d.tmp", "d.%d"] + ([r.choice(ODD_DIRS)] if r.chance(1, 4) else [])) % i
        elif sub[0] == "F":
            name = r.choice(["f%d.txt", "f%d.tmp", "f%d", "x%d.bak", "f%d.tmp.txt", ".f%d", "f %d"]
                            + ([r.choice(ODD_FILES)] if r.chance(1, 3) else [])) % i
        else:
            name = r.choice(["s%d", "s%d.tmp"]) % i
        if name not in used:
            used.add(name)
            entries.append((name, ("L", sub) if sub[0] in "FD" and r.chance(1, 12) else sub))
    if r.chance(1, 2):
        add_colliders(r, entries, c)
    return ("D", entries)


def colliders(n):
    """names that collide with `n` under the usual temporary-name schemes (write-then-rename, editors, backups)"""
    return [n + ".part", n + ".tmp", n + "~", "." + n + ".swp", n + ".bak", n + ".new", n + ".0", "#" + n + "#",
            n + ".partial"]


def add_colliders(r, entries, c):
    """next to some entries put siblings whose names differ only by a temp-name scheme: files next to files, a file next
    to a directory, a directory next to a file; inserted before or after (creation order, hence listing order, varies)"""
    used = set(n for n, _t in entries)
    for name, sub in list(entries):
        if sub[0] == "X" or not r.chance(1, 2):
            continue
        for other in r.shuffle(colliders(name))[:r.range(1, 3)]:
            if other in used:
                continue
            used.add(other)
            if r.chance(1, 5):
                new = ("D", [("in", ("F", content(r.choice(CONTENT_KINDS), r.choice([0, 1, c, c + 1]) % 1000, c, r)))])
            else:
                new = ("F", content(r.choice(CONTENT_KINDS), r.choice([0, 1, c, c + 1, 2 * c]) % 1000, c, r))
            entries.insert(r.below(len(entries) + 1), (other, new))
    return entries


def collision_tree(reverse):
    """fixed corpus: three bases (a file, a directory, a dotted file name) each with every colliding sibling, a directory
    and a file differing only by such a suffix, at depth 0 and nested; `reverse` flips the creation order"""
    def level(tag):
        es = [("x", ("F", b"x-" + tag)), ("y", ("D", [("in", ("F", b"y-in-" + tag))])), ("data.bin", ("F", b"data-" + tag * 3))]
        for base in ("x", "y", "data.bin"):
            for k, n in enumerate(colliders(base)):
                es.append((n, ("F", ("%s/%d/" % (n, k)).encode() + tag)))
        es += [("z.part", ("D", [("in", ("F", b"zp-" + tag))])), ("z", ("F", b"z-" + tag)),
               ("w", ("D", [])), ("w.tmp", ("F", b"wt-" + tag)), ("v.new", ("D", [])), ("v", ("F", b"v" + tag))]
        return es
    inner = level(b"nested")
    top = level(b"top") + [("d1", ("D", [("d2", ("D", inner[::-1] if reverse else inner))]))]
    return ("D", top[::-1] if reverse else top)


def materialize(path, tree):
    if tree[0] == "L":
        # a symbolic link to an existing file / directory kept outside the tree: isdir/isfile follow it
        LINK["n"] += 1
        target = os.path.join(LINK["area"], "t%d" % LINK["n"])
        materialize(target, tree[1])
        os.symlink(target, path)
    elif tree[0] == "C":
        os.symlink(LINK["root"], path)          # a link back to the top of the tree: a cycle
    elif tree[0] == "F":
        with open(path, "wb") as f:
            f.write(tree[1])
    elif tree[0] == "X":
        if tree[1] == "fifo":
            os.mkfifo(path)
        elif tree[1] == "dangling":
            os.symlink(path + ".nowhere", path)
        # "missing": nothing
    else:
        os.mkdir(path)
        for name, sub in tree[1]:
            materialize(os.path.join(path, name), sub)


def read_tree(path):
    """what is on disk, entries in os.listdir order; None if absent"""
    if os.path.isdir(path):
        return ("D", [(n, read_tree(os.path.join(path, n))) for n in os.listdir(path)])
    if os.path.isfile(path):
        with open(path, "rb") as f:
            return ("F", f.read())
    if os.path.lexists(path):
        return ("X", "special")
    return None


def tree_text(tree):
    if tree[0] == "F":
        return "F" + tree[1].hex()
    if tree[0] == "X":
        return "X"
    if tree[0] == "L":
        return "L( " + tree_text(tree[1]) + " )"          # (replay files only; the model is given the listed tree)
    if tree[0] == "C":
        return "C"
    return "D( " + "".join("n%s %s " % (cps(n), tree_text(t)) for n, t in tree[1]) + ")"


def parse_tree(toks, i=0):
    tok = toks[i]
    if tok == "X":
        return ("X", "?"), i + 1
    if tok[0] == "F":
        return ("F", bytes.fromhex(tok[1:])), i + 1
    if tok == "C":
        return ("C",), i + 1
    if tok == "L(":
        sub, i = parse_tree(toks, i + 1)
        return ("L", sub), i + 1
    if tok == "D(":
        i += 1
        entries = []
        while toks[i] != ")":
            name = uncps(toks[i][1:])
            sub, i = parse_tree(toks, i + 1)
            entries.append((name, sub))
        return ("D", entries), i + 1
    raise ValueError("bad tree token %r" % tok)


def canon(tree):
    """order-independent, short text (contents by length + hash) for comparison; full bytes are compared too"""
    if tree is None:
        return "-"
    if tree[0] == "F":
        return "F%d:%s" % (len(tree[1]), tree[1].hex())
    if tree[0] == "X":
        return "X"
    return "D(" + ",".join("%s=%s" % (n, canon(t)) for n, t in sorted(tree[1])) + ")"


def brief(tree):
    if tree is None:
        return "-"
    if tree[0] == "L":
        return "->" + brief(tree[1])
    if tree[0] == "C":
        return "->top"
    if tree[0] == "F":
        return "F%d" % len(tree[1])
    if tree[0] == "X":
        return "X"
    return "D(" + ",".join("%s=%s" % (n, brief(t)) for n, t in sorted(tree[1])) + ")"


def content_class(b, c):
    """coarse class of a file's contents relative to the chunk size (for the distinctness rule and the distribution)"""
    if not b:
        return "e"
    if len(set(b)) == 1:
        return "u%02x" % b[0]
    tags = ""
    chunks = [b[i:i + c] for i in range(0, len(b), c)]
    if any(len(ch) == c and not any(ch) for ch in chunks):
        tags += "Z" if not any(chunks[-1]) else "z"
    if len(chunks) > 1 and any(chunks[i] == chunks[i - 1] for i in range(1, len(chunks))):
        tags += "d"
    if b"\r\n" in b or b"\n\r" in b:
        tags += "n"
    return tags or "o"


def shape(tree, c):
    if tree is None:
        return "-"
    if tree[0] == "F":
        return "F%d%s" % (len(tree[1]), content_class(tree[1], c))
    if tree[0] == "X":
        return "X"
    return "D(" + ",".join("%s=%s" % (n, shape(t, c)) for n, t in sorted(tree[1])) + ")"


def classes(tree, c, acc):
    if tree[0] == "F":
        k = content_class(tree[1], c)
        acc[k] = acc.get(k, 0) + 1
    elif tree[0] == "D":
        for _n, t in tree[1]:
            classes(t, c, acc)
    return acc


def count(tree, acc):
    if tree[0] == "F":
        acc["files"] += 1
        acc["bytes"] += len(tree[1])
    elif tree[0] == "X":
        acc["others"] += 1
    else:
        acc["dirs"] += 1
        if not tree[1]:
            acc["empty_dirs"] += 1
        for _n, t in tree[1]:
            count(t, acc)
    return acc


def depth_of(tree):
    return 0 if tree[0] != "D" else 1 + max([depth_of(t) for _n, t in tree[1]] or [0])


# ------------------------------------------------------------------------------------------ filters
class FalsyFilter:
    """a callable filter object that is falsy (say, a rule set with no rules that defines __len__): rejects every name"""

    def __bool__(self):
        return False

    def __call__(self, fn):
        return False


FILTERS = {
    "N": None,
    F_TMP: lambda fn: not fn.endswith(".tmp"),
    F_D: lambda fn: not fn.startswith("d"),
    "A": lambda fn: False,
    F_TXT: lambda fn: not fn.endswith(".txt"),
    "Z": FalsyFilter(),
}


# ------------------------------------------------------------------------------------------ the real code
class Rig:
    """a classic connection over the deterministic network + a scratch directory"""

    def __init__(self):
        import rpyc
        import simnet
        from rpyc.core.service import MasterService, SlaveService, VoidService
        self.net = simnet.Net()
        self.cm = self.net.installed()
        self.cm.__enter__()
        self.conn, self.peer = self.net.connect_pair(VoidService(), SlaveService(), {}, {})
        MasterService._install(self.conn, self.conn.root)
        self.root = tempfile.mkdtemp(prefix="verif-c20-", dir="/tmp")
        self.n = 0

    def close(self):
        try:
            self.net.shutdown([self.conn])
        finally:
            self.cm.__exit__(None, None, None)
            shutil.rmtree(self.root, ignore_errors=True)

    def run_case(self, case):
        """case: dict(direction, chunk, filter, ignore_invalid, tree, dest_exists) -> ("ok", dest tree or None) |
        ("err", name)"""
        import rpyc.utils.classic as classic
        self.n += 1
        base = os.path.join(self.root, "c%d" % self.n)
        os.mkdir(base)
        src = os.path.join(base, "src")
        dst = os.path.join(base, "dst")
        LINK["area"], LINK["root"] = os.path.join(base, "targets"), src
        os.mkdir(LINK["area"])
        tree = case["tree"]
        if not (tree[0] == "X" and tree[1] == "missing"):
            materialize(src, tree)
        if case.get("dest_exists"):
            os.mkdir(dst)
        filt = FILTERS[case["filter"]]
        kw = {} if case["chunk"] is None else dict(chunk_size=case["chunk"])      # None: the function's own default
        # the paths as the caller spells them (the tree transferred must not depend on the spelling)
        src_is_dir = os.path.isdir(src)
        src_arg = spell(src, case.get("src_spelling"), src_is_dir, base)
        dst_arg = spell(dst, case.get("dst_spelling"), src_is_dir, base)
        try:
            if case.get("parent"):
                # the destination lies below a regular file ("F") or below a directory that does not exist ("M")
                par = os.path.join(base, "par")
                if case["parent"] == "F":
                    with open(par, "wb") as f_:
                        f_.write(b"a regular file")
                dst = os.path.join(par, "dst")
                dst_arg = dst
            if case["direction"] == "upload_dir":
                classic.upload_dir(self.conn, src_arg, dst_arg)          # its own defaults: no filter, default chunk
            elif case["direction"] == "download_dir":
                classic.download_dir(self.conn, src_arg, dst_arg)
            elif case["direction"] == "upload":
                classic.upload(self.conn, src_arg, dst_arg, filter=filt, ignore_invalid=case["ignore_invalid"], **kw)
            elif case["direction"] == "download":
                classic.download(self.conn, src_arg, dst_arg, filter=filt, ignore_invalid=case["ignore_invalid"], **kw)
            elif case["direction"] == "upload_file":
                classic.upload_file(self.conn, src_arg, dst_arg, **kw)
            else:
                classic.download_file(self.conn, src_arg, dst_arg, **kw)
        except Exception as ex:  # noqa
            out = ("err", type(ex).__name__)
        else:
            out = ("ok", read_tree(dst))
        listed = read_tree(src) if os.path.lexists(src) else ("X", "missing")
        shutil.rmtree(base, ignore_errors=True)
        return out, listed


def set_mtimes(src, dst, policy):
    """the modification times of the source files relative to what is at the destination: "old" = long ago, "same" =
    exactly the destination file's where there is one (else long ago), "now" = as created"""
    if policy == "now":
        return
    todo = [(src, dst)]
    while todo:
        s_, d_ = todo.pop()
        if os.path.isdir(s_) and not os.path.islink(s_):
            for n in os.listdir(s_):
                todo.append((os.path.join(s_, n), os.path.join(d_, n)))
        elif os.path.isfile(s_) and not os.path.islink(s_):
            ns = 10 ** 18
            if policy == "same" and os.path.isfile(d_):
                ns = os.stat(d_).st_mtime_ns
            os.utime(s_, ns=(ns, ns))


def run_history(rig, hist):
    """hist: dict(direction, steps=[dict(chunk, filter, tree, mtime)]) - every step transfers its own source to the SAME
    destination name.  Returns per step (listed source, destination before, outcome)."""
    import rpyc.utils.classic as classic
    rig.n += 1
    base = os.path.join(rig.root, "h%d" % rig.n)
    os.mkdir(base)
    dst = os.path.join(base, "dst")
    out = []
    try:
        LINK["area"] = os.path.join(base, "targets")
        os.mkdir(LINK["area"])
        for i, st in enumerate(hist["steps"]):
            src = os.path.join(base, "src%d" % i)
            LINK["root"] = src
            materialize(src, st["tree"])
            set_mtimes(src, dst, st.get("mtime", "now"))
            before = read_tree(dst)
            kw = {} if st["chunk"] is None else dict(chunk_size=st["chunk"])
            fn = classic.upload if hist["direction"] == "upload" else classic.download
            src_is_dir = os.path.isdir(src)
            try:
                fn(rig.conn, spell(src, st.get("src_spelling"), src_is_dir, base),
                   spell(dst, st.get("dst_spelling"), src_is_dir, base), filter=FILTERS[st["filter"]],
                   ignore_invalid=False, **kw)
            except Exception as ex:  # noqa
                res = ("err", type(ex).__name__)
            else:
                res = ("ok", read_tree(dst))
            out.append((read_tree(src), before, res))
    finally:
        shutil.rmtree(base, ignore_errors=True)
    return out


def history_line(hist, st, listed, before):
    c = default_chunk(hist["direction"]) if st["chunk"] is None else st["chunk"]
    return "files over %s %d %s F %s %s" % (hist["direction"], c, st["filter"],
                                            "-" if before is None else tree_text(before), tree_text(listed))


def same_size_variant(tree, salt):
    """the same tree with every file's bytes changed and its size kept"""
    if tree[0] == "F":
        return ("F", bytes((b + 1 + salt + i) & 0xFF for i, b in enumerate(tree[1])))
    if tree[0] == "D":
        return ("D", [(n, same_size_variant(t, salt + k)) for k, (n, t) in enumerate(tree[1])])
    return tree


def resized_variant(tree, r):
    """the same tree with files shrunk, grown or emptied (a later transfer must not leave the old tail behind)"""
    if tree[0] == "F":
        n = len(tree[1])
        m = r.choice([0, n // 2, max(n - 1, 0), n + 1, n + 7])
        return ("F", bytes((i * 5 + 3) & 0xFF for i in range(m)))
    if tree[0] == "D":
        return ("D", [(n, resized_variant(t, r)) for n, t in tree[1]])
    return tree


def boundary_histories():
    out = []
    for d in ("upload", "download"):
        for c in (1, 7, None):
            for n in (1, 7, 8, 15):
                for pol in ("old", "same", "now"):
                    a = content("pattern", n, c or 64000)
                    b = bytes((x + 1) & 0xFF for x in a)
                    out.append(dict(direction=d, steps=[dict(chunk=c, filter="N", tree=("F", a), mtime="now"),
                                                        dict(chunk=c, filter="N", tree=("F", b), mtime=pol)]))
        v1 = ("D", [("a.txt", ("F", b"version-1")), ("keep", ("F", b"same")), ("b.tmp", ("F", b"tmp1")),
                    ("d1", ("D", [("c", ("F", b"cccc")), ("d2", ("D", [("deep", ("F", b"deep-1"))])), ("e", ("D", []))]))])
        v2 = ("D", [("a.txt", ("F", b"VERSION-2")), ("keep", ("F", b"same")), ("b.tmp", ("F", b"tmp2")),
                    ("d1", ("D", [("c", ("F", b"CC")), ("d2", ("D", [("deep", ("F", b"DEEP-2"))])), ("e", ("D", [])),
                                  ("new", ("F", b"n"))]))])
        for c in (7, None):
            for f in ("N", F_TMP):
                for pol in ("old", "same"):
                    out.append(dict(direction=d, steps=[dict(chunk=c, filter=f, tree=v1, mtime="now"),
                                                        dict(chunk=c, filter=f, tree=v2, mtime=pol),
                                                        dict(chunk=c, filter=f, tree=v1, mtime="old")]))     # roll-back
    return out


def conflict_histories():
    """a regular file where a directory has to be made, a directory where a file has to be written - at the top and below"""
    out = []
    f, dd = ("F", b"file"), ("D", [("in", ("F", b"x"))])
    for d in ("upload", "download"):
        out.append(dict(direction=d, conflict=True, steps=[dict(chunk=2, filter="N", tree=f), dict(chunk=2, filter="N", tree=dd)]))
        out.append(dict(direction=d, conflict=True, steps=[dict(chunk=2, filter="N", tree=dd), dict(chunk=2, filter="N", tree=f)]))
        out.append(dict(direction=d, conflict=True, steps=[
            dict(chunk=7, filter="N", tree=("D", [("a", ("F", b"1")), ("n", f), ("z", ("F", b"2"))])),
            dict(chunk=7, filter="N", tree=("D", [("a", ("F", b"3")), ("n", dd), ("z", ("F", b"4"))])),
            dict(chunk=7, filter="N", tree=("D", [("n", ("F", b"again"))]))]))
        out.append(dict(direction=d, conflict=True, steps=[
            dict(chunk=7, filter="N", tree=("D", [("n", dd)])), dict(chunk=7, filter="N", tree=("D", [("n", f)]))]))
    return out


def gen_history(r):
    c = r.choice([1, 2, 7, None])
    t = gen_tree(r, r.range(1, 3), c or 7, [0], force_dir=r.chance(3, 4))
    t = strip_others(t)
    steps = [dict(chunk=c, filter="N", tree=t, mtime="now"),
             dict(chunk=c, filter=r.choice(["N", "N", F_TMP]),
                  tree=same_size_variant(t, r.below(200)) if r.chance(1, 2) else resized_variant(t, r),
                  mtime=r.choice(["old", "same", "now"]))]
    if r.chance(1, 2):
        steps.append(dict(chunk=c, filter="N", tree=t, mtime=r.choice(["old", "same"])))
    return dict(direction=r.choice(["upload", "download"]), steps=steps)


def strip_others(tree):
    if tree[0] == "L":
        return strip_others(tree[1])
    if tree[0] == "D":
        return ("D", [(n, strip_others(t)) for n, t in tree[1] if t[0] != "X"])
    return tree if tree[0] == "F" else ("F", b"")


def covers(want, have):
    """every file of `want` is in `have` under the same relative name with the same bytes, every directory exists; `have`
    may hold more (what earlier transfers left)"""
    if want is None:
        return True
    if have is None or want[0] != have[0]:
        return False
    if want[0] == "F":
        return want[1] == have[1]
    if want[0] == "D":
        d = dict(have[1])
        return all(n in d and covers(t, d[n]) for n, t in want[1])
    return True


def history_desc(hist, upto=None):
    steps = hist["steps"][:upto]
    return "%s to one name: %s" % (hist["direction"], " ; then ".join(
        "chunk=%s filter=%s mtime=%s %s" % ("default" if st["chunk"] is None else st["chunk"], st["filter"],
                                            st.get("mtime", "now"), brief(st["tree"])) for st in steps))


def history_replay(hist):
    return dict(kind="history", direction=hist["direction"], steps=[
        dict(chunk=st["chunk"], filter=st["filter"], mtime=st.get("mtime", "now"), tree=tree_text(st["tree"]))
        for st in hist["steps"]])


def oracle_history(rig, hist):
    """the statement on a history: after every transfer the destination holds the LAST source's files byte for byte"""
    for i, (listed, _before, res) in enumerate(run_history(rig, hist)):
        want = spec_prune(listed, FILTERS[hist["steps"][i]["filter"]])
        if res[0] != "ok" or not covers(want, res[1]):
            return "%s: after step %d the destination is %s, the statement requires the last source %s byte for byte" % (
                history_desc(hist, i + 1)[:500], i + 1, show_diff(want, res), brief(want)[:200])
    return None


def show_diff(want, res):
    if res[0] != "ok":
        return "err " + res[1]
    bad = []

    def walk(w, h, path):
        if w is None:
            return
        if h is None or w[0] != h[0]:
            bad.append("%s: %s" % (path or ".", brief(h)))
        elif w[0] == "F" and w[1] != h[1]:
            bad.append("%s: %d bytes %s.. instead of %s.." % (path or ".", len(h[1]), h[1][:8].hex(), w[1][:8].hex()))
        elif w[0] == "D":
            d = dict(h[1])
            for n, t in w[1]:
                walk(t, d.get(n), path + "/" + n)
    walk(want, res[1], "")
    return "wrong at " + "; ".join(bad[:4])


SPELLINGS = ["plain", "trail", "double", "dot", "rel", "linkparent", "trail+double"]


def spell(path, how, is_dir, base):
    """another spelling of the same path: a trailing separator (directories only), doubled separators, a './' component,
    a path relative to the working directory, a path through a symbolic link to the parent directory.  The tree that
    is transferred must not depend on it."""
    if how == "plain" or not how:
        return path
    out = path
    if "linkparent" in how:
        link = base + ".lnk"
        if not os.path.lexists(link):
            os.symlink(base, link)
        out = os.path.join(link, os.path.relpath(path, base))
    if "rel" in how:
        out = os.path.relpath(out)
    if "dot" in how:
        head, tail = os.path.split(out)
        out = os.path.join(head, ".", tail)
    if "double" in how:
        head, tail = os.path.split(out)
        out = head + os.sep + os.sep + tail
    if "trail" in how and is_dir:
        out = out + os.sep
    return out


def default_chunk(direction):
    """the default chunk_size of the live function (what a call without chunk_size uses)"""
    import inspect
    import rpyc.utils.classic as classic
    return inspect.signature(getattr(classic, direction)).parameters["chunk_size"].default


def chunk_of(case):
    return default_chunk(case["direction"]) if case["chunk"] is None else case["chunk"]


def op_line(case, listed):
    if case["direction"] in ("upload_dir", "download_dir"):
        d = case["direction"][:-4]
        return "files %s %d N T %s" % (d, default_chunk(case["direction"]), tree_text(listed))
    if case.get("parent"):
        return "files under %s %d %s %s %s %s" % (case["direction"], chunk_of(case), case["filter"],
                                                  "T" if case["ignore_invalid"] else "F", case["parent"], tree_text(listed))
    if case["direction"] in ("upload_file", "download_file"):
        return "files copy %d %s" % (chunk_of(case), listed[1].hex())
    return "files %s %d %s %s %s" % (case["direction"], chunk_of(case), case["filter"],
                                     "T" if case["ignore_invalid"] else "F", tree_text(listed))


def model_outcome(line):
    if line.startswith("err "):
        return ("err", line[4:])
    if line == "ok -":
        return ("ok", None)
    if not line.startswith("ok"):
        return ("bad", line)
    rest = line[3:]
    if not rest or rest[0] not in "DFX":
        return ("ok", ("F", bytes.fromhex(rest)))          # `files copy`
    tree, _ = parse_tree(rest.split())
    return ("ok", tree)


def show_outcome(o):
    return "%s %s" % (o[0], canon(o[1]) if o[0] == "ok" else o[1])


def show_brief(o):
    return "%s %s" % (o[0], brief(o[1]) if o[0] == "ok" else o[1])


# ------------------------------------------------------------------------------------------ cases
def boundary_cases():
    out = []
    for c in CHUNKS:
        for n in sizes_for(c):
            data = bytes((i * 31 + n) & 0xFF for i in range(n))
            for d in ("upload_file", "download_file"):
                out.append(dict(direction=d, chunk=c, filter="N", ignore_invalid=False, tree=("F", data)))
    for c in (3, 5, 8, 64, 1000, 4096):
        for n in (0, 1, c - 1, c, c + 1, 2 * c - 1, 2 * c, 2 * c + 1, 3 * c + 1):
            data = bytes((i * 7 + 1) & 0xFF for i in range(n))
            out.append(dict(direction="upload_file", chunk=c, filter="N", ignore_invalid=False, tree=("F", data)))
            out.append(dict(direction="download_file", chunk=c, filter="N", ignore_invalid=False, tree=("F", data)))
    # contents shaped against the chunk size, every boundary size, both directions
    for c in (1, 2, 7):
        for n in sizes_for(c):
            for kind in CONTENT_KINDS:
                for d in ("upload_file", "download_file"):
                    out.append(dict(direction=d, chunk=c, filter="N", ignore_invalid=False, tree=("F", content(kind, n, c))))
    for c in (3, 5, 8, 64, 512, 1000, 4096):
        for n in (c, 2 * c, 3 * c + 1):
            for kind in ("zeros", "last0", "lastfull0", "mid0", "dup", "crlf"):
                for d in ("upload_file", "download_file"):
                    out.append(dict(direction=d, chunk=c, filter="N", ignore_invalid=False, tree=("F", content(kind, n, c))))
    for n in (64000, 64001, 128000, 192001):
        for kind in ("zeros", "lastfull0", "dup", "rep0a"):
            for d in ("upload_file", "download_file"):
                out.append(dict(direction=d, chunk=64000, filter="N", ignore_invalid=False,
                                tree=("F", content(kind, n, 64000))))
            out.append(dict(direction="upload_file" if kind in ("zeros", "dup") else "download_file", chunk=None,
                            filter="N", ignore_invalid=False, tree=("F", content(kind, n, 64000))))
    # names that are not plain ASCII: accents, CJK, an astral code point, a newline, a tab, leading / trailing blanks, and
    # names that are not valid UTF-8 (lone surrogates from os.fsdecode) - on files and directories, nested
    odd = ("D", [("\u00e9.txt", ("F", b"e-acute")), ("\u65e5\u672c.tmp", ("F", b"nihon")), ("nl\nname", ("F", b"newline")),
                 ("trail ", ("F", b"trailing blank")), (" lead.tmp", ("F", b"leading blank")), ("\udcff", ("F", b"byte ff")),
                 ("f\udc80.tmp", ("F", b"byte 80")), ("\U0001f600", ("F", b"astral")), ("tab\t.bak", ("F", b"tab")),
                 ("d\u00e9", ("D", [("\udcfe\udcff", ("F", b"two bad bytes")), ("e\u0301", ("D", [])),
                                  ("d\n.tmp", ("D", [("x", ("F", b"in newline dir"))]))]))])
    for d in ("upload", "download"):
        for f in ("N", F_TMP, F_D):
            out.append(dict(direction=d, chunk=7, filter=f, ignore_invalid=False, tree=odd))
        out.append(dict(direction=d, chunk=None, filter="N", ignore_invalid=False, tree=odd, dest_exists=True))
    # symbolic links to a file, to a directory (followed by isdir/isfile), nested; and a link back to the top (a cycle:
    # the kernel stops following after 40 links, there the entry is neither file nor directory)
    linked = ("D", [("plain", ("F", b"p")), ("lf", ("L", ("F", b"linked file" * 3))),
                    ("ld", ("L", ("D", [("in", ("F", b"inside")), ("lf2.tmp", ("L", ("F", b"x"))), ("e", ("D", []))]))),
                    ("d1", ("D", [("ld2", ("L", ("D", []))), ("dang", ("X", "dangling"))]))])
    cyc = ("D", [("f", ("F", b"ff")), ("sub", ("D", [("g.tmp", ("F", b"g")), ("loop", ("C",))]))])
    for d in ("upload", "download"):
        for f in ("N", F_TMP):
            out.append(dict(direction=d, chunk=7, filter=f, ignore_invalid=False, tree=linked))
        out.append(dict(direction=d, chunk=2, filter="N", ignore_invalid=False, tree=cyc))
        out.append(dict(direction=d, chunk=2, filter="N", ignore_invalid=False, tree=("L", ("F", b"top-level link"))))
        # a filter object that is falsy
        out.append(dict(direction=d, chunk=7, filter="Z", ignore_invalid=False, tree=odd))
        out.append(dict(direction=d, chunk=1, filter="Z", ignore_invalid=True, tree=("D", [("a", ("F", b"1")), ("d", ("D", []))])))
    # upload_dir / download_dir called directly, with their own defaults (no filter, the default chunk size)
    dd_ = ("D", [("a.txt", ("F", b"abc")), ("empty", ("D", [])), ("b.tmp", ("F", b"\x00" * 15)), ("lnk", ("X", "dangling")),
                 ("d1", ("D", [("c.txt", ("F", b"")), ("d.tmp", ("D", [("x", ("F", b"7"))]))]))])
    for d in ("upload_dir", "download_dir"):
        out.append(dict(direction=d, chunk=None, filter="N", ignore_invalid=True, tree=dd_))
        out.append(dict(direction=d, chunk=None, filter="N", ignore_invalid=True, tree=("D", [])))
        out.append(dict(direction=d, chunk=None, filter="N", ignore_invalid=True, dest_exists=True,
                        tree=("D", [("big", ("F", big_content(64001))), ("d", ("D", [("x.tmp", ("F", b"x"))]))])))
    # the destination below a regular file / below a directory that does not exist
    for d in ("upload", "download"):
        for par in ("F", "M"):
            for t in (("F", b"file"), ("D", [("a", ("F", b"1")), ("e", ("D", []))]), ("X", "fifo")):
                for ii in (False, True):
                    out.append(dict(direction=d, chunk=7, filter="N", ignore_invalid=ii, tree=t, parent=par))
    # the same transfer with the source / destination path spelt differently: trailing separator, doubled separators,
    # './', relative, through a symlinked parent - files and trees with sub-directories, both directions
    deep = ("D", [("top.txt", ("F", b"top")), ("sub", ("D", [("in.txt", ("F", b"in")), ("deeper", ("D", [("leaf", ("F", b"leaf"))])),
                                                         ("empty", ("D", []))])), ("b.tmp", ("F", b"tmp"))])
    for d in ("upload", "download"):
        for sp in SPELLINGS[1:]:
            out.append(dict(direction=d, chunk=7, filter="N", ignore_invalid=False, tree=deep, src_spelling=sp))
            out.append(dict(direction=d, chunk=7, filter=F_TMP, ignore_invalid=False, tree=deep, dst_spelling=sp))
            out.append(dict(direction=d, chunk=None, filter="N", ignore_invalid=False, tree=deep, src_spelling=sp,
                            dst_spelling=sp, dest_exists=True))
            out.append(dict(direction=d, chunk=2, filter="N", ignore_invalid=False, tree=("F", b"a single file"),
                            src_spelling=sp, dst_spelling=sp))
            out.append(dict(direction=d + "_file", chunk=2, filter="N", ignore_invalid=False, tree=("F", b"file fn"),
                            src_spelling=sp, dst_spelling=sp))
    # names colliding under temp-name schemes, both creation orders, both directions
    for d in ("upload", "download"):
        for rev in (False, True):
            out.append(dict(direction=d, chunk=7, filter="N", ignore_invalid=False, tree=collision_tree(rev)))
            out.append(dict(direction=d, chunk=None, filter=F_TMP, ignore_invalid=False,
                            tree=collision_tree(rev)))
    # chunk sizes ABOVE the stream chunk (consts.STREAM_CHUNK = 64000), file sizes around and above it
    for c in (64001, 100000, 128000, 1048576):
        for n in (63999, 64000, 64001, 128000, 128001, 200000):
            for d in ("upload_file", "download_file"):
                out.append(dict(direction=d, chunk=c, filter="N", ignore_invalid=False, tree=("F", big_content(n))))
    bigt = ("D", [("a", ("F", big_content(128001))), ("d1", ("D", [("b", ("F", big_content(64000))), ("c", ("F", b"c"))]))])
    for d in ("upload", "download"):
        out.append(dict(direction=d, chunk=100000, filter="N", ignore_invalid=False, tree=bigt))
    zt = ("D", [("z1", ("F", bytes(14))), ("z2", ("F", content("last0", 21, 7))), ("d1", ("D", [
        ("nl", ("F", content("crlf", 15, 7))), ("dup", ("F", content("dup", 28, 7))), ("ff", ("F", b"\xff" * 7))]))])
    for d in ("upload", "download"):
        for c in (1, 7):
            out.append(dict(direction=d, chunk=c, filter="N", ignore_invalid=False, tree=zt))
    sample = ("D", [("a.txt", ("F", b"abc")), ("empty", ("D", [])), ("b.tmp", ("F", b"\x00" * 15)),
                    ("d1", ("D", [("c.txt", ("F", b"")), ("s", ("X", "fifo")), ("d.tmp", ("D", [("x", ("F", b"7"))])),
                                  ("d2", ("D", [("d3", ("D", [("deep.txt", ("F", b"deep" * 5))]))]))])),
                    ("lnk", ("X", "dangling"))])
    for d in ("upload", "download"):
        for f in FILTERS:
            for ii in (False, True):
                out.append(dict(direction=d, chunk=7, filter=f, ignore_invalid=ii, tree=sample))
                out.append(dict(direction=d, chunk=2, filter=f, ignore_invalid=ii, tree=("F", b"top-level file.tmp")))
                for kind in ("fifo", "dangling", "missing"):
                    out.append(dict(direction=d, chunk=2, filter=f, ignore_invalid=ii, tree=("X", kind)))
                out.append(dict(direction=d, chunk=1, filter=f, ignore_invalid=ii, tree=("D", [])))
                out.append(dict(direction=d, chunk=1, filter=f, ignore_invalid=ii, tree=("D", []), dest_exists=True))
        out.append(dict(direction=d, chunk=64000, filter="N", ignore_invalid=False, dest_exists=True, tree=sample))
        # without chunk_size: the functions' own default
        out.append(dict(direction=d, chunk=None, filter="N", ignore_invalid=False, tree=sample))
        out.append(dict(direction=d, chunk=None, filter=F_TMP, ignore_invalid=False, tree=sample))
        for n in (0, 1, 63999, 64000, 64001):
            out.append(dict(direction=d + "_file", chunk=None, filter="N", ignore_invalid=False,
                            tree=("F", bytes((i * 13 + 5) & 0xFF for i in range(n)))))
    return out


def gen_case(r):
    c = r.choice(CHUNKS)
    tree = gen_tree(r, r.range(1, 4), c, [3], force_dir=r.chance(5, 6))
    return dict(direction=r.choice(["upload", "download"]), chunk=c, filter=r.choice(sorted(FILTERS)),
                ignore_invalid=r.chance(1, 2), tree=tree, dest_exists=r.chance(1, 5) and tree[0] == "D",
                src_spelling=r.choice(SPELLINGS) if r.chance(1, 2) else None,
                dst_spelling=r.choice(SPELLINGS) if r.chance(1, 3) else None)


def case_desc(case, listed=None):
    return "%s%s chunk=%s filter=%s ignore_invalid=%s dest_exists=%s tree=%s" % (
        case["direction"], "" if not (case.get("src_spelling") or case.get("dst_spelling")) else "[paths spelt src:%s dst:%s]" % (
            case.get("src_spelling") or "plain", case.get("dst_spelling") or "plain"),
        "default" if case["chunk"] is None else case["chunk"], case["filter"], case["ignore_invalid"], bool(case.get("dest_exists")),
        brief(listed if listed is not None else case["tree"]))


def correspondence(ctx):
    c = Corr()
    c.rule = ("boundary corpus: upload_file/download_file for every size in {0,1,c-1,c,c+1,2c,3c+1} x c in "
              "{1,2,7,64000} and 9 sizes around multiples for c in {3,5,8,64,1000,4096}; a fixed nested tree x 5 filters "
              "x ignore_invalid x both directions; top-level file / fifo / dangling link / missing path; empty tree; "
              "existing empty destination; then seeded trees (depth <= 4, fan-out <= 4, empty dirs, fifos, dangling links, "
              "names with the filtered suffix/prefix on files and directories) x chunk x filter x direction. "
              "Sibling names colliding under temp-name schemes (x with x.part, x.tmp, x~, .x.swp, x.bak, x.new, x.0, #x#, "
              "x.partial; file vs directory differing by such a suffix) in a fixed corpus tree at depth 0 and nested, both "
              "creation orders, and sprinkled into seeded trees. Chunk sizes above the stream chunk (64001, 100000, 128000, "
              "1048576) x sizes {63999, 64000, 64001, 128000, 128001, 200000}, both directions. "
              "Histories to ONE destination name: file A then file B of the same size and different bytes with B's source "
              "mtime long ago / equal to the destination's / fresh; a tree, a new version of it (same-size changes, a size "
              "change, a new file), then the first version again (roll-back); seeded trees re-transferred with every file "
              "changed at equal size; each step compared with the model started from the real destination before it. "
              "Path spellings of the source / destination argument (trailing separator, doubled separators, './', relative, "
              "through a symlinked parent): the destination must be the same tree whatever the spelling (the model has no "
              "path spelling: a metamorphic relation of the harness). "
              "Names: accents, CJK, astral, newline, tab, leading/trailing blank, lone surrogates (undecodable bytes) on files and "
              "directories, transported as code points; symbolic links to a file / a directory (followed), a link cycle; a "
              "falsy callable as filter; a file where a directory is needed and the reverse (FileExistsError / "
              "IsADirectoryError). "
              "File contents: random, all zeros, last / last complete / first / middle chunk all zeros, one repeated "
              "byte (00, ff, 0a, 0d), CR/LF-heavy, every chunk equal to the previous one, a zero-free pattern - at every "
              "boundary size for chunk 1, 2, 7 and at c, 2c, 3c+1 for the others, both directions. "
              "Non-trivial = at least one file or an error; distinct = distinct (direction, chunk, filter, shape of "
              "source with sizes and content class relative to the chunk, outcome).")
    r = Rng(ctx.seed).fork("c20")
    cases = boundary_cases() + [gen_case(r) for _ in range(ctx.budget(120, 4000))]
    rig = Rig()
    impl, lines = [], []
    try:
        for case in cases:
            out, listed = rig.run_case(case)
            impl.append((case, listed, out))
            lines.append(op_line(case, listed))
        hists = boundary_histories() + conflict_histories() + [gen_history(r) for _ in range(ctx.budget(15, 600))]
        hist_steps, hist_lines = [], []
        for hist in hists:
            for i, (listed, before, res) in enumerate(run_history(rig, hist)):
                hist_steps.append((hist, i, listed, before, res))
                hist_lines.append(history_line(hist, hist["steps"][i], listed, before))
    finally:
        rig.close()
    try:
        outs = run_driver(lines, exe="drv_files")
        hist_outs = run_driver(hist_lines, exe="drv_files")
    except DriverError as ex:
        c.error = str(ex)
        return c
    for (hist, i, listed, before, want), got_line in zip(hist_steps, hist_outs):
        c.evaluations += 1
        got = model_outcome(got_line)
        st = hist["steps"][i]
        c.count("history:step%d:%s:mtime-%s" % (i + 1, hist["direction"], st.get("mtime", "now")))
        if show_outcome(got) != show_outcome(want):
            c.disagreements.append(dict(case=history_desc(hist, i + 1)[:600] + " [destination before: %s]" % brief(before)[:200],
                                        impl=show_brief(want)[:300], model=show_brief(got)[:300],
                                        replay=history_replay(dict(hist, steps=hist["steps"][:i + 1]))))
        else:
            c.signatures.add("history|%s|%d|%s|%s|%s|%s" % (hist["direction"], i, st["chunk"], st["filter"],
                                                          st.get("mtime"), shape(listed, 7)))
            if i and len(c.samples) < 14 and c.evaluations % 29 == 0:
                c.samples.append(dict(case=history_desc(hist, i + 1)[:400], outcome=show_brief(want)[:200]))
    tot = dict(files=0, dirs=0, others=0, empty_dirs=0, bytes=0)
    for (case, listed, want), got_line in zip(impl, outs):
        c.evaluations += 1
        got = model_outcome(got_line)
        c.count("direction:" + case["direction"])
        if case.get("src_spelling") or case.get("dst_spelling"):
            c.count("path-spelling:src=%s,dst=%s" % (case.get("src_spelling") or "plain", case.get("dst_spelling") or "plain"))
        if case.get("parent"):
            c.count("destination-parent:" + case["parent"])
        names = all_names(listed)
        if any(ord(ch) > 127 or ch in "\n\t" or n != n.strip() for n in names for ch in n):
            c.count("names:non-ascii-or-control-or-blank-padded")
        if any(0xDC80 <= ord(ch) <= 0xDCFF for n in names for ch in n):
            c.count("names:undecodable-bytes")
        if has_link(case["tree"]):
            c.count("source:symbolic-links")
        c.count("chunk:%s" % ("default" if case["chunk"] is None else case["chunk"]))
        c.count("filter:" + case["filter"])
        c.count("outcome:" + (want[0] if want[0] == "ok" and want[1] is not None else
                              "nothing-created" if want[0] == "ok" else "err " + want[1]))
        c.count("depth:%d" % depth_of(listed))
        count(listed, tot)
        if show_outcome(got) != show_outcome(want):
            c.disagreements.append(dict(case=case_desc(case, listed), impl=show_brief(want), model=show_brief(got),
                                        replay=dict(kind="input", direction=case["direction"], chunk=case["chunk"],
                                                    filter=case["filter"], ignore_invalid=case["ignore_invalid"],
                                                    dest_exists=bool(case.get("dest_exists")),
                                                    src_spelling=case.get("src_spelling"), dst_spelling=case.get("dst_spelling"),
                                                    tree=tree_text(case["tree"])
                                                    if len(tree_text(case["tree"])) < 20000 else None,
                                                    other_kinds=other_kinds(case["tree"]))))
            continue
        acc = count(listed, dict(files=0, dirs=0, others=0, empty_dirs=0, bytes=0))
        if acc["files"] or want[0] == "err":
            c.signatures.add("%s|%s|%s|%s|%s" % (case["direction"], case["chunk"], case["filter"],
                                                 shape(listed, chunk_of(case)), show_brief(want)))
        for k, v in classes(listed, chunk_of(case), {}).items():
            c.count("content:" + k, v)
        if len(c.samples) < 12 and c.evaluations % 37 == 5:
            c.samples.append(dict(case=case_desc(case, listed)[:400], outcome=show_brief(want)[:300]))
    for k, v in tot.items():
        c.count("source:" + k, v)
    c.exhaustive = False
    return c


def all_names(tree):
    if tree is None or tree[0] != "D":
        return []
    return [n for n, _t in tree[1]] + [x for _n, t in tree[1] for x in all_names(t)]


def has_link(tree):
    if tree[0] in "LC":
        return True
    return tree[0] == "D" and any(has_link(t) for _n, t in tree[1])


def other_kinds(tree):
    if tree[0] == "L":
        return other_kinds(tree[1])
    if tree[0] == "X":
        return [tree[1]]
    if tree[0] == "D":
        return [k for _n, t in tree[1] for k in other_kinds(t)]
    return []


# ------------------------------------------------------------------------------------------ direct oracle (real code only)
def spec_prune(tree, filt):
    """the statement: every file byte for byte under the same relative names; the filter excludes exactly the entries
    (names) it rejects; things that are neither files nor directories cannot be transferred"""
    if tree[0] == "F":
        return tree
    if tree[0] == "X":
        return None
    kept = []
    for name, sub in tree[1]:
        if filt is not None and not filt(name):
            continue
        p = spec_prune(sub, filt)
        if p is not None:
            kept.append((name, p))
    return ("D", kept)


def oracle_case(rig, case):
    if case["filter"] == "Z":
        return None        # a falsy callable as filter: the code ignores it; reported, not judged here
    if case.get("parent"):
        return None        # a destination that cannot be created (OSError of the underlying call): outside the statement
    out, listed = rig.run_case(case)
    if case["direction"] in ("upload_file", "download_file"):
        want = ("ok", listed)
    elif case["direction"] in ("upload_dir", "download_dir"):
        want = ("ok", spec_prune(listed, None))
    else:
        p = spec_prune(listed, FILTERS[case["filter"]])
        if p is None:
            want = ("ok", None) if case["ignore_invalid"] else ("err", "ValueError")
        else:
            want = ("ok", p)
    if show_outcome(out) != show_outcome(want):
        return "%s: destination is %s, the statement requires %s" % (case_desc(case, listed)[:300], show_brief(out)[:300],
                                                                      show_brief(want)[:300])
    return None


def shrink_tree(tree):
    """smaller candidates"""
    if tree[0] == "D":
        for i in range(len(tree[1])):
            yield ("D", tree[1][:i] + tree[1][i + 1:])
        for i, (n, t) in enumerate(tree[1]):
            for s in shrink_tree(t):
                yield ("D", tree[1][:i] + [(n, s)] + tree[1][i + 1:])
    elif tree[0] == "L":
        yield tree[1]
    elif tree[0] == "F" and len(tree[1]) > 0:
        yield ("F", tree[1][:len(tree[1]) // 2])
        yield ("F", tree[1][:-1])


def oracle_search(ctx, corr, broken):
    r = Rng(ctx.seed).fork("c20-search")
    deadline = _walltime.time() + ctx.budget(60, 600)
    rig = Rig()
    try:
        def check(case):
            try:
                return oracle_case(rig, case)
            except Exception as ex:  # noqa
                return "harness could not run the case: %s %s" % (type(ex).__name__, ex)

        def found(case, msg):
            cur = case
            progress = True
            while progress and _walltime.time() < deadline + 30:
                progress = False
                for t in shrink_tree(cur["tree"]):
                    cand = dict(cur, tree=t)
                    m = check(cand)
                    if m and not m.startswith("harness"):
                        cur, msg, progress = cand, m, True
                        break
            sig = "c20:%s:%s" % (cur["direction"].split("_")[0], "filter" if cur["filter"] != "N" else "copy")
            if sig in getattr(ctx, "known_signatures", ()):
                return None
            return (dict(kind="input", direction=cur["direction"], chunk=cur["chunk"], filter=cur["filter"],
                         ignore_invalid=cur["ignore_invalid"], dest_exists=bool(cur.get("dest_exists")),
                         src_spelling=cur.get("src_spelling"), dst_spelling=cur.get("dst_spelling"),
                         tree=tree_text(cur["tree"]), other_kinds=other_kinds(cur["tree"])), msg, sig)

        def check_history(hist):
            try:
                return oracle_history(rig, hist)
            except Exception as ex:  # noqa
                return None if isinstance(ex, OSError) else "harness could not run the history: %r" % (ex,)

        cands = []
        for d in corr.disagreements[:50]:
            rp = d.get("replay")
            if rp and rp.get("tree") and rp.get("kind") != "history":
                cands.append(case_from_replay(rp))
        def try_histories(hs):
            for hist in hs:
                msg = check_history(hist)
                if msg and not msg.startswith("harness"):
                    sig = "c20:history:" + hist["direction"]
                    if sig not in getattr(ctx, "known_signatures", ()):
                        return history_replay(hist), msg, sig
            return None

        def try_cases(cs):
            for case in cs:
                msg = check(case)
                if msg and not msg.startswith("harness"):
                    f = found(case, msg)
                    if f:
                        return f
            return None

        hcands = [history_from_replay(d["replay"]) for d in corr.disagreements[:30]
                  if d.get("replay", {}).get("kind") == "history"]
        f = try_cases(cands) or try_histories(hcands) or try_cases(boundary_cases()) or try_histories(boundary_histories())
        if f:
            return f
        while _walltime.time() < deadline:
            if r.chance(1, 4):
                hist = gen_history(r)
                msg = check_history(hist)
                if msg and not msg.startswith("harness"):
                    return history_replay(hist), msg, "c20:history:" + hist["direction"]
                continue
            case = gen_case(r)
            msg = check(case)
            if msg and not msg.startswith("harness"):
                f = found(case, msg)
                if f:
                    return f
        return None
    finally:
        rig.close()


def case_from_replay(rp):
    tree, _ = parse_tree(rp["tree"].split())
    kinds = list(rp.get("other_kinds") or [])

    def fix(t):
        if t[0] == "X":
            return ("X", kinds.pop(0) if kinds else "fifo")
        if t[0] == "D":
            return ("D", [(n, fix(s)) for n, s in t[1]])
        return t
    return dict(direction=rp["direction"], chunk=rp["chunk"], filter=rp["filter"], ignore_invalid=rp["ignore_invalid"],
                dest_exists=rp.get("dest_exists", False), src_spelling=rp.get("src_spelling"),
                dst_spelling=rp.get("dst_spelling"), tree=fix(tree))


def history_from_replay(rp):
    return dict(direction=rp["direction"], steps=[
        dict(chunk=st["chunk"], filter=st["filter"], mtime=st.get("mtime", "now"), tree=parse_tree(st["tree"].split())[0])
        for st in rp["steps"]])


def replay(case_d):
    if case_d.get("kind") == "history":
        hist = history_from_replay(case_d)
        rig = Rig()
        try:
            steps = run_history(rig, hist)
            res = dict(case=history_desc(hist), implementation=[show_brief(x[2]) for x in steps])
            res["oracle"] = oracle_history(rig, hist) or "holds"
            res["model"] = [show_brief(model_outcome(l)) for l in run_driver(
                [history_line(hist, hist["steps"][i], listed, before) for i, (listed, before, _r) in enumerate(steps)],
                exe="drv_files")]
            return res
        finally:
            rig.close()
    case = case_from_replay(case_d)
    rig = Rig()
    try:
        out, listed = rig.run_case(case)
        res = dict(case=case_desc(case, listed), implementation=show_brief(out))
        res["oracle"] = oracle_case(rig, case) or "holds"
        res["model"] = show_brief(model_outcome(run_driver([op_line(case, listed)], exe="drv_files")[0]))
        return res
    finally:
        rig.close()
