"""Generated constants of layer L2 "Wire" (rpyc/core/channel.py, rpyc/core/stream.py, rpyc/core/consts.py)
-> lean/RpycModel/Gen/Wire.lean.  Discovered by gen_consts.py through SECTIONS.

Only *data* is generated here: the frame header's field widths (from `Channel.FRAME_HEADER.format`),
the flusher bytes, the compression threshold and level, the I/O chunk sizes, the errnos on which
`SocketStream.read` retries, and the errnos the running interpreter turns into `socket.timeout`
(`OSError(ETIMEDOUT)` *is* a `TimeoutError` = `socket.timeout` on 3.10+, so `read` retries on it too).
The control flow of `send/recv/read/write` (strict `>` on the threshold, `<=` on the chunk size, the
cut at `MAX_IO_CHUNK - header size`, stripping `len(FLUSHER)` bytes, retry vs. fatal) is modelled by
hand in lean/RpycModel/Wire/Model.lean and tied to the code behaviourally by the C05 correspondence at
exactly those boundaries, so that harmless rewrites of the code are not flagged.
"""
import errno
import socket
import struct

from gen_consts import Inexpressible, lean_list, lean_str

# unsigned struct codes in network byte order ("!"): standard sizes, no padding
UNSIGNED = {"B": 1, "H": 2, "I": 4, "L": 4, "Q": 8}


def _nat(name, v):
    if type(v) is not int or v < 0:
        raise Inexpressible("%s is not a natural number: %r" % (name, v))
    return v


def gen_wire():
    from rpyc.core import channel, consts, stream
    C = channel.Channel
    L = ["namespace Rpyc.Gen", ""]
    thr = _nat("Channel.COMPRESSION_THRESHOLD", C.COMPRESSION_THRESHOLD)
    lvl = C.COMPRESSION_LEVEL
    if type(lvl) is not int or not (-1 <= lvl <= 9):
        raise Inexpressible("Channel.COMPRESSION_LEVEL is not a zlib level: %r" % (lvl,))
    L += ["/-- `Channel.COMPRESSION_THRESHOLD`, `Channel.COMPRESSION_LEVEL` -/",
          "def compressionThreshold : Nat := %d" % thr,
          "def compressionLevel : Int := %s" % ("(%d)" % lvl if lvl < 0 else "%d" % lvl)]
    fmt = C.FRAME_HEADER.format
    if isinstance(fmt, bytes):
        fmt = fmt.decode()
    if not (isinstance(fmt, str) and len(fmt) == 3 and fmt[0] == "!" and fmt[1] in UNSIGNED and fmt[2] in UNSIGNED):
        raise Inexpressible("Channel.FRAME_HEADER.format %r is not '!' + two unsigned fields (length, flag)" % (fmt,))
    lw, fw = UNSIGNED[fmt[1]], UNSIGNED[fmt[2]]
    if C.FRAME_HEADER.size != lw + fw or struct.calcsize(fmt) != lw + fw:
        raise Inexpressible("Channel.FRAME_HEADER.size %r is not %d+%d" % (C.FRAME_HEADER.size, lw, fw))
    L += ["", "/-- `Channel.FRAME_HEADER = Struct(%s)`: big-endian unsigned length field, then the compression flag -/" % fmt,
          "def frameHeaderFormat : String := %s" % lean_str(fmt),
          "def frameHeaderSize : Nat := %d" % C.FRAME_HEADER.size,
          "def frameLenWidth : Nat := %d" % lw,
          "def frameFlagWidth : Nat := %d" % fw]
    fl = C.FLUSHER
    if type(fl) is not bytes:
        raise Inexpressible("Channel.FLUSHER is not bytes: %r" % (fl,))
    L += ["", "/-- `Channel.FLUSHER` -/", "def flusher : List Nat := " + lean_list([str(b) for b in fl], 16)]
    L += ["", "/-- is the `zlib` module importable (`Channel.__init__` forces `compress = False` otherwise) -/",
          "def zlibAvailable : Bool := %s" % ("true" if channel.zlib else "false")]
    sc = _nat("consts.STREAM_CHUNK", consts.STREAM_CHUNK)
    L += ["", "/-- `consts.STREAM_CHUNK`, `SocketStream.MAX_IO_CHUNK`, `PipeStream.MAX_IO_CHUNK` -/",
          "def streamChunk : Nat := %d" % sc,
          "def socketMaxIoChunk : Nat := %d" % _nat("SocketStream.MAX_IO_CHUNK", stream.SocketStream.MAX_IO_CHUNK),
          "def pipeMaxIoChunk : Nat := %d" % _nat("PipeStream.MAX_IO_CHUNK", stream.PipeStream.MAX_IO_CHUNK)]
    re = stream.retry_errnos
    if not (isinstance(re, (tuple, list, set, frozenset)) and all(type(e) is int and e >= 0 for e in re)):
        raise Inexpressible("stream.retry_errnos is not a collection of errnos: %r" % (re,))
    L += ["", "/-- `stream.retry_errnos` (EAGAIN, EWOULDBLOCK on this platform), duplicates removed -/",
          "def retryErrnos : List Nat := " + lean_list([str(e) for e in sorted(set(re))], 16)]
    # which errnos does this interpreter map to the class `socket.timeout` (caught first in SocketStream.read)
    tm = [e for e in sorted(errno.errorcode) if isinstance(OSError(e, "x"), socket.timeout)]
    L += ["", "/-- errnos `e` for which `OSError(e, ..)` is an instance of `socket.timeout` on the running interpreter -/",
          "def timeoutErrnos : List Nat := " + lean_list([str(e) for e in tm], 16)]
    L += ["", "/-- `errno.EBADF` (the one errno `SocketStream.fileno` turns into EOFError) and `errno.EINTR` (the one",
          "select error `Stream.poll` retries on) -/",
          "def ebadf : Nat := %d" % errno.EBADF, "def eintr : Nat := %d" % errno.EINTR,
          "", "/-- `errno.EAGAIN`, `errno.EWOULDBLOCK` of this platform, from the `errno` module - NOT from rpyc's own",
          "`retry_errnos`: the would-block clause of C05 is stated with these, and `retry_errnos` must contain them -/",
          "def eagain : Nat := %d" % errno.EAGAIN, "def ewouldblock : Nat := %d" % errno.EWOULDBLOCK]
    # are timeout / would-block exceptions `socket.error`s (so that `write` treats them as fatal) and
    # EnvironmentErrors (so that PipeStream treats them as fatal)
    facts = dict(
        timeoutIsSocketError=issubclass(socket.timeout, socket.error),
        socketErrorIsEnvironmentError=issubclass(socket.error, EnvironmentError),
        eofErrorIsSocketError=issubclass(EOFError, socket.error),
    )
    L += ["", "/-- class relations of the running interpreter the model's event classification relies on -/"]
    for k, v in facts.items():
        L.append("def %s : Bool := %s" % (k, "true" if v else "false"))
    L += ["", "end Rpyc.Gen", ""]
    return "\n".join(L)


SECTIONS = [("Wire.lean", gen_wire)]
