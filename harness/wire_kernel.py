"""C05 over the REAL kernel: the real `Channel` / `SocketStream` / `PipeStream` on a real `socket.socketpair()` or
real `os.pipe()` pairs, with a thin *shim* between stream and kernel that only (a) caps how many bytes each
`recv`/`send`/`os.read`/`os.write` call may move (random fragment sizes, partial writes), (b) sometimes raises a
`socket.timeout` of its own before touching the kernel, and (c) writes down what every call did, in the script
syntax of harness/faults.py.  Small SO_SNDBUF / SO_RCVBUF and (optionally) a non-blocking reading socket make the
kernel itself fragment, block and report EAGAIN.

The recorded traces tie the scripted fakes to the kernel: replayed as scripts through the Lean model
(`drv_wire`), they must give the packets, exception and `closed` state the real run gave.  The direct oracle needs
no model: what was received is what was sent, or a prefix followed by EOFError + closed.

Everything here runs a writer thread and a reader (the caller's thread); every wait has a ceiling.
"""
import errno
import fcntl
import os
import socket
import threading


class Trace:
    """events in script syntax, run-length encoded on the fly (EAGAIN spins can be long)"""

    def __init__(self):
        self.runs = []

    def add(self, ev):
        if self.runs and self.runs[-1][0] == ev:
            self.runs[-1][1] += 1
        else:
            self.runs.append([ev, 1])

    def items(self):
        return [(ev, n) for ev, n in self.runs]

    def count(self, prefix):
        return sum(n for ev, n in self.runs if ev.startswith(prefix))


def pick(rng, cap):
    r = rng.below(6)
    if r == 0:
        return 1
    if r == 1:
        return rng.range(2, 9)
    if r == 2:
        return rng.range(1, 2000)
    if r == 3:
        return rng.choice([5, 6, 977, 4096, 63999, 64000, 64001])
    return cap


class ShimSocket:
    """a real socket whose recv/send sizes are capped by an rng, with every call logged"""

    def __init__(self, real, rng, timeouts=(0, 1), min_send=1):
        self.real = real
        self.rng = rng
        self.timeouts = timeouts          # chance (num, den) of an artificial socket.timeout before a recv
        self.min_send = min_send
        self.rtrace = Trace()
        self.strace = Trace()
        self.sent = bytearray()
        self.kernel_transient = threading.Event()   # set whenever the KERNEL answered a recv with EAGAIN / a timeout
        self.kernel_timeouts = 0
        self.gate = None                            # called before every send (writer side)

    def recv(self, n, flags=0):
        if self.timeouts[0] and self.rng.chance(*self.timeouts):
            self.rtrace.add("t")
            raise socket.timeout("timed out (shim)")
        k = max(1, min(n, pick(self.rng, n)))
        try:
            buf = self.real.recv(k)
        except socket.timeout:
            self.rtrace.add("t")
            self.kernel_timeouts += 1
            self.kernel_transient.set()
            raise
        except OSError as ex:
            self.rtrace.add("e%d" % (ex.errno or 0))
            if ex.errno in (errno.EAGAIN, errno.EWOULDBLOCK):
                self.kernel_transient.set()
            raise
        self.rtrace.add("c%d" % len(buf) if buf else "z")
        return buf

    def send(self, data, flags=0):
        if self.gate is not None:
            self.gate()
        k = max(self.min_send, pick(self.rng, len(data)))
        try:
            n = self.real.send(bytes(data[:k]))
        except socket.timeout:
            self.strace.add("t")
            raise
        except OSError as ex:
            self.strace.add("e%d" % (ex.errno or 0))
            raise
        self.sent += bytes(data[:n])
        self.strace.add("a%d" % n)
        return n

    def sendall(self, data, flags=0):
        """what `socket.sendall` does, through the capped `send` above: a failure part-way leaves a prefix on the wire
        (a tree that writes with `sendall` must not hang the kernel-backed runs for want of the method)"""
        data = bytes(data)
        while data:
            data = data[self.send(data):]

    def shutdown(self, how):
        return self.real.shutdown(how)

    def close(self):
        return self.real.close()

    def fileno(self):
        return self.real.fileno()

    @property
    def closed(self):
        return self.real.fileno() == -1


class ShimOs:
    """`os` for rpyc.core.stream: read/write on the registered REAL descriptors are capped and logged"""

    def __init__(self, real_os, rng, min_write=1):
        self._real = real_os
        self._rng = rng
        self._min_write = min_write
        self.rtrace = {}
        self.strace = {}
        self.sent = {}
        self._lock = threading.Lock()

    def watch_read(self, fd):
        self.rtrace[fd] = Trace()

    def watch_write(self, fd):
        self.strace[fd] = Trace()
        self.sent[fd] = bytearray()

    def read(self, fd, n):
        tr = self.rtrace.get(fd)
        if tr is None:
            return self._real.read(fd, n)
        with self._lock:
            k = max(1, min(n, pick(self._rng, n)))
        try:
            buf = self._real.read(fd, k)
        except OSError as ex:
            tr.add("e%d" % (ex.errno or 0))
            raise
        tr.add("c%d" % len(buf) if buf else "z")
        return buf

    def write(self, fd, data):
        tr = self.strace.get(fd)
        if tr is None:
            return self._real.write(fd, data)
        with self._lock:
            k = max(self._min_write, pick(self._rng, len(data)))
        try:
            n = self._real.write(fd, bytes(data[:k]))
        except OSError as ex:
            tr.add("e%d" % (ex.errno or 0))
            raise
        self.sent[fd] += bytes(data[:n])
        tr.add("a%d" % n)
        return n

    def __getattr__(self, name):
        return getattr(self._real, name)


def _classify(ex):
    return "EOFError" if isinstance(ex, EOFError) else "OSError" if isinstance(ex, OSError) else type(ex).__name__


class Result:
    pass


def tcp_pair():
    srv = socket.socket(socket.AF_INET, socket.SOCK_STREAM)
    try:
        srv.bind(("127.0.0.1", 0))
        srv.listen(1)
        a = socket.create_connection(srv.getsockname(), timeout=5)
        b, _addr = srv.accept()
    finally:
        srv.close()
    a.settimeout(None)
    a.setsockopt(socket.IPPROTO_TCP, socket.TCP_NODELAY, 1)
    return a, b


def run_pair(kind, rng, packets, cs, cr, tail=b"", reader_stops_after=None, nonblocking=False, timeouts=(0, 1),
             bufsize=4096, reset=False, min_send=1, join_ceiling=20.0, gated=False, reader_timeout=None):
    """one transfer over a real socketpair ('sock') or two real pipes ('pipe').

    The writer thread sends `packets`, then writes `tail` raw (a partial frame) and closes its end.  The reader
    calls recv() until it raises — or, with `reader_stops_after=k`, closes its stream after k packets so that the
    WRITER meets the failure.  Returns the observations of both sides and the recorded traces."""
    from rpyc.core import channel, stream as S
    res = Result()
    res.kind = kind
    shim_os = None
    real_os = S.os
    res.transport = kind
    if kind in ("sock", "tcp"):
        if kind == "tcp":
            try:
                a, b = tcp_pair()
            except OSError:
                res.transport = "sock(tcp-unavailable)"
                a, b = socket.socketpair()
        else:
            a, b = socket.socketpair()
        for s_ in (a, b):
            s_.setsockopt(socket.SOL_SOCKET, socket.SO_SNDBUF, bufsize)
            s_.setsockopt(socket.SOL_SOCKET, socket.SO_RCVBUF, bufsize)
        if reset:
            b.send(b"!")        # never read by the writer's end: its close() then resets the connection
        if nonblocking:
            b.setblocking(False)
        elif reader_timeout:
            b.settimeout(reader_timeout)
        wsh = ShimSocket(a, rng.fork("w"), min_send=min_send)
        rsh = ShimSocket(b, rng.fork("r"), timeouts=timeouts)
        if gated:
            # the writer sends nothing (more) until the KERNEL has told the reader "nothing there yet" once more:
            # every send is preceded by at least one real EAGAIN / real socket.timeout at the reader
            def gate():
                rsh.kernel_transient.clear()
                rsh.kernel_transient.wait(3.0)
            wsh.gate = gate
        wstream, rstream = S.SocketStream(wsh), S.SocketStream(rsh)
        raw_write = lambda data: a.sendall(data)  # noqa: E731
    else:
        side_w, side_r = S.PipeStream.create_pair()
        shim_os = ShimOs(real_os, rng.fork("os"), min_write=min_send)
        wfd, rfd = side_w.outgoing.fileno(), side_r.incoming.fileno()
        try:
            fcntl.fcntl(wfd, 1031, max(4096, bufsize))      # F_SETPIPE_SZ
        except OSError:
            pass
        shim_os.watch_write(wfd)
        shim_os.watch_read(rfd)
        wstream, rstream = side_w, side_r
        raw_write = lambda data: _write_all(real_os, wfd, data)  # noqa: E731
    wchan = channel.Channel(wstream, compress=cs)
    rchan = channel.Channel(rstream, compress=cr)
    w = dict(n=0, end="done", closed=None, error=None)

    def writer():
        try:
            for p in packets:
                try:
                    wchan.send(p)
                except Exception as ex:  # noqa
                    w["end"] = _classify(ex)
                    break
                w["n"] += 1
            w["closed"] = wstream.closed
            if w["end"] == "done":
                if tail:
                    raw_write(tail)
                wstream.close()
        except BaseException as ex:  # noqa
            w["error"] = repr(ex)

    if shim_os is not None:
        S.os = shim_os
    th = threading.Thread(target=writer, daemon=True)
    got, rend, polled = [], "done", None
    try:
        th.start()
        try:
            while True:
                if reader_stops_after is not None and len(got) >= reader_stops_after:
                    rstream.close()
                    break
                if len(got) == len(packets) and reader_stops_after is None:
                    # everything has arrived: the next thing the transport can show is its end; wait for it in poll
                    th.join(join_ceiling)
                    try:
                        polled = rstream.poll(2.0)
                    except Exception as ex:  # noqa
                        polled = _classify(ex)
                got.append(rchan.recv())
                if len(got) > len(packets) + 1:
                    rend = "too-many-packets"
                    break
        except Exception as ex:  # noqa
            rend = _classify(ex)
        th.join(join_ceiling)
        res.hung = th.is_alive()
    finally:
        if shim_os is not None:
            S.os = real_os
    res.got, res.rend, res.rclosed, res.polled = got, rend, rstream.closed, polled
    res.wn, res.wend, res.wclosed, res.werror = w["n"], w["end"], w["closed"], w["error"]
    if kind in ("sock", "tcp"):
        res.rtrace, res.strace, res.sent = rsh.rtrace.items(), wsh.strace.items(), bytes(wsh.sent)
        res.eagain = rsh.rtrace.count("e%d" % errno.EAGAIN)
        res.kernel_timeouts = rsh.kernel_timeouts
    else:
        res.rtrace, res.strace, res.sent = shim_os.rtrace[rfd].items(), shim_os.strace[wfd].items(), bytes(shim_os.sent[wfd])
        res.eagain = 0
        res.kernel_timeouts = 0
    for st in (wstream, rstream):
        try:
            st.close()
        except Exception:  # noqa
            pass
    return res


def _write_all(real_os, fd, data):
    while data:
        data = data[real_os.write(fd, data):]


# ------------------------------------------------------------------------------------------------ kernel probes
def probe_dead_peer_poll():
    """what `Stream.poll` says about a real transport whose peer is gone: readable (so the failure is met by the
    following read, which closes the stream and raises EOFError) — never an exception out of poll"""
    from rpyc.core import stream as S
    out = {}
    a, b = socket.socketpair()
    st = S.SocketStream(b)
    a.close()
    out["socket: peer closed -> poll"] = _safe(lambda: st.poll(1.0))
    out["socket: peer closed -> read"] = _safe(lambda: st.read(1)) + " closed=%s" % st.closed
    a, b = socket.socketpair()
    st = S.SocketStream(b)
    b.send(b"unread")
    a.close()                                            # unread data at the closing end: connection reset
    out["socket: peer reset -> poll"] = _safe(lambda: st.poll(1.0))
    out["socket: peer reset -> read"] = _safe(lambda: st.read(1)) + " closed=%s" % st.closed
    s1, s2 = S.PipeStream.create_pair()
    s2.close()
    out["pipe: writer closed -> poll"] = _safe(lambda: s1.poll(1.0))
    out["pipe: writer closed -> read"] = _safe(lambda: s1.read(1)) + " closed=%s" % s1.closed
    # not a transport failure: the APPLICATION closes the descriptor behind the stream's back
    a, b = socket.socketpair()
    st = S.SocketStream(b)
    b.close()
    out["socket: descriptor closed by the application -> poll"] = _safe(lambda: st.poll(0)) + " closed=%s" % st.closed
    out["socket: descriptor closed by the application -> read"] = _safe(lambda: st.read(1)) + " closed=%s" % st.closed
    a.close()
    return out


class _WriteRestOnEagain:
    """`os` for rpyc.core.stream during the probe: the moment os.read on `rfd` reports would-block for the first
    time, the rest of the frame is written to the pipe (before the exception is passed on) - so 'the remaining bytes
    were on their way' holds by construction, without any timing"""

    def __init__(self, real_os, rfd, wfd, rest):
        self._real, self._rfd, self._wfd, self._rest = real_os, rfd, wfd, rest
        self.wouldblock_seen = 0

    def read(self, fd, n):
        try:
            return self._real.read(fd, n)
        except BlockingIOError:
            if fd == self._rfd:
                self.wouldblock_seen += 1
                if self._rest:
                    rest, self._rest = self._rest, b""
                    self._real.write(self._wfd, rest)
            raise

    def __getattr__(self, name):
        return getattr(self._real, name)


def probe_pipe_wouldblock():
    """a real pipe whose read end has O_NONBLOCK set (by the application or a process sharing the open file
    description): the frame arrives in two pieces, the reader asks in between -> os.read raises EAGAIN; the rest of
    the frame is written at that very moment.  Returns (packet_lost, text)."""
    from rpyc.core import channel, stream as S
    s1, s2 = S.PipeStream.create_pair()
    fd = s1.incoming.fileno()
    fcntl.fcntl(fd, fcntl.F_SETFL, fcntl.fcntl(fd, fcntl.F_GETFL) | os.O_NONBLOCK)
    frame = channel.Channel.FRAME_HEADER.pack(5, 0) + b"hello" + channel.Channel.FLUSHER
    wfd = s2.outgoing.fileno()
    os.write(wfd, frame[:7])                             # header + two bytes; the rest follows at the first EAGAIN
    real_os = S.os
    shim = _WriteRestOnEagain(real_os, fd, wfd, frame[7:])
    S.os = shim
    ch = channel.Channel(s1, compress=False)
    try:
        got = ch.recv()
        text = "recv returned %r after %d would-block(s)" % (got, shim.wouldblock_seen)
        lost = got != b"hello"
    except Exception as ex:  # noqa
        text = "recv raised %s(%s); stream.closed=%s (the remaining %d bytes were written the moment os.read reported would-block)" % (
            type(ex).__name__, ex, s1.closed, len(frame) - 7)
        lost = True
    finally:
        S.os = real_os
    for s_ in (s1, s2):
        try:
            s_.close()
        except Exception:  # noqa
            pass
    return lost, text


def probe_tls_wouldblock():
    """the same would-block, on a non-blocking TLS socket: `SSLSocket.recv` reports it as ssl.SSLWantReadError
    (an OSError with errno 2 = SSL_ERROR_WANT_READ, not EAGAIN), which is in nobody's retry list.  No certificates:
    an anonymous-DH TLS 1.x session over a socketpair.  Returns (probed, packet_lost, text)."""
    import ssl
    from rpyc.core import channel, stream as S
    a, b = socket.socketpair()
    try:
        sctx = ssl.SSLContext(ssl.PROTOCOL_TLS_SERVER)
        cctx = ssl.SSLContext(ssl.PROTOCOL_TLS_CLIENT)
        cctx.check_hostname = False
        cctx.verify_mode = ssl.CERT_NONE
        for ctx in (sctx, cctx):
            ctx.maximum_version = ssl.TLSVersion.TLSv1_2
            ctx.set_ciphers("ADH:AECDH:@SECLEVEL=0")
        box = {}

        def serve():
            try:
                box["s"] = sctx.wrap_socket(a, server_side=True)
            except Exception as ex:  # noqa
                box["s"] = ex
        th = threading.Thread(target=serve, daemon=True)
        th.start()
        c = cctx.wrap_socket(b)
        th.join(5.0)
        srv = box.get("s")
        if not isinstance(srv, ssl.SSLSocket):
            return False, False, "TLS not probed: %r" % (srv,)
    except Exception as ex:  # noqa
        for s_ in (a, b):
            s_.close()
        return False, False, "TLS not probed (no anonymous cipher suite in this OpenSSL build): %s" % (ex,)
    frame = channel.Channel.FRAME_HEADER.pack(5, 0) + b"hello" + channel.Channel.FLUSHER
    srv.sendall(frame[:7])                                # one TLS record with the header and two bytes
    c.setblocking(False)
    st = S.SocketStream(c)
    try:
        got = channel.Channel(st, compress=False).recv()
        lost, text = got != b"hello", "recv returned %r" % (got,)
    except Exception as ex:  # noqa
        lost = True
        text = "recv raised %s(%s); stream.closed=%s (the rest of the frame had not been sent yet)" % (
            type(ex).__name__, ex, st.closed)
    for s_ in (srv, c):
        try:
            s_.close()
        except Exception:  # noqa
            pass
    return True, lost, text


def _safe(f):
    try:
        return repr(f())
    except Exception as ex:  # noqa
        return "raised " + _classify(ex)
