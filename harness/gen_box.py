"""Generated constants of layer L3 (boxing): the LABEL_* / MSG_* numbers of rpyc.core.consts and the handler
numbers the boxing model mentions, read from the live module -> lean/RpycModel/Gen/Box.lean.

Only data is read here.  How `_box`/`_unbox`/`RefCountingColl` branch is control flow: it is modelled by hand in
lean/RpycModel/Box/Model.lean and tied to the code by the correspondence runs of C10 and C03.
"""
from gen_consts import Inexpressible

LABELS = ["LABEL_VALUE", "LABEL_TUPLE", "LABEL_LOCAL_REF", "LABEL_REMOTE_REF"]
MSGS = ["MSG_REQUEST", "MSG_REPLY", "MSG_EXCEPTION"]
HANDLERS = ["HANDLE_DEL", "HANDLE_CALL", "HANDLE_CALLATTR", "HANDLE_GETATTR", "HANDLE_PING", "HANDLE_CLOSE"]


def camel(name):
    parts = name.lower().split("_")
    return parts[0] + "".join(p.capitalize() for p in parts[1:])


def gen_box():
    from rpyc.core import consts
    L = ["namespace Rpyc.Gen.Box", ""]
    for group, prefix in ((LABELS, "LABEL_"), (MSGS, "MSG_")):
        for n in group:
            v = getattr(consts, n, None)
            if type(v) is not int or v < 0:
                raise Inexpressible("consts.%s is not a non-negative int: %r" % (n, v))
            L.append("def %s : Nat := %d" % (camel(n), v))
        extra = sorted(k for k in vars(consts) if k.startswith(prefix) and k not in group)
        if extra:
            raise Inexpressible("consts defines %s* names the boxing model does not know: %s" % (prefix, extra))
        L.append("")
    for n in HANDLERS:
        v = getattr(consts, n, None)
        if type(v) is not int or v < 0:
            raise Inexpressible("consts.%s is not a non-negative int: %r" % (n, v))
        L.append("def %s : Nat := %d" % (camel(n), v))
    L += ["", "end Rpyc.Gen.Box", ""]
    return "\n".join(L)


SECTIONS = [("Box.lean", gen_box)]
