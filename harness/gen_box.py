"""Generated constants of layer L3 (boxing): the LABEL_* / MSG_* numbers of rpyc.core.consts and the handler
numbers the boxing model mentions, read from the live module -> lean/RpycModel/Gen/Box.lean.

Only data is read here.  How `_box`/`_unbox`/`RefCountingColl` branch is control flow: it is modelled by hand in
lean/RpycModel/Box/Model.lean and tied to the code by the correspondence runs of C10 and C03.
"""
from gen_consts import Inexpressible

LABELS = ["LABEL_VALUE", "LABEL_TUPLE", "LABEL_LOCAL_REF", "LABEL_REMOTE_REF"]
MSGS = ["MSG_REQUEST", "MSG_REPLY", "MSG_EXCEPTION"]
HANDLERS = ["HANDLE_DEL", "HANDLE_CALL", "HANDLE_CALLATTR", "HANDLE_GETATTR", "HANDLE_PING", "HANDLE_CLOSE"]


def camel(name):
    parts = name.lower().split("_")
    return parts[0] + "".join(p.capitalize() for p in parts[1:])


def gen_box():
    from rpyc.core import consts
    L = ["namespace Rpyc.Gen.Box", ""]
    for group, prefix in ((LABELS, "LABEL_"), (MSGS, "MSG_")):
        for n in group:
            v = getattr(consts, n, None)
            if type(v) is not int or v < 0:
                raise Inexpressible("consts.%s is not a non-negative int: %r" % (n, v))
            L.append("def %s : Nat := %d" % (camel(n), v))
        extra = sorted(k for k in vars(consts) if k.startswith(prefix) and k not in group)
        if extra:
            raise Inexpressible("consts defines %s* names the boxing model does not know: %s" % (prefix, extra))
        L.append("")
    for n in HANDLERS:
        v = getattr(consts, n, None)
        if type(v) is not int or v < 0:
            raise Inexpressible("consts.%s is not a non-negative int: %r" % (n, v))
        L.append("def %s : Nat := %d" % (camel(n), v))
    L += ["", "/-- observed on the live `Connection._unbox` (recording table and proxy factory, no I/O): for a package that",
          "holds a REMOTE_REF in front of a LOCAL_REF — side by side and with the REMOTE_REF nested deeper — every table lookup",
          "happens before the first proxy is created.  Proxy creation may run a nested serve() (HANDLE_INSPECT), so this",
          "order decides whether a release notice travelling behind the package can overtake its LOCAL_REFs. -/",
          "def localRefsResolvedFirst : Bool := %s" % ("true" if probe_unbox_order() else "false")]
    L += ["", "/-- observed on the live `Connection` (dummy channel, no I/O): when a message whose value was boxed cannot be",
          "serialized (`brine.dump` refuses it after `_box` registered its by-reference objects), in the request direction",
          "(`_async_request`) and in the reply direction (`_dispatch_request`), the registrations are taken back. -/",
          "def failedSendReleases : Bool := %s" % ("true" if probe_failed_send() else "false")]
    L += ["", "/-- observed on the live `Connection._unbox` (no I/O): when the round trip that fetches the class of a new proxy",
          "(HANDLE_INSPECT) runs a nested dispatch that receives the SAME object, the outer `_unbox` ends up with that very",
          "proxy AND counts the reception (one proxy object, `____refcount__` 2) instead of creating a second one over it",
          "or finding it without counting. -/",
          "def oneProxyAcrossInspect : Bool := %s" % ("true" if probe_one_proxy_across_inspect() else "false")]
    L += ["", "/-- observed on the live `Connection._unbox` (dummy channel, no I/O): when a package cannot be unboxed — the",
          "class of one of its objects cannot be inspected, or it holds a stale LOCAL_REF — a release notice (HANDLE_DEL, 1)",
          "goes out for every REMOTE_REF of the package that no proxy took over. -/",
          "def failedUnboxReleases : Bool := %s" % ("true" if probe_failed_unbox() else "false")]
    L += ["", "end Rpyc.Gen.Box", ""]
    return "\n".join(L)


def probe_failed_unbox():
    """True: after a failed `_unbox` one HANDLE_DEL(…, 1) was sent per REMOTE_REF that no proxy took over (in both failure
    shapes); False: some were not."""
    import gc
    from rpyc.core import brine, consts
    from rpyc.core.protocol import Connection
    from rpyc.core.service import VoidService

    class Chan(object):
        closed = False

        def __init__(self):
            self.sent = []

        def close(self):
            pass

        def send(self, data):
            self.sent.append(data)

    def releases(conn):
        out = []
        for data in conn._channel.sent:
            msg, _seq, args = brine.load(data)
            if msg == consts.MSG_REQUEST and args[0] == consts.HANDLE_DEL:
                boxed = args[1]          # (TUPLE, ((LOCAL_REF, id_pack), (VALUE, count)))
                out.append((tuple(boxed[1][0][1]), boxed[1][1][1]))
        return sorted(out)
    lst1, lst2, far = ("builtins.list", 11, 12), ("builtins.list", 11, 13), ("probe.Uninspectable", 21, 22)
    results = []
    # 1. the second object's class cannot be inspected: the first is taken over by a proxy (which releases it when it
    #    goes), the failing one and the one behind it are not
    conn = Connection(VoidService(), Chan())
    conn._closed = True

    def inspect(handler, *args):
        raise RuntimeError("the class cannot be inspected")
    conn.sync_request = inspect
    package = (consts.LABEL_TUPLE, ((consts.LABEL_REMOTE_REF, lst1), (consts.LABEL_REMOTE_REF, far),
                                    (consts.LABEL_TUPLE, ((consts.LABEL_REMOTE_REF, lst2),))))
    try:
        conn._unbox(package)
    except RuntimeError:
        pass
    else:
        raise Inexpressible("a package with an un-inspectable class was unboxed in the failed-unbox probe")
    gc.collect()
    results.append(releases(conn) == sorted([(lst1, 1), (far, 1), (lst2, 1)]))
    # 2. a stale LOCAL_REF: refused in the first pass, nothing is taken over
    conn = Connection(VoidService(), Chan())
    conn._closed = True
    package = (consts.LABEL_TUPLE, ((consts.LABEL_REMOTE_REF, lst1), (consts.LABEL_LOCAL_REF, ("no.Such", 1, 2)),
                                    (consts.LABEL_REMOTE_REF, lst1)))
    try:
        conn._unbox(package)
    except KeyError:
        pass
    else:
        raise Inexpressible("a package with a stale LOCAL_REF was unboxed in the failed-unbox probe")
    gc.collect()
    results.append(releases(conn) == [(lst1, 1), (lst1, 1)])
    return all(results)


def probe_one_proxy_across_inspect():
    from rpyc.core import consts
    from rpyc.core.netref import BaseNetref
    from rpyc.core.protocol import Connection
    from rpyc.core.service import VoidService

    class Chan(object):
        closed = False

        def close(self):
            pass

        def send(self, data):
            pass
    # an instance key and a class key (`id_pack[2] == 0`: `_netref_class` also consults and fills its class cache)
    return all(_one_proxy_across_inspect(far) for far in (("probe.Unseen", 5, 6), ("probe.UnseenClass", 7, 0)))


def _one_proxy_across_inspect(far):
    from rpyc.core import consts
    from rpyc.core.netref import BaseNetref
    from rpyc.core.protocol import Connection
    from rpyc.core.service import VoidService

    class Chan(object):
        closed = False

        def close(self):
            pass

        def send(self, data):
            pass
    conn = Connection(VoidService(), Chan())
    conn._closed = True
    nested = []

    def inspect(handler, *args):
        if handler != consts.HANDLE_INSPECT:
            raise Inexpressible("_unbox issued request %r in the one-proxy probe" % (handler,))
        if not nested:                      # what the nested serve() dispatches: a message with the same object
            nested.append(None)
            nested[0] = conn._unbox((consts.LABEL_REMOTE_REF, far))
        return ()
    conn.sync_request = inspect
    try:
        outer = conn._unbox((consts.LABEL_REMOTE_REF, far))
    except Exception as ex:  # noqa
        raise Inexpressible("_unbox raised %r in the one-proxy probe" % (ex,))
    if not nested or not isinstance(outer, BaseNetref) or not isinstance(nested[0], BaseNetref):
        raise Inexpressible("one-proxy probe: no nested round trip happened / no proxies came out")
    # the fact: ONE proxy object AND it counts both receptions (the owner registered two references)
    return outer is nested[0] and object.__getattribute__(outer, "____refcount__") == 2


def unsendable_value():
    """a plain value `_box` accepts and `brine.dump` refuses"""
    import sys
    lim = sys.get_int_max_str_digits() if hasattr(sys, "get_int_max_str_digits") else 0
    if lim:
        return 10 ** (lim + 10)
    v = ()
    for _ in range(sys.getrecursionlimit() * 3):
        v = (v,)
    return v


def probe_failed_send():
    """True: after a request / a reply that could not be serialized, `_local_objects` no longer holds the objects boxed
    for it; False: it still does (in either direction)."""
    from rpyc.core import consts
    from rpyc.core.protocol import Connection
    from rpyc.core.service import VoidService

    class Chan(object):
        closed = False

        def __init__(self):
            self.sent = []

        def send(self, data):
            self.sent.append(data)

        def close(self):
            pass

    class Lent(object):
        pass
    bad = unsendable_value()
    released = []
    # request direction
    conn = Connection(VoidService(), Chan())
    try:
        obj = Lent()
        try:
            conn._async_request(consts.HANDLE_PING, ((obj, (obj, 1)), bad))
        except Exception:  # noqa
            pass
        else:
            raise Inexpressible("a request carrying an unserializable value was sent in the failed-send probe")
        released.append(len(conn._local_objects._dict) == 0)
    finally:
        conn._closed = True
    # reply direction
    conn = Connection(VoidService(), Chan())
    try:
        obj = Lent()
        conn._HANDLERS = dict(conn._HANDLERS)
        conn._HANDLERS[-1] = lambda self: (obj, bad, (obj,))
        conn._dispatch_request(7, (-1, (consts.LABEL_VALUE, ())))
        if len(conn._channel.sent) != 1:
            raise Inexpressible("failed-send probe: %d messages went out for one request" % len(conn._channel.sent))
        released.append(len(conn._local_objects._dict) == 0)
    finally:
        conn._closed = True
    return all(released)


def probe_unbox_order():
    """True: all `_local_objects[...]` lookups of a package precede the first `_netref_factory` call; False: a proxy
    is created first (the one-pass, left-to-right order).  Anything else cannot be expressed."""
    from rpyc.core import consts
    from rpyc.core.protocol import Connection
    from rpyc.core.service import VoidService

    from rpyc.core.netref import BaseNetref

    class Chan(object):
        closed = False

        def close(self):
            pass

        def send(self, data):
            pass

    class Target(object):
        pass

    results = []
    key = ("probe.Target", 1, 2)
    far = ("probe.Unknown", 3, 4)
    shapes = [
        (consts.LABEL_TUPLE, ((consts.LABEL_REMOTE_REF, far), (consts.LABEL_LOCAL_REF, key))),
        (consts.LABEL_TUPLE, ((consts.LABEL_TUPLE, ((consts.LABEL_VALUE, 1), (consts.LABEL_REMOTE_REF, far))),
                              (consts.LABEL_TUPLE, ((consts.LABEL_LOCAL_REF, key),)))),
        # positional argument followed by keyword arguments: (fresh,) , (("k", x),)
        (consts.LABEL_TUPLE, ((consts.LABEL_TUPLE, ((consts.LABEL_REMOTE_REF, far),)),
                              (consts.LABEL_TUPLE, ((consts.LABEL_TUPLE, ((consts.LABEL_VALUE, "k"),
                                                                          (consts.LABEL_LOCAL_REF, key))),)))),
        (consts.LABEL_TUPLE, ((consts.LABEL_REMOTE_REF, far), (consts.LABEL_TUPLE, ((consts.LABEL_LOCAL_REF, key),)))),
    ]
    for package in shapes:
        events = []
        conn = Connection(VoidService(), Chan())
        conn._closed = True                      # the probe connection never talks and never closes anything
        target = Target()

        class Table(object):
            def __getitem__(self, k):
                events.append("lookup")
                if k != key:
                    raise KeyError(k)
                return target

            def clear(self):
                pass
        conn._local_objects = Table()

        def inspect(handler, *args):
            # the round trip `_unbox` makes to learn the class of an object it has no proxy class for: the moment a
            # nested serve() could run
            if handler != consts.HANDLE_INSPECT:
                raise Inexpressible("_unbox issued request %r in the order probe" % (handler,))
            events.append("create")
            return ()
        conn.sync_request = inspect
        try:
            out = conn._unbox(package)
        except Exception as ex:  # noqa
            raise Inexpressible("_unbox of a (REMOTE_REF, LOCAL_REF) package raised %r in the order probe" % (ex,))
        flat = []

        def walk(v):
            if type(v) is tuple:
                for x in v:
                    walk(x)
            else:
                flat.append(v)
        walk(out)
        if not any(x is target for x in flat) or not any(isinstance(x, BaseNetref) for x in flat) or sorted(events) != ["create", "lookup"]:
            raise Inexpressible("_unbox order probe: unexpected result %r / events %r" % (out, events))
        results.append(events == ["lookup", "create"])
    # the constant says "for every package shape"; lookups-first for some shapes only is a plain "no"
    return all(results)


SECTIONS = [("Box.lean", gen_box)]
