"""Real rpyc servers for C16 / C17 (DESIGN.md 6.4).

A *case* is (kind, transport, auth, nb, ops): kind in threaded | pool | oneshot | forking, transport in
tcp | unix, ops = the token strings of lean/Driver/Server.lean (c<k>:<g|b|s|r>, c<k>:g:<j>, m<k>, h<k>, w<k>, k<k>:<g|b>, p<k>, l<k>,
o<k>:<n>, d<k>:<n>, g<k>, a<k>, z<k>, X, E, f<k>, i<k>:<hbt..>, r<k>:<hex>).  `Session` starts the real server (threaded / pool / one-shot in this
process on port 0 or a temp unix path; the forking server in a subprocess, because fork and SIGCHLD want a
main thread of their own), executes one op at a time with real client sockets, and renders what can be
observed in the text form the driver prints:

    <obs>|L<0/1> A<0/1> c<n> f<n> p<n> q<n> fd<n> ch<n> n<n>|<k>:<E|->:<inst|->:<conn hooks>:<disc hooks> ...

obs      what the acting client saw (ok / refused / pong / ref / resolved / keyerr / eof / timeout / leak / hang)
L A      listener open; thread running `start()` alive
c f p q  len(server.clients), len(fd_to_conn), descriptors registered with the pool's poll object (recorded by
         a wrapper installed on the instance), descriptors waiting in the pool's active queue
fd       descriptors the server process holds beyond its baseline and beyond the harness's own client sockets
ch       forking: live child processes
n        complete top-level frames the server-side connections have consumed so far (a progress counter: class-level
         wrappers around `Connection.serve` / `_dispatch` installed by the harness for the duration of a case, never in
         /repo; not counted: what a handler exchanges with the client while it runs (nested serve calls), the client
         library's GETROOT / INSPECT housekeeping, and the client's replies to requests the SERVER made)
per client: has it seen end-of-stream (or closed itself); index of its service instance in order of creation;
         how often on_connect / on_disconnect ran for that instance

No sleeping and hoping: every wait polls an observation that can only move towards its final value
(`wait_for`), with a ceiling (10 s) and a short interval; a client call that is expected to stay unanswered costs its
timeout.  Everything a case creates (sockets, threads, the subprocess, the unix path) is torn down in
`Session.close()`.  Infrastructure trouble (cannot bind, subprocess died) raises `Infra` -> exit 2.
"""
import errno
import json
import logging
import os
import select
import shutil
import signal
import socket
import struct
import subprocess
import sys
import tempfile
import threading
import time

CEILING = 10.0
INTERVAL = 0.003
CALL_TIMEOUT = 1.5
_serial = [0]


class Infra(Exception):
    """infrastructure trouble: not a verdict about rpyc"""


def quiet_logger():
    lg = logging.getLogger("rpycverif.silent")
    if not lg.handlers:
        lg.addHandler(logging.NullHandler())
    lg.propagate = False
    lg.setLevel(logging.CRITICAL + 10)
    return lg


def wait_for(pred, ceiling=CEILING, interval=INTERVAL):
    """poll `pred` until true; returns elapsed seconds or None at the ceiling"""
    t0 = time.time()
    next_gc = 0.25
    while True:
        if pred():
            return time.time() - t0
        if time.time() - t0 >= ceiling:
            return None
        if time.time() - t0 >= next_gc:       # sockets caught in reference cycles are released by the cyclic collector
            import gc
            gc.collect()
            next_gc += 1.0
        time.sleep(interval)


def nfds():
    return len(os.listdir("/proc/self/fd"))


# ------------------------------------------------------------------------------------------ the service
class Obj(object):
    """something that is passed by reference"""
    def __init__(self, owner):
        self.owner = owner
        self.exposed_owner = owner       # so that getattr(proxy, "owner") is allowed by the default policy

    def __str__(self):
        return "obj-of-%r" % (self.owner,)


def make_service(record, ctor_gate=None, raising=False, asks_peer=False):
    """a service CLASS (so that the server instantiates it per connection); `record(kind, inst, conn)` is the hook sink;
    `ctor_gate()` -> an Event the constructor waits for, or None (a service whose per-session set-up takes its time);
    `raising`: on_disconnect raises after it has been recorded (an application hook that fails)"""
    import rpyc

    class VerifService(rpyc.Service):
        def __init__(self):
            self.marks = []
            self.lent = []
            self.gate = None
            self.conn = None
            g = ctor_gate() if ctor_gate is not None else None
            if g is not None:
                g.wait(30)

        def on_connect(self, conn):
            self.conn = conn
            if asks_peer:
                conn.root            # (option "occ") like ClassicService: the service talks to its peer while it is admitted
            self.admitted = True
            record("c", self, conn)

        def exposed_whoami(self):
            # the credentials and the peer address THIS connection was configured with
            cfg = self.conn._config
            return cfg["credentials"], peer_key(cfg["endpoints"][1])

        def on_disconnect(self, conn):
            if asks_peer and not getattr(self, "admitted", False):
                return               # the connection never got through on_connect: its clean-up is not a disconnect to count
            record("d", self, conn)
            if self.gate is not None:
                self.gate.wait(30)           # armed: stay in here until the harness releases it (`h<k>`)
            if raising:
                raise RuntimeError("the application's disconnect hook failed")

        def exposed_arm(self):
            self.gate = threading.Event()
            return "armed"

        def exposed_mark(self, k):
            self.marks.append(k)
            return tuple(self.marks)

        def exposed_consume(self, how, obj, arg):
            # uses a by-reference ARGUMENT of the client: every access is a callback to that client
            if how == "list":
                return tuple(obj)
            if how == "len":
                return len(obj)
            if how == "index":
                return obj[arg]
            if how == "call":
                return obj(arg)
            if how == "sum":
                return sum(obj)
            raise ValueError(how)

        def exposed_make(self, k):
            o = Obj(k)
            self.lent.append(o)
            self.marks.append(k)
            return tuple(self.marks), o

    return VerifService


def authenticator(sock):
    from rpyc.utils.authenticators import AuthenticationError
    data = sock.recv(1)
    if data != b"A":
        raise AuthenticationError("wrong credential %r" % (data,))
    return sock, "cred-A:" + peer_key(sock.getpeername())       # credentials of this client and nobody else


def rewrapping_authenticator(sock):
    """like `authenticator`, but hands back a NEW socket object for the connection, as SSL wrapping does"""
    sock2, cred = authenticator(sock)
    return socket.socket(fileno=sock2.detach()), cred


def before_closed_hook(root):
    """a `before_closed` entry for the server's protocol_config (an audit trail, say): does not touch the peer itself"""


def peer_key(addr):
    """normalise a getpeername()/getsockname() value"""
    if isinstance(addr, tuple):
        return "tcp:%s" % (addr[1],)
    if isinstance(addr, bytes):
        return "unix:" + addr.decode("latin1")
    return "unix:" + str(addr)


class PollRecorder(object):
    """wraps the pool's poll object (instance attribute) to record which descriptors are registered"""
    def __init__(self, inner):
        self.inner = inner
        self.registered = set()

    def register(self, fd, mode):
        self.inner.register(fd, mode)
        self.registered.add(fd)

    modify = register

    def unregister(self, fd):
        self.inner.unregister(fd)
        self.registered.discard(fd)

    def poll(self, timeout=None):
        return self.inner.poll(timeout)


def plug_descriptors(above=1100, cap=6000):
    """occupy every free descriptor number of THIS process up to `above` (dups of /dev/null), so that whatever the server opens
    from now on - its clients' sockets - gets a number beyond what select() can handle (FD_SETSIZE = 1024): the situation of a
    server holding about a thousand connections.  Returns the list of plugs, or None when the descriptor limit does not allow it"""
    import resource
    soft, hard = resource.getrlimit(resource.RLIMIT_NOFILE)
    need = above + 600
    if soft < need:
        if hard != resource.RLIM_INFINITY and hard < need:
            return None
        resource.setrlimit(resource.RLIMIT_NOFILE, (need, hard))
    dn = os.open("/dev/null", os.O_RDONLY)
    plugs = [dn]
    while len(plugs) < cap:
        d = os.dup(dn)
        plugs.append(d)
        if d >= above:
            break
    return plugs


def readable_now(sock):
    """select([sock], [], [], 0) without select()'s limit on descriptor numbers"""
    p = select.poll()
    p.register(sock.fileno(), select.POLLIN | select.POLLHUP | select.POLLERR)
    return bool(p.poll(0))


class GateHandler(logging.Handler):
    """a log sink for the server's `logger=` parameter that, when armed, holds the thread emitting the pool's "Created
    connection" DEBUG record (the accept thread, in the middle of admitting a client) until released - a slow log sink"""
    def __init__(self):
        logging.Handler.__init__(self, logging.DEBUG)
        self.armed = False
        self.blocked = threading.Event()
        self.gate = threading.Event()

    def arm(self):
        self.blocked.clear()
        self.gate.clear()
        self.armed = True

    def open_gate(self):
        self.armed = False
        self.gate.set()

    def emit(self, record):
        try:
            msg = record.getMessage()
        except Exception:  # noqa
            return
        if self.armed and msg.startswith("Created connection"):
            self.armed = False
            self.blocked.set()
            self.gate.wait(10)


def gated_logger(handler):
    _serial[0] += 1
    lg = logging.getLogger("rpycverif.gated.%d" % _serial[0])
    lg.propagate = False
    lg.setLevel(logging.DEBUG)
    lg.addHandler(handler)
    return lg


class FaultyListener(object):
    """the server's listener socket, whose accept() fails once on demand (`arm(errno)`): an event of the environment the
    harness cannot produce otherwise without really running the process out of descriptors.

    accept() BLOCKS exactly as the socket's own accept() does - for as long as the socket's timeout says, for ever on a listener
    without one (a unix listener), and a listener closed under a blocked accept() does not wake it (only a connection or
    shutdown() does) - because whether close() gets the accept loop out of a blocked accept() is part of what is checked.
    Only an armed fault wakes it early, through a pipe of the wrapper's own (`extra_fds` descriptors the accounting knows)."""
    extra_fds = 2

    def __init__(self, sock):
        self._sock = sock
        self._fail = None
        self.failed = 0
        self._wake_r, self._wake_w = os.pipe()
        os.set_blocking(self._wake_r, False)

    def arm(self, e):
        self._fail = e
        try:
            os.write(self._wake_w, b"x")
        except OSError:
            pass

    def disarm(self):
        self._fail = None

    def release(self):
        """the harness is done with the server: give the pipe back"""
        for fd in (self._wake_r, self._wake_w):
            try:
                os.close(fd)
            except OSError:
                pass
        self._wake_r = self._wake_w = -1

    def accept(self):
        timeout = self._sock.gettimeout()
        t0 = time.time()
        while True:
            e, self._fail = self._fail, None
            if e is not None:
                self.failed += 1
                raise OSError(e, os.strerror(e))
            left = None if timeout is None else max(0.0, timeout - (time.time() - t0))
            fd = self._sock.fileno()
            if fd < 0:
                raise OSError(errno.EBADF, os.strerror(errno.EBADF))      # the listener was closed before this call
            # poll(), not select(): the descriptors may be numbered beyond FD_SETSIZE (the high-descriptor scenario)
            p = select.poll()
            p.register(fd, select.POLLIN)
            if self._wake_r >= 0:
                p.register(self._wake_r, select.POLLIN)
            r = dict(p.poll(None if left is None else left * 1000.0))
            if r.get(fd, 0) & select.POLLNVAL:
                raise OSError(errno.EBADF, os.strerror(errno.EBADF))
            if self._wake_r in r:
                try:
                    os.read(self._wake_r, 64)
                except OSError:
                    pass
                if fd not in r:
                    continue
            if fd in r:
                return self._sock.accept()
            if timeout is not None and time.time() - t0 >= timeout:
                raise socket.timeout("timed out")

    def __getattr__(self, name):
        return getattr(self._sock, name)


FAULT_ERRNOS = [errno.EMFILE, errno.ECONNABORTED, errno.ENOBUFS, errno.EPROTO]


def inject_accept_fault(listener, n):
    """returns "-" once the accept loop has met the error, "skip" if nobody called accept() within 1.5 s"""
    before = listener.failed
    listener.arm(FAULT_ERRNOS[n % len(FAULT_ERRNOS)])
    if wait_for(lambda: listener.failed > before, 1.5) is None:
        listener.disarm()
        return "skip"
    return "-"


# ------------------------------------------------------------------------------------------ progress counter
FRAMES = [0]
_frame_sink = [None]
_orig_serve = [None]


def install_frame_counter(sink=None):
    """count the complete frames the server-side connections consume: `Connection.serve` returning True or raising
    anything but EOFError.  Class-level wrappers put in place by the harness at run time (never in /repo); server-side
    connections are those created with `endpoints` in their configuration (what all four servers do).  Requests that are
    the client library's own housekeeping (GETROOT, INSPECT of a new proxy class) are not counted, so that one call of a
    well-behaved client is one frame (the harness keeps every proxy alive, so no finalizer sends a DEL of its own)."""
    from rpyc.core import brine, consts
    from rpyc.core.protocol import Connection
    if _orig_serve[0] is not None:
        return
    orig, orig_dispatch = Connection.serve, Connection._dispatch
    _orig_serve[0] = (orig, orig_dispatch)
    _frame_sink[0] = sink
    skip = (consts.HANDLE_GETROOT, consts.HANDLE_INSPECT)     # HANDLE_DEL counts: the harness sends it deliberately only
    tls = threading.local()

    def count(conn):
        try:
            if conn._config.get("endpoints") is None:
                return
        except Exception:  # noqa
            return
        if getattr(tls, "skip", False):
            return
        if _frame_sink[0] is not None:
            _frame_sink[0]()
        else:
            FRAMES[0] += 1

    def _dispatch(self, data):
        try:
            v = brine.load(data)
            if v[0] == consts.MSG_REQUEST and v[2][0] in skip:
                tls.skip = True
            if v[0] in (consts.MSG_REPLY, consts.MSG_EXCEPTION):
                # a client's answer to something the SERVER asked (at top level: to its asynchronous release notices for the
                # client's objects): housekeeping of the callbacks, not a frame of the client's own making.  A response
                # nobody asked for (a hostile client's) is a frame like any other
                try:
                    solicited = v[1] in self._request_callbacks
                except Exception:  # noqa
                    solicited = False
                if solicited:
                    tls.skip = True
        except Exception:  # noqa
            pass
        return orig_dispatch(self, data)

    def serve(self, timeout=1, wait_for_lock=True):
        # only top-level frames count: what a handler exchanges with the client while it runs (its callbacks' replies,
        # consumed by nested serve() calls on this thread) belongs to the request being handled
        depth = getattr(tls, "depth", 0)
        outer_skip = getattr(tls, "skip", False)
        tls.depth = depth + 1
        tls.skip = False
        try:
            try:
                r = orig(self, timeout, wait_for_lock)
            except EOFError:
                raise
            except BaseException:
                # a frame that raised out of serve().  Not one: an exception of the service's on_disconnect, which serve() runs
                # when the stream has ENDED (it closes the connection first - that is how the two are told apart)
                if depth == 0 and not getattr(self, "_closed", False):
                    count(self)
                raise
            if r and depth == 0:
                count(self)
            return r
        finally:
            tls.depth = depth
            tls.skip = outer_skip
    Connection.serve = serve
    Connection._dispatch = _dispatch


def uninstall_frame_counter():
    from rpyc.core.protocol import Connection
    if _orig_serve[0] is not None:
        Connection.serve, Connection._dispatch = _orig_serve[0]
        _orig_serve[0] = None
        _frame_sink[0] = None


# ------------------------------------------------------------------------------------------ backends
class InProcBackend(object):
    """threaded / pool / one-shot server in this process"""
    def __init__(self, kind, transport, auth, nb, tmpdir, opts=()):
        from rpyc.utils import server as S
        self.kind, self.transport = kind, transport
        self.hooks = []          # (kind, peer, instance)   instance objects are kept alive: ids are never reused
        self.lock = threading.Lock()
        self.pending_gates = []  # Events waiting for the next service constructor(s) to pick them up

        def ctor_gate():
            try:
                return self.pending_gates.pop(0)
            except IndexError:
                return None

        def record(what, inst, conn):
            try:
                peer = peer_key(conn._config["endpoints"][1])
            except Exception:  # noqa
                peer = "?"
            with self.lock:
                self.hooks.append((what, peer, inst))
        self.service = make_service(record, ctor_gate, "rh" in opts, "occ" in opts)
        cls = dict(threaded=S.ThreadedServer, pool=S.ThreadPoolServer, oneshot=S.OneShotServer)[kind]
        kw = dict(auto_register=False, logger=quiet_logger())
        if "bc" in opts:
            kw["protocol_config"] = {"before_closed": before_closed_hook}
        self.log_handler = None
        if "loggate" in opts:
            self.log_handler = GateHandler()
            kw["logger"] = gated_logger(self.log_handler)
        if auth:
            kw["authenticator"] = rewrapping_authenticator if "wrap" in opts else authenticator
        if kind == "pool":
            kw["nbThreads"] = nb
        install_frame_counter()
        self.base_frames = FRAMES[0]
        self.base_fds = nfds()
        try:
            if transport == "unix":
                self.path = os.path.join(tmpdir, "srv.sock")
                self.srv = cls(self.service, socket_path=self.path, **kw)
                self.addr = self.path
            else:
                self.srv = cls(self.service, hostname="127.0.0.1", port=0, **kw)
                self.addr = ("127.0.0.1", self.srv.port)
        except OSError as ex:
            raise Infra("cannot bind a %s listener: %s" % (transport, ex))
        self.plugs = []
        if "hifd" in opts:
            self.plugs = plug_descriptors()
            if self.plugs is None:
                raise Infra("the descriptor limit of this process does not allow the high-descriptor scenario")
            self.base_fds += len(self.plugs)
        if kind == "pool":
            self.srv.poll_object = PollRecorder(self.srv.poll_object)
        self.spawn_fail = [0]
        self.srv.listener = FaultyListener(self.srv.listener)
        self.base_fds += FaultyListener.extra_fds
        self.nfaults = 0
        self.thread = self.srv._start_in_thread()
        self.saved_fd0 = None
        if "fd0" in opts:
            # descriptor 0 of this process is free (a daemon that closed its standard input): the first client's socket gets it
            self.saved_fd0 = os.dup(0)
            os.close(0)
        self.close_threads = []
        self.close_results = []      # one list per close() call: empty while it has not returned

    def snapshot(self):
        srv = self.srv
        try:
            listening = srv.listener.fileno() != -1
        except Exception:  # noqa
            listening = False
        q = p = 0
        # a pool whose close() has returned: no thread looks at its poll object or its queue any more (what the poller still
        # removed in its last round is a race): reported as 0, as the driver does
        closed_pool = bool(self.close_results) and all(bool(d) for d in self.close_results)
        if self.kind == "pool" and not closed_pool:
            with srv._active_connection_queue.mutex:
                q = sum(1 for x in srv._active_connection_queue.queue if x is not None)
            p = len(srv.poll_object.registered)
        return dict(L=int(listening), A=int(self.thread.is_alive()), c=len(srv.clients),
                    f=len(getattr(srv, "fd_to_conn", ())), p=p, q=q,
                    fds=nfds() - self.base_fds, ch=0, n=FRAMES[0] - self.base_frames)

    def hook_table(self):
        with self.lock:
            hooks = list(self.hooks)
        return hooks

    def accept_fault(self):
        self.nfaults += 1
        return inject_accept_fault(self.srv.listener, self.nfaults)

    def arm_spawn_failure(self):
        """the next `spawn()` of rpyc.utils.server (the thread a ThreadedServer starts for a new client) fails the way it does at
        the thread limit; patched into the module namespace at run time, taken out again by `spawn_failure_done`"""
        from rpyc.utils import server as S
        if not hasattr(self, "real_spawn"):
            self.real_spawn = S.spawn

            def spawn(*a, **k):
                if self.spawn_fail[0]:
                    self.spawn_fail[0] -= 1
                    raise RuntimeError("can't start new thread")
                return self.real_spawn(*a, **k)
            S.spawn = spawn
        self.spawn_fail[0] = 1

    def spawn_failure_done(self):
        return self.spawn_fail[0] == 0

    def disarm_spawn_failure(self):
        self.spawn_fail[0] = 0

    def close_server(self, ceiling):
        """server.close() from a thread of its own, so that a close that does not return is an observation"""
        done = []
        self.close_results.append(done)

        def do():
            try:
                self.srv.close()
                done.append("ok")
            except Exception as ex:  # noqa
                done.append("exc %r" % (ex,))
        t = threading.Thread(target=do, daemon=True)
        t.start()
        self.close_threads.append(t)
        if wait_for(lambda: bool(done), ceiling) is None:
            return "hang"
        return "-" if done[0] == "ok" else done[0]

    def teardown(self):
        if self.log_handler is not None:
            self.log_handler.open_gate()
        if hasattr(self, "real_spawn"):
            from rpyc.utils import server as S
            S.spawn = self.real_spawn
        for d in self.plugs or []:
            try:
                os.close(d)
            except OSError:
                pass
        try:
            t = threading.Thread(target=self.srv.close, daemon=True)
            t.start()
            t.join(CEILING)
        except Exception:  # noqa
            pass
        for t in self.close_threads:
            t.join(2)
        self.thread.join(2)
        if self.thread.is_alive():
            # an accept loop that close() did not get out of a blocked accept(): an armed fault does, now that nobody looks
            self.srv.listener.arm(errno.EBADF)
            self.thread.join(2)
        self.srv.listener.release()
        if self.saved_fd0 is not None:
            try:
                os.dup2(self.saved_fd0, 0)
            finally:
                os.close(self.saved_fd0)
                self.saved_fd0 = None
        if self.kind == "pool":
            for fd in list(getattr(self.srv, "fd_to_conn", {})):
                try:
                    self.srv._drop_connection(fd)
                except Exception:  # noqa
                    pass


class ForkBackend(object):
    """forking server in a subprocess (this file run with --forking-child), driven over its stdin/stdout"""
    def __init__(self, kind, transport, auth, nb, tmpdir, opts=()):
        self.kind, self.transport = kind, transport
        self.pending_gates = []
        self.hookfile = os.path.join(tmpdir, "hooks.txt")
        open(self.hookfile, "w").close()
        path = os.path.join(tmpdir, "srv.sock")
        env = dict(os.environ)
        env["RPYC_REPO"] = os.environ.get("RPYC_REPO", "/repo")
        self.proc = subprocess.Popen([sys.executable, os.path.abspath(__file__), "--forking-child", transport, path,
                                      "T" if auth else "F", self.hookfile, ",".join(sorted(opts)) or "-"],
                                     stdin=subprocess.PIPE,
                                     stdout=subprocess.PIPE, stderr=subprocess.DEVNULL, env=env, text=True,
                                     start_new_session=True)     # its own process group: children die with it
        info = self._read()
        if not isinstance(info, dict) or "error" in info:
            raise Infra("forking server did not start: %r" % (info,))
        self.addr = path if transport == "unix" else ("127.0.0.1", info["port"])
        self.pid = info["pid"]
        self.returned = False

    def _read(self, ceiling=CEILING):
        r, _, _ = select.select([self.proc.stdout], [], [], ceiling)
        if not r:
            raise Infra("forking server subprocess does not answer")
        line = self.proc.stdout.readline()
        if not line:
            raise Infra("forking server subprocess died")
        return json.loads(line)

    def _cmd(self, c):
        try:
            self.proc.stdin.write(c + "\n")
            self.proc.stdin.flush()
        except OSError as ex:
            raise Infra("forking server subprocess is gone: %s" % ex)
        while True:
            ans = self._read()
            if ans == "start-returned":
                self.returned = True
                continue
            return ans

    def snapshot(self):
        st = self._cmd("stat")
        if st.get("returned"):
            self.returned = True
        n = 0
        with open(self.hookfile) as f:
            for line in f:
                if line.startswith("f\t"):
                    n += 1
        return dict(L=st["L"], A=int(not self.returned), c=st["c"], f=0, p=0, q=0, fds=st["fds"], ch=st["ch"], n=n)

    def hook_table(self):
        out = []
        with open(self.hookfile) as f:
            for line in f:
                parts = line.rstrip("\n").split("\t")
                if len(parts) == 3 and parts[0] in ("c", "d"):
                    out.append((parts[0], parts[1], parts[2]))
        return out

    def close_server(self, ceiling):
        return self._cmd("close")

    def accept_fault(self):
        return self._cmd("fault")

    def arm_spawn_failure(self):
        self._cmd("failfork")

    def spawn_failure_done(self):
        return self._cmd("forkfailed") == "yes"

    def disarm_spawn_failure(self):
        self._cmd("nofailfork")

    def teardown(self):
        try:
            self.proc.stdin.write("exit\n")
            self.proc.stdin.flush()
        except Exception:  # noqa
            pass
        try:
            self.proc.wait(3)
        except Exception:  # noqa
            self.proc.kill()
        # children of the forking server normally go when their client sockets close (Session.close() did that first);
        # whatever is left of the helper's process group is killed
        try:
            os.killpg(self.pid, signal.SIGKILL)
        except (ProcessLookupError, PermissionError, OSError):
            pass
        for f in (self.proc.stdin, self.proc.stdout):
            try:
                f.close()
            except Exception:  # noqa
                pass


def _children_of(pid):
    n = 0
    for d in os.listdir("/proc"):
        if d.isdigit():
            try:
                with open("/proc/%s/stat" % d) as f:
                    st = f.read()
                fields = st[st.rindex(")") + 2:].split()
                if int(fields[1]) == pid and fields[0] != "Z":
                    n += 1
            except Exception:  # noqa
                pass
    return n


def forking_child_main(argv):
    """python servers.py --forking-child <tcp|unix> <path> <T|F> <hookfile> <options|->"""
    transport, path, auth, hookfile, opts = argv
    opts = [] if opts == "-" else opts.split(",")
    sys.path.insert(0, os.environ.get("RPYC_REPO", "/repo"))
    from rpyc.utils.server import ForkingServer

    def record(what, inst, conn):
        try:
            peer = peer_key(conn._config["endpoints"][1])
        except Exception:  # noqa
            peer = "?"
        fd = os.open(hookfile, os.O_WRONLY | os.O_APPEND)
        try:
            os.write(fd, ("%s\t%s\t%d/%d\n" % (what, peer, os.getpid(), id(inst))).encode())
        finally:
            os.close(fd)
    service = make_service(record, None, "rh" in opts, "occ" in opts)

    def frame_sink():
        fd = os.open(hookfile, os.O_WRONLY | os.O_APPEND)
        try:
            os.write(fd, b"f\t-\t-\n")
        finally:
            os.close(fd)
    install_frame_counter(frame_sink)
    kw = dict(auto_register=False, logger=quiet_logger())
    if auth == "T":
        kw["authenticator"] = rewrapping_authenticator if "wrap" in opts else authenticator
    if "bc" in opts:
        kw["protocol_config"] = {"before_closed": before_closed_hook}
    out = sys.stdout
    base = nfds()
    try:
        if transport == "unix":
            srv = ForkingServer(service, socket_path=path, **kw)
        else:
            srv = ForkingServer(service, hostname="127.0.0.1", port=0, **kw)
        srv._listen()
    except OSError as ex:
        print(json.dumps(dict(error=str(ex))), flush=True)
        return 2
    if "hifd" in opts:
        plugs = plug_descriptors()
        if plugs is None:
            print(json.dumps(dict(error="descriptor limit too low for the high-descriptor scenario")), flush=True)
            return 2
        base += len(plugs)
    srv.listener = FaultyListener(srv.listener)
    base += FaultyListener.extra_fds
    state = dict(returned=False, close=None, faults=0, failfork=0)
    real_fork = os.fork

    def fork():
        # the parent's fork for a new client fails the way it does at the process limit (armed by the harness: `failfork`)
        if state["failfork"]:
            state["failfork"] -= 1
            raise OSError(errno.EAGAIN, os.strerror(errno.EAGAIN))
        return real_fork()
    os.fork = fork

    def on_usr1(*a):
        try:
            srv.close()
            state["close"] = "-"
        except BaseException as ex:  # noqa   (reported to the harness as the observation of the close)
            state["close"] = "exc %r" % (ex,)
    signal.signal(signal.SIGUSR1, on_usr1)
    wlock = threading.Lock()

    def say(obj):
        with wlock:
            out.write(json.dumps(obj) + "\n")
            out.flush()

    def ctl():
        say(dict(port=srv.port if transport == "tcp" else 0, pid=os.getpid()))
        for line in sys.stdin:
            cmd = line.strip()
            if cmd == "stat":
                try:
                    listening = srv.listener.fileno() != -1
                except Exception:  # noqa
                    listening = False
                say(dict(L=int(listening), c=len(srv.clients), fds=nfds() - base, ch=_children_of(os.getpid()),
                         returned=state["returned"]))
            elif cmd == "close":
                state["close"] = None
                os.kill(os.getpid(), signal.SIGUSR1)
                # the handler runs in the main thread; wait until close() has run
                if wait_for(lambda: state["close"] is not None) is None:
                    say("hang")
                else:
                    say(state["close"])
            elif cmd == "failfork":
                state["failfork"] = 1
                say("-")
            elif cmd == "nofailfork":
                state["failfork"] = 0
                say("-")
            elif cmd == "forkfailed":
                say("yes" if state["failfork"] == 0 else "no")
            elif cmd == "fault":
                state["faults"] += 1
                say(inject_accept_fault(srv.listener, state["faults"]))
            elif cmd == "exit":
                os._exit(0)
        os._exit(0)
    threading.Thread(target=ctl, daemon=True).start()
    try:
        srv.start()
    except BaseException:  # noqa   (a server whose start() raises is still there to be observed)
        pass
    finally:
        state["returned"] = True
    # stay around for stat / exit commands
    while True:
        time.sleep(1)


# ------------------------------------------------------------------------------------------ clients
def high_fd(sock):
    """move one of the harness's CLIENT sockets out of the low descriptor numbers before it connects, so that - as in a real
    deployment, where clients live in other processes - the in-process server's accepted sockets get the lowest free numbers
    (which number a new connection gets matters to the pool, whose table is keyed by it)"""
    import fcntl
    try:
        fd = fcntl.fcntl(sock.fileno(), fcntl.F_DUPFD, 400)
    except OSError:
        return sock
    s2 = socket.socket(fileno=fd)
    sock.close()
    return s2


class Client(object):
    """one client: a real socket; an rpyc connection is put on top of it the first time it speaks the protocol"""
    def __init__(self, k, sess):
        self.k, self.sess = k, sess
        self.sock = None
        self.conn = None
        self.open = False
        self.eof = False
        self.peer = None
        self.refs = []
        self.npings = 0

    def connect(self, cred):
        be = self.sess.backend
        if cred == "r" and be.transport != "tcp":
            raise ValueError("connect-and-reset needs TCP (SO_LINGER 0)")
        try:
            if cred == "r":
                # complete the handshake, then reset at once: SO_LINGER on with linger 0 makes close() send RST
                s = socket.socket(socket.AF_INET, socket.SOCK_STREAM)
                s.setsockopt(socket.SOL_SOCKET, socket.SO_LINGER, struct.pack("ii", 1, 0))
                s.settimeout(3)
                s.connect(be.addr)
                self.peer = peer_key(s.getsockname())
                self.sess.flash_peers.add(self.peer)
                s.close()
                self.sock, self.open, self.eof = s, False, True
                return "ok"
            if be.transport == "unix":
                s = high_fd(socket.socket(socket.AF_UNIX, socket.SOCK_STREAM))
                _serial[0] += 1
                name = ("\0rv-%d-%d-%d" % (os.getpid(), _serial[0], self.k)).encode()
                s.bind(name)
                self.peer = peer_key(name)
                s.settimeout(3)
                s.connect(be.addr)
            else:
                s = high_fd(socket.socket(socket.AF_INET, socket.SOCK_STREAM))
                s.settimeout(3)
                s.connect(be.addr)
                self.peer = peer_key(s.getsockname())
        except (ConnectionRefusedError, FileNotFoundError):
            try:
                s.close()
            except Exception:  # noqa
                pass
            return "refused"
        except (ConnectionResetError, ConnectionAbortedError, BrokenPipeError, socket.timeout):
            # what a client of a dying server may see; an observation about the server, not trouble of the harness
            try:
                s.close()
            except Exception:  # noqa
                pass
            return "reset"
        except OSError as ex:
            if ex.errno in (errno.EMFILE, errno.ENFILE, errno.EADDRNOTAVAIL, errno.ENOBUFS, errno.ENOMEM):
                raise Infra("client connect failed for lack of local resources: %r" % (ex,))
            try:
                s.close()
            except Exception:  # noqa
                pass
            return "connect-failed:%s" % errno.errorcode.get(ex.errno, ex.errno)
        s.settimeout(None)
        self.sock, self.open = s, True
        def first_bytes(data):
            # the server may let go of this connection between the handshake and the client's first bytes (a newcomer turned
            # away because no thread could be started, a one-shot server that is done, a server being closed): the send then
            # fails with EPIPE / ECONNRESET.  That is the same event as "the bytes went out and the connection was then
            # closed" seen in the other order of a race the harness does not control: the client is connected and has been
            # given end-of-stream - an observation about the server, not trouble of the harness, and the same in both orders
            try:
                s.sendall(data)
                return True
            except (ConnectionResetError, ConnectionAbortedError, BrokenPipeError, socket.timeout):
                self.eof = True
                return False
        if self.sess.auth and cred in ("g", "b", "e"):
            if not first_bytes(b"X" if cred == "b" else b"A"):
                return "ok"
        if cred == "e":
            # the service's on_connect asks this client for its root (request seq 0): the answer is an exception reply naming a
            # BaseException class
            self.nexc = getattr(self, "nexc", 0)
            if not first_bytes(peer_exception_frame(0, self.k)):
                return "ok"
        elif "occ" in self.sess.opts and cred == "g":
            # a well-behaved client answers what the service's on_connect asks (the client library does that in connect())
            conn = self.wrap()
            t_end = time.time() + 3.0
            while time.time() < t_end and conn._remote_root is None and not conn.closed:
                try:
                    if not conn.serve(0.05) and self.sess.admitted(self):
                        break
                except Exception:  # noqa
                    break
        return "ok"

    def wrap(self):
        if self.conn is None:
            import rpyc
            # the propagate_* switches off: an exception of ANY class raised while this client serves a request of the
            # server (a hostile client's choice) is sent to the server instead of ending the harness
            self.conn = rpyc.connect_stream(rpyc.SocketStream(self.sock),
                                            config=dict(sync_request_timeout=self.sess.call_timeout,
                                                        propagate_KeyboardInterrupt_locally=False,
                                                        propagate_SystemExit_locally=False))
        return self.conn

    def call(self, what, arg=None):
        import rpyc  # noqa
        if self.eof and self.conn is not None and self.conn.closed:
            return "eof"
        conn = self.wrap()
        try:
            from rpyc.core import consts as _c, netref as _nr
            if what == "ping":
                # one self-contained frame, no proxies involved
                self.npings += 1
                data = b"ping-%d-%d" % (self.k, self.npings)
                res = conn.sync_request(_c.HANDLE_PING, data)
                return "pong" if res == data else "wrong:%r" % (res,)
            if what == "lend":
                # one counted request (`conn.root` costs GETROOT + INSPECT once per connection: housekeeping, not counted);
                # the service instance answers with everything it was ever asked to mark and a fresh object by reference
                marks, ref = conn.sync_request(_c.HANDLE_CALLATTR, conn.root, "make", (self.k,), ())
                self.refs.append(ref)
                self.sess.lends.append((self.k, object.__getattribute__(ref, "____id_pack__"), ref))
                return "ref" if set(marks) == {self.k} else "leak"
            if what == "probe":
                # use an object id on THIS connection: a hand-made proxy (no INSPECT round trip), one HANDLE_STR request
                # (a forged LABEL_LOCAL_REF: `_box` sends the id pack of a proxy that claims to belong to this connection);
                # the request kind rotates: str(obj) / getattr(obj, "owner") / hash(obj)
                id_pack, variant = arg
                proxy = _nr.class_factory(id_pack, ())(conn, id_pack)
                self.refs.append(proxy)
                try:
                    if variant % 3 == 0:
                        conn.sync_request(_c.HANDLE_STR, proxy)
                    elif variant % 3 == 1:
                        conn.sync_request(_c.HANDLE_GETATTR, proxy, "owner")
                    else:
                        conn.sync_request(_c.HANDLE_HASH, proxy)
                    return "resolved"
                except KeyError:
                    return "keyerr"
                except AttributeError:
                    return "resolved"        # found, then refused by the attribute policy: the reference did resolve
            if what == "whoami":
                # which credentials and peer address does the server-side connection of THIS client carry
                res = conn.sync_request(_c.HANDLE_CALLATTR, conn.root, "whoami", (), ())
                want = ("cred-A:" + self.peer if self.sess.auth else None, self.peer)
                return "pong" if tuple(res) == want else "wrong:%r(expected %r)" % (tuple(res), want)
            if what == "arm":
                res = conn.sync_request(_c.HANDLE_CALLATTR, conn.root, "arm", (), ())
                return "done" if res == "armed" else "wrong:%r" % (res,)
            if what == "use":
                how, obj, a, want = USES[arg % len(USES)]()
                res = conn.sync_request(_c.HANDLE_CALLATTR, conn.root, "consume", (how, obj, a), ())
                return "pong" if res == want and type(res) is type(want) else "wrong:%r" % (res,)
            if what == "poison":
                n, m = arg
                name = POISON_NAMES[n % len(POISON_NAMES)]
                answer = POISON_ANSWERS[m % len(POISON_ANSWERS)]
                if not hasattr(self, "orig_inspect"):
                    self.orig_inspect = conn._HANDLERS[_c.HANDLE_INSPECT]
                attrs = {"__module__": name.rpartition(".")[0]}
                if isinstance(answer, Raise) and answer.where == "callback":
                    # describes its object truthfully, then answers the server's CALL on it with an exception reply
                    conn._HANDLERS[_c.HANDLE_INSPECT] = self.orig_inspect

                    def thrower(_self, *a, _e=answer.exc):
                        raise _e("from a hostile client")
                    attrs["__iter__"] = thrower
                elif isinstance(answer, Raise):
                    # answers the server's class inspection with an exception reply naming that class
                    def raising(_self, _id_pack, _e=answer.exc):
                        raise _e("from a hostile client")
                    conn._HANDLERS[_c.HANDLE_INSPECT] = raising
                else:
                    conn._HANDLERS[_c.HANDLE_INSPECT] = lambda _self, _id_pack, _a=answer: _a
                fake = type(name.rpartition(".")[2], (object,), attrs)()
                self.refs.append(fake)
                try:
                    conn.sync_request(_c.HANDLE_CALLATTR, conn.root, "consume", ("list", fake, 0), ())
                except EOFError:
                    raise
                except TimeoutError:
                    return "timeout"
                except BaseException:  # noqa   (the server is expected to answer with an exception - of whatever class it
                    pass                #         was told: the reply may well be a KeyboardInterrupt look-alike)
                return "-"
            if what == "drop":
                # let go of a lent object: one HANDLE_DEL request (the proxy itself is kept, so its finalizer stays quiet)
                conn.sync_request(_c.HANDLE_DEL, arg, 1)
                return "done"
        except EOFError:
            self.eof = True
            return "eof"
        except TimeoutError:        # rpyc's AsyncResultTimeout is the builtin TimeoutError (an OSError): test it first
            return "timeout"
        except (ConnectionError, OSError):
            self.eof = True
            return "eof"
        except Exception as ex:  # noqa
            if type(ex).__name__ in ("AsyncResultTimeout", "TimeoutError"):
                return "timeout"
            return "exc:" + type(ex).__name__
        return "?"

    def send_creds(self, good):
        try:
            self.sock.sendall(b"A" if good else b"X")
        except OSError:
            pass

    def send_raw(self, data):
        try:
            self.sock.sendall(data)
        except OSError:
            pass

    def graceful(self):
        self.open = False
        try:
            self.wrap().close()
        except Exception:  # noqa
            pass
        try:
            self.sock.close()
        except Exception:  # noqa
            pass

    def abrupt(self):
        self.open = False
        if self.conn is not None:
            # forget the connection without the protocol's goodbye
            try:
                self.conn._closed = True
            except Exception:  # noqa
                pass
        try:
            self.sock.close()
        except Exception:  # noqa
            pass

    def reset(self):
        """abrupt close by RST (SO_LINGER on, linger 0): what the server's pending read gets is ECONNRESET, not end-of-stream"""
        try:
            if self.sock.family == socket.AF_INET:
                self.sock.setsockopt(socket.SOL_SOCKET, socket.SO_LINGER, struct.pack("ii", 1, 0))
        except OSError:
            pass
        self.abrupt()

    def sees_eof(self):
        """non-blocking: has this client's socket delivered end-of-stream (monotone)"""
        if not self.open or self.eof:
            return True
        try:
            if self.conn is not None:
                if self.conn.closed:
                    self.eof = True
                    return True
                try:
                    while self.conn.poll(0):
                        pass
                except EOFError:
                    self.eof = True
                except (OSError, ValueError):
                    self.eof = True
                if self.conn.closed:
                    self.eof = True
                return self.eof
            while True:
                if not readable_now(self.sock):
                    return False
                try:
                    d = self.sock.recv(65536)
                except (ConnectionResetError, BrokenPipeError):
                    d = b""
                except BlockingIOError:
                    return False
                if not d:
                    self.eof = True
                    return True
        except Exception:  # noqa
            return self.eof

    def holds_fd(self):
        if self.sock is None:
            return False
        try:
            return self.sock.fileno() != -1
        except Exception:  # noqa
            return False


# by-reference arguments a well-behaved client passes: (how the service uses it, the object, an argument, expected result)
USES = [
    lambda: ("list", range(5), 0, (0, 1, 2, 3, 4)),
    lambda: ("list", {1: 2, 3: 4}.keys(), 0, (1, 3)),
    lambda: ("list", {1: 2, 3: 4}.values(), 0, (2, 4)),
    lambda: ("list", {1: 2, 3: 4}.items(), 0, ((1, 2), (3, 4))),
    lambda: ("list", map(abs, [-1, 2, -3]), 0, (1, 2, 3)),
    lambda: ("list", zip([1, 2], [3, 4]), 0, ((1, 3), (2, 4))),
    lambda: ("list", enumerate([7, 8]), 0, ((0, 7), (1, 8))),
    lambda: ("list", reversed([1, 2, 3]), 0, (3, 2, 1)),
    lambda: ("list", (i * i for i in range(4)), 0, (0, 1, 4, 9)),
    lambda: ("len", memoryview(b"abc"), 0, 3),
    lambda: ("list", iter(bytearray(b"ab")), 0, (97, 98)),
    lambda: ("index", range(2, 20, 3), 2, 8),
    lambda: ("call", (lambda x: x + 1), 3, 4),
    lambda: ("len", {1: 2, 3: 4}.keys(), 0, 2),
    lambda: ("sum", range(10), 0, 45),
    lambda: ("index", memoryview(b"abc"), 1, 98),
]
# what a hostile client calls the object it passes, and how it answers the server's HANDLE_INSPECT about it
POISON_NAMES = ["builtins.range", "builtins.dict_keys", "builtins.dict_values", "builtins.dict_items", "builtins.map",
                "builtins.zip", "builtins.enumerate", "builtins.reversed", "builtins.bytearray_iterator",
                "builtins.range_iterator", "builtins.generator", "builtins.memoryview", "builtins.function",
                "builtins.dict_keyiterator", "servers.Obj", "servers.VerifService", "builtins.list_reverseiterator",
                "builtins.zip", "builtins.range", "evil.Thing", "evil.other.Thing"]
class Raise(object):
    """a hostile answer to a request the SERVER makes while it handles the client's own request: an exception reply naming
    `exc`, to the class inspection (`where` = "inspect") or to the call on the object (`where` = "callback")"""
    def __init__(self, where, exc):
        self.where, self.exc = where, exc


POISON_ANSWERS = [(), 5, (("x",),), (("__getattribute__", "d"), ("__class__", "d"), ("__reduce__", "d"), ("__del__", "d")),
                  (("__iter__", None),), (),
                  Raise("inspect", KeyboardInterrupt), Raise("inspect", SystemExit), Raise("inspect", GeneratorExit),
                  Raise("inspect", BaseException), Raise("callback", KeyboardInterrupt), Raise("callback", SystemExit),
                  Raise("callback", GeneratorExit), Raise("inspect", StopIteration), Raise("callback", BaseException)]
FIRST_RAISE = 6          # index of the first exception answer
FOREIGN_NAMES = [14, 15, 19, 20]   # indices of names that are in no process-wide table: the server has to ask


BASE_EXC_NAMES = ["SystemExit", "KeyboardInterrupt", "GeneratorExit", "BaseException"]


def wire_frame(obj):
    from rpyc.core import brine
    data = brine.dump(obj)
    return struct.pack("!LB", len(data), 0) + data + b"\n"


def peer_exception_frame(seq, n):
    """an EXCEPTION reply for request `seq` naming a builtin BaseException class that is not an Exception"""
    from rpyc.core import consts
    return wire_frame((consts.MSG_EXCEPTION, seq, (("builtins", BASE_EXC_NAMES[n % len(BASE_EXC_NAMES)]), (), (), "tb")))


def evil_reply_frames(n):
    """two writes in one: an unsolicited REPLY carrying a by-reference object of an unknown class (unboxing it makes the server
    ask the sender about that class: INSPECT, the connection's first own request, seq 0) and - sent ahead - the EXCEPTION reply
    to that request naming a BaseException class"""
    from rpyc.core import consts
    return wire_frame((consts.MSG_REPLY, 77, (consts.LABEL_REMOTE_REF, ("evil.T%d" % n, 1, 0)))) + peer_exception_frame(0, n)


def ping_frame(seq=7):
    """a well-formed request frame: (MSG_REQUEST, seq, (HANDLE_PING, boxed ("x",)))"""
    from rpyc.core import brine, consts
    data = brine.dump((consts.MSG_REQUEST, seq, (consts.HANDLE_PING, (consts.LABEL_TUPLE, ((consts.LABEL_VALUE, b"x"),)))))
    return struct.pack("!LB", len(data), 0) + data + b"\n"


ITEM_BYTES = {
    "h": lambda: ping_frame(),
    "e": lambda: struct.pack("!LB", 0, 0) + b"\n",
    "b": lambda: struct.pack("!LB", 3, 0) + b"\xff\xfe\xfd" + b"\n",
    "t": lambda: struct.pack("!LB", 0xFFFFFFFF, 0),
}


# ------------------------------------------------------------------------------------------ session
class Session(object):
    def __init__(self, kind, transport, auth, nb, call_timeout=CALL_TIMEOUT, opts=()):
        """opts: "wrap" = the authenticator hands back a new socket object (as SSL wrapping does); "fd0" = descriptor 0 of the
        (in-process) server is free, so its first client's socket gets it; "occ" = the service's on_connect asks the peer for its root (what ClassicService does) - a client connecting with
        `e` answers that with an exception reply naming SystemExit / KeyboardInterrupt / ...; "hifd" = the server process holds every descriptor number up to ~1100 before the first client comes (its
        clients' sockets get numbers select() cannot handle); "rh" = the service's on_disconnect raises (after it has been recorded); "bc" = the server's protocol_config
        carries a `before_closed` hook; "gate" = a client connecting with `s`
        sends GOOD credentials at once and it is the service's constructor that waits (per-session set-up that takes its
        time), until `k<k>:g` lets it finish - to the model the same bookkeeping state as an authenticator that waits"""
        self.kind, self.transport, self.auth, self.nb = kind, transport, auth, nb
        self.opts = tuple(opts or ())
        self.ctor_gates = {}
        self.call_timeout = call_timeout
        self.tmpdir = tempfile.mkdtemp(prefix="rpycverif-")
        self.clients = {}
        self.lends = []
        self.flash_peers = set()
        self.fd_of = {}
        self.proc_fds = nfds()
        self.proc_threads = threading.active_count()
        self.residue = None
        self.prev_hook = threading.excepthook
        threading.excepthook = lambda args: None       # serving threads die of hostile input by design
        try:
            if kind == "forking":
                self.backend = ForkBackend(kind, transport, auth, nb, self.tmpdir, self.opts)
            else:
                self.backend = InProcBackend(kind, transport, auth, nb, self.tmpdir, self.opts)
        except Exception:
            threading.excepthook = self.prev_hook
            shutil.rmtree(self.tmpdir, ignore_errors=True)
            raise

    # -- one op -------------------------------------------------------------------------------
    def refresh_fds(self):
        srv = getattr(self.backend, "srv", None)
        for fd, conn in list(getattr(srv, "fd_to_conn", {}).items()):
            try:
                self.fd_of[peer_key(conn._config["endpoints"][1])] = fd
            except Exception:  # noqa
                pass

    def do(self, tok):
        """execute one token; returns the acting client's observation"""
        t, rest = tok[0], tok[1:]
        self.refresh_fds()
        if t == "X":
            return self.backend.close_server(self.call_timeout + 1.0)
        if t == "E":
            return self.backend.accept_fault()
        if t == "f":
            k = int(rest)
            if k in self.clients or self.kind not in ("threaded", "forking"):
                return "skip"
            self.backend.arm_spawn_failure()
            c = Client(k, self)
            res = c.connect("g")
            if res == "ok":
                self.clients[k] = c
            if res != "ok" or wait_for(self.backend.spawn_failure_done, 3.0) is None:
                # nobody is accepting any more (or the connection was refused): an observation about the server
                self.backend.disarm_spawn_failure()
                return res if res != "ok" else "ok-not-accepted"
            return res
        if t == "c":
            parts = rest.split(":")
            k, cred = int(parts[0]), parts[1]
            if k in self.clients:
                return "skip"
            c = Client(k, self)
            plugs = []
            if len(parts) == 3:
                # make the number client j's closed socket had the LOWEST free one of this process, as it would be in a server
                # process of its own: plug whatever lower numbers happen to be free in the harness
                j = self.clients.get(int(parts[2]))
                target = self.fd_of.get(j.peer) if j is not None else None
                while target is not None and len(plugs) < 64:
                    d = os.dup(0)
                    if d < target:
                        plugs.append(d)
                        continue
                    os.close(d)
                    break
            gate = None
            if cred == "s" and "gate" in self.opts:
                gate = threading.Event()
                self.backend.pending_gates.append(gate)
                self.ctor_gates[k] = gate
                cred = "g"
            try:
                res = c.connect(cred)
                if res == "ok":
                    self.clients[k] = c
                if gate is not None and res == "ok":
                    # the next operation starts only when THIS client's serving thread has taken the gate
                    if wait_for(lambda: gate not in self.backend.pending_gates, 5.0) is None:
                        raise Infra("the service constructor of client %d never started" % k)
                if res == "ok" and len(parts) == 3:
                    wait_for(lambda: self.server_fd(c.peer) is not None, 3.0)
            finally:
                for d in plugs:
                    os.close(d)
            if res == "ok" and len(parts) == 3:
                # the accepted socket is expected to get the descriptor number client j's closed socket had (pool)
                j = self.clients.get(int(parts[2]))
                mine = lambda: self.server_fd(c.peer)          # noqa: E731
                if j is None or wait_for(lambda: mine() is not None, 3.0) is None:
                    return "ok-unaccepted"
                if mine() != self.fd_of.get(j.peer):
                    return "ok-number-%s-not-reused(%s)" % (self.fd_of.get(j.peer), mine())
            return res
        if t == "m":
            c = self.clients.get(int(rest))
            if c is None or not c.open:
                return "skip"
            return c.call("arm")
        if t == "h":
            c = self.clients.get(int(rest))
            if c is None:
                return "skip"
            for what, peer, inst in self.backend.hook_table():
                if peer == c.peer and not isinstance(inst, str) and inst.gate is not None:
                    inst.gate.set()
            return "-"
        if t in "plgaiz":
            k = int(rest.split(":")[0])
            c = self.clients.get(k)
            if c is None or not c.open:
                return "skip"
            if t == "p":
                return c.call("ping")
            if t == "l":
                return c.call("lend")
            if t == "g":
                c.graceful()
                return "-"
            if t == "a":
                c.abrupt()
                return "-"
            if t == "z":
                c.reset()
                return "-"
            if t == "i":
                c.send_raw(b"".join(ITEM_BYTES[x]() for x in rest.split(":")[1]))
                return "-"
        if t == "y":
            k, n = rest.split(":")
            c = self.clients.get(int(k))
            if c is None or not c.open:
                return "skip"
            c.send_raw(evil_reply_frames(int(n)))
            return "-"
        if t == "w":
            c = self.clients.get(int(rest))
            if c is None or not c.open:
                return "skip"
            return c.call("whoami")
        if t == "u":
            k, n = rest.split(":")
            c = self.clients.get(int(k))
            if c is None or not c.open:
                return "skip"
            return c.call("use", int(n))
        if t == "x":
            k, n, m = rest.split(":")
            c = self.clients.get(int(k))
            if c is None or not c.open:
                return "skip"
            return c.call("poison", (int(n), int(m)))
        if t == "o":
            k, n = rest.split(":")
            c = self.clients.get(int(k))
            if c is None or not c.open or int(n) >= len(self.lends):
                return "skip"
            return c.call("probe", (self.lends[int(n)][1], int(n) + int(k)))
        if t == "d":
            k, n = rest.split(":")
            c = self.clients.get(int(k))
            if c is None or not c.open or int(n) >= len(self.lends) or self.lends[int(n)][0] != int(k):
                return "skip"
            return c.call("drop", self.lends[int(n)][2])
        if t == "k":
            k, cred = rest.split(":")
            c = self.clients.get(int(k))
            if c is None or not c.open:
                return "skip"
            if int(k) in self.ctor_gates:
                self.ctor_gates[int(k)].set()        # the service's constructor finishes
                return "-"
            c.send_creds(cred == "g")
            return "-"
        if t == "r":
            parts = rest.split(":")
            c = self.clients.get(int(parts[0]))
            if c is None or not c.open:
                return "skip"
            c.send_raw(bytes.fromhex(parts[1]))
            return "-"
        raise ValueError("unknown token %r" % (tok,))

    def admitted(self, client):
        """has the server finished admitting that client (its on_connect hook has been recorded)"""
        return any(w == "c" and peer == client.peer for w, peer, _i in self.backend.hook_table())

    def server_fd(self, peer):
        """the descriptor number under which the pool holds the (open) connection of that peer"""
        srv = getattr(self.backend, "srv", None)
        for fd, conn in list(getattr(srv, "fd_to_conn", {}).items()):
            try:
                if not conn.closed and peer_key(conn._config["endpoints"][1]) == peer:
                    return fd
            except Exception:  # noqa
                pass
        return None

    # -- observation --------------------------------------------------------------------------
    def observe(self):
        self.refresh_fds()
        snap = self.backend.snapshot()
        held = sum(1 for c in self.clients.values() if c.holds_fd())
        if self.kind != "forking":
            snap["fds"] -= held
        hooks = self.backend.hook_table()
        insts, per = [], {}
        for what, peer, inst in hooks:
            if peer in self.flash_peers:
                # a connection reset right after the handshake: whether the server got as far as building a connection for
                # it before noticing is a race of the runtime, and no client is left to care
                continue
            key = inst if isinstance(inst, str) else id(inst)
            if what == "c" and key not in insts:
                insts.append(key)
            d = per.setdefault(peer, dict(inst=None, c=0, d=0))
            if what == "c":
                d["c"] += 1
                if d["inst"] is None:
                    d["inst"] = insts.index(key)
            else:
                d["d"] += 1
        cl = []
        for k, c in list(self.clients.items()):
            h = per.get(c.peer, dict(inst=None, c=0, d=0))
            cl.append("%d:%s:%s:%d:%d" % (k, "E" if c.sees_eof() else "-", "-" if h["inst"] is None else h["inst"],
                                          h["c"], h["d"]))
        return "L%d A%d c%d f%d p%d q%d fd%d ch%d n%d|%s" % (snap["L"], snap["A"], snap["c"], snap["f"], snap["p"],
                                                             snap["q"], snap["fds"], snap["ch"], snap["n"], " ".join(cl))

    def step(self, tok, expect=None, ceiling=CEILING, settle=0.006):
        """do one op, then wait until the observable state equals `expect` (text after the first '|') and stays so for
        `settle` seconds; without `expect`, until it has not changed for 3 * settle.  Returns (line, agreed)"""
        obs = self.do(tok)
        t0 = time.time()
        next_gc = 0.25
        last, since = None, time.time()
        want = None if expect is None else expect.split("|", 1)[1]
        while True:
            cur = self.observe()
            now = time.time()
            if cur != last:
                last, since = cur, now
            if want is not None:
                if cur == want and now - since >= settle:
                    return obs + "|" + cur, True
            elif now - since >= 3 * settle:
                return obs + "|" + cur, True
            if now - t0 >= ceiling:
                return obs + "|" + cur, False
            if now - t0 >= next_gc:
                # a socket caught in a reference cycle (an exception's traceback holding the frame that holds the socket) is
                # released by the cyclic collector, not by the reference count: give it its chance before judging
                import gc
                gc.collect()
                next_gc += 1.0
            time.sleep(INTERVAL)

    def close(self):
        for g in list(self.ctor_gates.values()) + list(getattr(self.backend, "pending_gates", [])):
            g.set()
        try:
            for what, peer, inst in self.backend.hook_table():
                if not isinstance(inst, str) and getattr(inst, "gate", None) is not None:
                    inst.gate.set()
        except Exception:  # noqa
            pass
        for c in list(self.clients.values()):
            try:
                if c.sock is not None:
                    c.sock.close()
            except Exception:  # noqa
                pass
        try:
            self.backend.teardown()
        finally:
            # isolation: the next case starts only when this one's threads and descriptors are gone
            if wait_for(lambda: threading.active_count() <= self.proc_threads and nfds() <= self.proc_fds, 5.0) is None:
                import gc
                gc.collect()
                if wait_for(lambda: threading.active_count() <= self.proc_threads and nfds() <= self.proc_fds, 2.0) is None:
                    self.residue = "after teardown: threads %d (was %d), descriptors %d (was %d)" % (
                        threading.active_count(), self.proc_threads, nfds(), self.proc_fds)
            uninstall_frame_counter()
            threading.excepthook = self.prev_hook
            shutil.rmtree(self.tmpdir, ignore_errors=True)


def run_case(kind, transport, auth, nb, toks, expect=None, ceiling=CEILING, call_timeout=CALL_TIMEOUT, opts=()):
    """returns (lines, agreed_index or None): the observed lines, and the index of the first op whose expected state was
    not reached within the ceiling (the case stops there)"""
    sess = Session(kind, transport, auth, nb, call_timeout, opts)
    lines = []
    try:
        for i, tok in enumerate(toks):
            exp = expect[i] if expect is not None else None
            line, ok = sess.step(tok, exp, ceiling)
            lines.append(line)
            if exp is not None and (not ok or line.split("|", 1)[0] != exp.split("|", 1)[0]):
                return lines, i
        return lines, None
    finally:
        sess.close()


def exhaust_child_main(argv):
    """python servers.py --exhaust-child <threaded|pool> <n>: a server with an authenticator under a low RLIMIT_NOFILE;
    n clients connect and reset (half of them at once, half after one byte of their credentials); then a well-behaved
    client must still be served.  Prints one JSON line."""
    import resource
    kind, n = argv[0], int(argv[1])
    sys.path.insert(0, os.environ.get("RPYC_REPO", "/repo"))
    import rpyc
    from rpyc.utils import server as S
    threading.excepthook = lambda args: None
    limit = nfds() + 40
    resource.setrlimit(resource.RLIMIT_NOFILE, (limit, resource.getrlimit(resource.RLIMIT_NOFILE)[1]))
    cls = dict(threaded=S.ThreadedServer, pool=S.ThreadPoolServer)[kind]
    kw = dict(nbThreads=3) if kind == "pool" else {}

    def two_byte_auth(sock):
        from rpyc.utils.authenticators import AuthenticationError
        data = sock.recv(1)
        data += sock.recv(1) if data else b""
        if data != b"AA":
            raise AuthenticationError("wrong credentials")
        return sock, "ok"
    srv = cls(make_service(lambda *a: None), hostname="127.0.0.1", port=0, auto_register=False, logger=quiet_logger(),
              authenticator=two_byte_auth, **kw)
    t = srv._start_in_thread()
    baseline = nfds()
    reserve = [os.open("/dev/null", os.O_RDONLY) for _ in range(3)]     # so that this process can still look around later
    linger = struct.pack("ii", 1, 0)
    for i in range(n):
        try:
            s = socket.socket(socket.AF_INET, socket.SOCK_STREAM)
            s.setsockopt(socket.SOL_SOCKET, socket.SO_LINGER, linger)
            s.settimeout(2)
            s.connect(("127.0.0.1", srv.port))
            if i % 2:
                s.sendall(b"A")
                time.sleep(0.002)
            s.close()
        except OSError:
            break
    wait_for(lambda: len(srv.clients) == 0, 3.0)
    for fd in reserve:
        os.close(fd)
    import gc

    def leaked():
        gc.collect()
        try:
            return nfds() - baseline
        except OSError:
            return 10 ** 6

    # all of those clients are gone: the descriptors the server opened for them must be back (monotone: they only go down)
    wait_for(lambda: leaked() <= 0, 3.0)
    out = dict(limit=limit, resets=n, tracked=len(srv.clients), leaked=leaked(), accept_alive=t.is_alive(),
               listener_open=srv.listener.fileno() != -1)
    try:
        s = socket.create_connection(("127.0.0.1", srv.port), timeout=2)
        s.sendall(b"AA")
        s.settimeout(None)
        conn = rpyc.connect_stream(rpyc.SocketStream(s), config=dict(sync_request_timeout=3))
        from rpyc.core import consts
        out["good_client"] = "pong" if conn.sync_request(consts.HANDLE_PING, b"x") == b"x" else "wrong"
    except Exception as ex:  # noqa
        out["good_client"] = "%s: %s" % (type(ex).__name__, ex)
    print(json.dumps(out), flush=True)
    os._exit(0)


def run_exhaustion(kind, n=120, timeout=60):
    env = dict(os.environ)
    env["RPYC_REPO"] = os.environ.get("RPYC_REPO", "/repo")
    p = subprocess.run([sys.executable, os.path.abspath(__file__), "--exhaust-child", kind, str(n)], stdout=subprocess.PIPE,
                       stderr=subprocess.DEVNULL, env=env, timeout=timeout)
    lines = [l for l in p.stdout.decode().split("\n") if l.startswith("{")]
    if not lines:
        raise Infra("exhaustion scenario produced no result (exit %s)" % p.returncode)
    return json.loads(lines[-1])


if __name__ == "__main__":
    if len(sys.argv) > 1 and sys.argv[1] == "--forking-child":
        sys.exit(forking_child_main(sys.argv[2:]))
    if len(sys.argv) > 1 and sys.argv[1] == "--exhaust-child":
        sys.exit(exhaust_child_main(sys.argv[2:]))
