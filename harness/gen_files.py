"""Generated constants of layer L9 "Files" (rpyc/utils/classic.py upload*/download*)
-> lean/RpycModel/Gen/Files.lean.  Discovered by gen_consts.py through SECTIONS.

Data only: the default `chunk_size` of each of the six transfer functions (the theorems need chunk >= 1; a default
of 0 would copy nothing) and the defaults of `filter` / `ignore_invalid`.  The loops and the recursion are modelled
by hand and tied by the C20 correspondence.
"""
import inspect

from gen_consts import Inexpressible, lean_list, lean_str

FUNCS = ["upload", "upload_file", "upload_dir", "download", "download_file", "download_dir"]


def gen_files():
    from rpyc.utils import classic
    chunks, flags = [], []
    for name in FUNCS:
        fn = getattr(classic, name, None)
        if fn is None:
            raise Inexpressible("rpyc.utils.classic.%s is gone" % name)
        params = inspect.signature(fn).parameters
        if "chunk_size" not in params:
            raise Inexpressible("classic.%s has no chunk_size parameter" % name)
        d = params["chunk_size"].default
        if type(d) is not int or d < 0:
            raise Inexpressible("classic.%s: default chunk_size is not a natural number: %r" % (name, d))
        chunks.append("(%s, %d)" % (lean_str(name), d))
        if name in ("upload", "download"):
            f, ii = params.get("filter"), params.get("ignore_invalid")
            if f is None or ii is None or f.default is not None or ii.default is not False:
                raise Inexpressible("classic.%s: defaults of filter/ignore_invalid are not None/False" % name)
            flags.append(lean_str(name))
        if name in ("upload_dir", "download_dir"):
            f = params.get("filter")
            if f is None or f.default is not None:
                raise Inexpressible("classic.%s: the default of filter is not None" % name)
    L = ["namespace Rpyc.Gen.Files", "",
         "/-- default `chunk_size` of each transfer function (`consts.STREAM_CHUNK`) -/",
         "def defaultChunks : List (String × Nat) := " + lean_list(chunks, 3), "",
         "/-- functions whose `filter` defaults to `None` and `ignore_invalid` to `False` -/",
         "def plainDefaults : List String := " + lean_list(flags, 4), "",
         "end Rpyc.Gen.Files", ""]
    return "\n".join(L)


SECTIONS = [("Files.lean", gen_files)]
