"""Environment side of the C09 check (layer Vinegar): the custom-exception pool with import / constructor
canaries, the exception record the model's `dumpExc` takes, the interpreter facts the model's `loadExc`
takes (`Env`), observation of one real `vinegar.load`, and canonical texts equal to lean/Driver/Vinegar.lean's.

Nothing here looks at vinegar's decisions: facts are asked of the interpreter (sys.modules, getattr, a
scratch subclass instance for setattr), observations are taken from outside (a logging `__import__`,
canary lists, `sys.modules` before/after).
"""
import builtins
import os
import sys
import tempfile
import traceback
import types

import valtext

CANARY = "c09canary"
POOL_BODY = '''
import c09canary
c09canary.IMPORTED.append(__name__)
class AppError(Exception):
    def __init__(self, *a, **k):
        c09canary.INIT.append(type(self).__name__)
        Exception.__init__(self, *a)
        self.code = k.get("code", 7)
        self.detail = k.get("detail")
class RoError(Exception):
    def __init__(self, *a):
        c09canary.INIT.append(type(self).__name__)
        Exception.__init__(self, *a)
    @property
    def ro(self):
        return 5
class NeedsNew(Exception):
    def __new__(cls, a, b):
        return Exception.__new__(cls, a, b)
    def __init__(self, a, b):
        c09canary.INIT.append(type(self).__name__)
        Exception.__init__(self, a, b)
class BaseOnly(BaseException):
    pass
class DirNoArgs(Exception):
    """dir() hides `args`: dump sends no arguments"""
    def __dir__(self):
        return [n for n in object.__dir__(self) if n != "args"]
class DirDupArgs(Exception):
    """dir() lists `args` twice: dump sends the arguments twice"""
    def __dir__(self):
        return list(object.__dir__(self)) + ["args"]
class Slotted(Exception):
    __slots__ = ("code",)
    def __init__(self, *a):
        c09canary.INIT.append(type(self).__name__)
        Exception.__init__(self, *a)
        self.code = 5
class BadProp(ValueError):
    """a property that raises something other than AttributeError: dump itself raises"""
    @property
    def broken(self):
        raise KeyError("broken")
class NotExc(object):
    def __init__(self, *a):
        c09canary.INIT.append("NotExc")
def func():
    pass
VALUE = 5
'''
LAZY_TAIL = '''
def __getattr__(name):
    # PEP 562: module code that runs when `getattr(module, name)` does not find the name - and imports, as
    # concurrent.futures does
    c09canary.LAZY.append(name)
    import c09pool_lazytarget
    if name == "LazyErr":
        return c09pool_lazytarget.LazyErr
    raise AttributeError(name)
'''
POOL = {
    "c09pool_lazy": POOL_BODY + LAZY_TAIL,      # imported before the cases run; has a module-level __getattr__
    "c09pool_lazytarget": "import c09canary\nc09canary.IMPORTED.append(__name__)\nclass LazyErr(Exception):\n    pass\n",
    "c09pool_loaded": POOL_BODY,      # imported before the cases run
    "c09pool_fresh": POOL_BODY,       # importable, never left in sys.modules
    "c09pool_broken": 'import c09canary\nc09canary.IMPORTED.append(__name__)\nraise RuntimeError("refuses to import")\n',
}
IMPORTABLE = {"c09pool_lazy": True, "c09pool_lazytarget": True, "c09pool_loaded": True, "c09pool_fresh": True, "c09pool_broken": False, "c09pool_unknown": False}
_state = {"dir": None, "fresh_ns": None}


def canary():
    m = sys.modules.get(CANARY)
    if m is None:
        m = types.ModuleType(CANARY)
        m.IMPORTED, m.INIT, m.LAZY = [], [], []
        sys.modules[CANARY] = m
    return m


def reset_canaries():
    c = canary()
    del c.IMPORTED[:]
    del c.INIT[:]
    del c.LAZY[:]


def setup_pool():
    """write the pool modules to a temp directory on sys.path; import the 'loaded' one"""
    canary()
    if _state["dir"] is None:
        d = tempfile.mkdtemp(prefix="c09pool")
        for name, src in POOL.items():
            with open(os.path.join(d, name + ".py"), "w") as f:
                f.write(src)
        sys.path.append(d)
        sys.dont_write_bytecode = True
        _state["dir"] = d
        import atexit
        import shutil
        atexit.register(shutil.rmtree, d, True)   # leave nothing behind under /tmp
    import importlib
    importlib.invalidate_caches()
    for name in ("c09pool_loaded", "c09pool_lazy", "concurrent.futures"):
        if name not in sys.modules:
            importlib.import_module(name)
    ns = {"__name__": "c09pool_fresh"}
    exec(compile(POOL_BODY, "<c09pool_fresh sender copy>", "exec"), ns)   # the sender's copy: not in sys.modules
    _state["fresh_ns"] = ns
    for m in ("c09pool_fresh", "c09pool_broken", "c09pool_unknown", "c09pool_lazytarget"):
        sys.modules.pop(m, None)
    reset_canaries()


def pool_class(modname, clsname):
    """the class object a sender would raise"""
    if modname == "c09pool_fresh":
        return _state["fresh_ns"][clsname]
    return getattr(sys.modules[modname], clsname)


def builtin_exception_classes():
    seen, out = set(), []
    for k in sorted(vars(builtins)):
        v = vars(builtins)[k]
        if isinstance(v, type) and issubclass(v, BaseException) and v not in seen and v.__name__ == k:
            seen.add(v)
            out.append(v)
    return out


# ------------------------------------------------------------------------------------------------ texts
def S(s):
    return valtext.to_text(s)


def has_other(text):
    return any(t[0] == "O" for t in text.split())


def is_val(v):
    return not has_other(valtext.to_text(v))


def err_name(ex):
    return valtext.err_name(ex)


KNOWN_ERRS = {"TypeError", "ValueError", "UnicodeDecodeError", "UnicodeEncodeError", "AttributeError", "struct.error",
              "KeyError", "EOFError", "zlib.error", "RecursionError", "IndexError", "StopIteration", "TimeoutError"}


# ------------------------------------------------------------------------------------------------ the sender's record
class Unrepresentable(Exception):
    """the case is outside what the model's record can say (counted, not compared)"""


def format_tb(t, val, tb):
    """(text, None) = what `traceback.format_exception` gives, or (None, error name) when CPython's traceback module itself
    raises on this exception (a SyntaxError whose detail tuple holds non-text `text` / non-int `lineno`)"""
    try:
        return "".join(traceback.format_exception(t, val, tb)), None
    except Exception as ex:  # noqa
        n = err_name(ex)
        if n not in KNOWN_ERRS:
            raise Unrepresentable("traceback.format_exception raises %s" % n)
        return None, n


def err_token(name):
    if name not in KNOWN_ERRS:
        raise Unrepresentable("error class %s is not in the model's enum" % name)
    return "( %s )" % S(name)


def extract_record(t, val, tb):
    """what Python shows `vinegar.dump`: returns (kind, hd_text, tb_token, args_text, reprs_text, dir_text, sendable_attrs,
    walk_token).  sendable_attrs = [(name, value-as-sent)] for the environment probe of the receiver's setattr;
    tb_token = the formatted traceback or the error formatting raises; walk_token = N or the first error that a repr()/getattr
    of dump's walk over dir(val) raises (in dir order)"""
    mod, name = t.__module__, t.__name__
    if type(mod) is not str or type(name) is not str:
        raise Unrepresentable("class module/name not text")
    kind = "b" if getattr(builtins, name, None) is t else "c"
    walk_err = [None]

    def note(ex):
        if walk_err[0] is None:
            walk_err[0] = err_name(ex)

    args, reprs, entries, sendable = [], [], [], []
    for n in dir(val):
        if n == "args":
            entries.append("( %s I1 N N )" % S(n))
            if args or reprs:
                continue          # a dir() that lists `args` again: the record's argument list is given once
            for a in val.args:
                txt = valtext.to_text(a)
                args.append(txt)
                if has_other(txt):
                    try:
                        reprs.append(S(repr(a)))
                    except Exception as ex:  # noqa
                        note(ex)
                        reprs.append("N")
                else:
                    reprs.append("N")
            continue
        if n.startswith("_"):
            # a private name: some object; the model must skip it without looking
            entries.append("( %s I2 O99 N )" % S(n))
            continue
        try:
            v = getattr(val, n)
        except AttributeError:
            entries.append("( %s I0 N N )" % S(n))
            continue
        except Exception as ex:  # noqa
            note(ex)
            entries.append("( %s I0 N N )" % S(n))
            continue
        txt = valtext.to_text(v)
        if has_other(txt):
            try:
                rp = repr(v)
            except Exception as ex:  # noqa
                note(ex)
                rp = ""
            entries.append("( %s I%d %s %s )" % (S(n), 2 if callable(v) else 1, txt, S(rp)))
            sendable.append((n, rp))
        else:
            entries.append("( %s I%d %s N )" % (S(n), 2 if callable(v) else 1, txt))
            sendable.append((n, v))
    text, terr = format_tb(t, val, tb)
    tb_token = S(text) if text is not None else err_token(terr)
    walk = "N" if walk_err[0] is None else err_token(walk_err[0])
    return (kind, "( %s %s )" % (S(mod), S(name)), tb_token, "( " + "".join(a + " " for a in args) + ")",
            "( " + "".join(a + " " for a in reprs) + ")", "( " + "".join(e + " " for e in entries) + ")", sendable, walk)


# ------------------------------------------------------------------------------------------------ the receiver's environment
def kind_of(obj):
    if obj is None:
        return "m"
    if not isinstance(obj, type):
        return "n"
    if not issubclass(obj, BaseException):
        return "t"
    try:
        obj.__new__(obj)
    except TypeError:
        return "a"
    return "e"


_pool_attr_cache = {}


def module_attr(modname, clsname, loaded, importable):
    """what the module's OWN namespace holds under clsname once modname is in sys.modules (`vars(module).get(clsname)`: no
    module code runs here — a `getattr` would run a PEP 562 `__getattr__` and mask a lazy import made by the watched load)"""
    if type(clsname) is not str:
        return None
    if loaded:
        mod = sys.modules[modname]
        return vars(mod).get(clsname) if isinstance(mod, types.ModuleType) else None
    if importable and modname == "c09pool_fresh":
        return _state["fresh_ns"].get(clsname)      # same source as the file the receiver imports
    return None


_probe_classes = {}


def probe_setattr(target, name, value):
    """'store' | 'I0' (AttributeError) | error name | None (not representable)"""
    P = _probe_classes.get(target)
    if P is None:
        P = type("Probe", (target,), {})
        _probe_classes[target] = P
    p = P.__new__(P)
    try:
        setattr(p, name, value)
    except AttributeError:
        return "I0"
    except Exception as ex:  # noqa
        n = err_name(ex)
        return n if n in KNOWN_ERRS else None
    try:
        back = getattr(p, name)
    except Exception:  # noqa
        return None
    if valtext.canon(back) != valtext.canon(value):
        return None
    return "store"


def generic_base():
    from rpyc.core import vinegar
    return vinegar.GenericException


def set_table(real_cls, pairs):
    """rows for the pairs whose setattr outcome is not 'stored', for the real class (if usable) and the generic one;
    also the set of names that are stored outside the instance __dict__ (descriptor-backed) per target"""
    rows, slots = [], {"R": set(), "G": set()}
    for tag, target in (("R", real_cls), ("G", generic_base())):
        if target is None:
            continue
        for name, value in pairs:
            if type(name) is not str or name == "args":
                continue
            out = probe_setattr(target, name, value)
            if out is None:
                raise Unrepresentable("setattr(%s, %r) transforms or raises an unlisted error" % (target.__name__, name))
            if out == "store":
                d = getattr(target, name, None)
                if d is not None and hasattr(type(d), "__set__"):
                    slots[tag].add(name)
                continue
            rows.append("( %s %s %s %s )" % (S(name), valtext.to_text(value), out if out == "I0" else S(out),
                                            "T" if tag == "G" else "F"))
    return "( " + "".join(r + " " for r in rows) + ")", slots


def fmt_name(m, c):
    if type(m) is str and type(c) is str:
        return "N"
    try:
        return S("%s.%s" % (m, c))
    except Exception as ex:  # noqa
        return "( %s )" % S(err_name(ex))


def environment(m, c, pairs):
    """the model's Env for a payload naming module m / class c with candidate attribute pairs.
    returns (env_text 'LIma', fmt_text, table_text, info dict)"""
    loaded = type(m) is str and m in sys.modules
    if type(m) is str and not loaded:
        if m in IMPORTABLE:
            importable = IMPORTABLE[m]
        else:
            import importlib.util
            try:
                spec = importlib.util.find_spec(m) if m and not m.startswith(".") else None
            except Exception:  # noqa
                spec = None
            if spec is not None:
                raise Unrepresentable("module %r is importable and not from the pool" % (m,))
            importable = False
    else:
        importable = False
    mobj = module_attr(m, c, loaded, importable) if type(m) is str else None
    bobj = getattr(builtins, c, None) if type(c) is str else None
    canary_before = (list(canary().IMPORTED), list(canary().INIT))
    lazy = bool(loaded and isinstance(sys.modules[m], types.ModuleType) and "__getattr__" in vars(sys.modules[m]))
    mk, bk = kind_of(mobj), kind_of(bobj)
    reals = [o for o, k in ((mobj, mk), (bobj, bk)) if k == "e"]
    if len(reals) == 2 and reals[0] is not reals[1]:
        raise Unrepresentable("module and builtins give different usable classes")
    table, slots = set_table(reals[0] if reals else None, pairs)
    c_ = canary()
    c_.IMPORTED[:], c_.INIT[:] = canary_before
    env = ("T" if loaded else "F") + ("T" if importable else "F") + mk + bk + ("T" if lazy else "F")
    return env, fmt_name(m, c), table, dict(loaded=loaded, importable=importable, slots=slots, mobj=mobj, bobj=bobj)


def preparse(payload):
    """generous guess at (modname, clsname, attribute pairs) of a hostile payload, for environment()"""
    def seq(v, allow_str=False):
        if type(v) in (tuple, frozenset, bytes) or (allow_str and type(v) is str):
            return tuple(v)
        return None
    top = seq(payload)
    if top is None or len(top) != 4:
        return None, None, []
    hd = seq(top[0], True)
    if hd is None or len(hd) != 2:
        return None, None, []
    pairs = []
    for item in seq(top[2], True) or ():
        it = seq(item, True)
        if it is not None and len(it) == 2 and type(it[0]) is str:
            pairs.append((it[0], it[1]))
    return hd[0], hd[1], pairs


# ------------------------------------------------------------------------------------------------ observing the real load
class ImportWatch(object):
    """logs every `__import__` call made from rpyc.core.vinegar, and the growth of sys.modules"""
    def __enter__(self):
        self.attempts = []
        self.before = set(sys.modules)
        self.orig = builtins.__import__
        watch = self

        def logging_import(name, *a, **k):
            if sys._getframe(1).f_globals.get("__name__") == "rpyc.core.vinegar":
                watch.attempts.append(name)
            return watch.orig(name, *a, **k)
        builtins.__import__ = logging_import
        return self

    def __exit__(self, *exc):
        builtins.__import__ = self.orig
        self.delta = sorted(set(sys.modules) - self.before)
        return False

    def cleanup(self):
        for m in self.delta:
            sys.modules.pop(m, None)


def cls_text(C, m, c):
    from rpyc.core import vinegar
    if isinstance(C, type) and issubclass(C, vinegar.GenericException) and C is not vinegar.GenericException:
        return "G " + S(C.__name__)
    if type(c) is str:
        for holder in ((sys.modules.get(m) if type(m) is str else None), ):
            if isinstance(holder, types.ModuleType) and vars(holder).get(c) is C:
                return "R %s %s" % (valtext.canon(m), S(c))
    return "?%s.%s" % (getattr(C, "__module__", "?"), getattr(C, "__name__", "?"))


_str_canon = {}


def canon_cached(v):
    """valtext.canon, remembering the (long, often repeated) texts such as tracebacks"""
    if type(v) is str:
        t = _str_canon.get(v)
        if t is None:
            if len(_str_canon) > 20000:
                _str_canon.clear()
            t = _str_canon[v] = valtext.canon(v)
        return t
    return valtext.canon(v)


# slots the interpreter manages itself: `raise` rewrites them, and assigning __cause__ flips __suppress_context__.
# Whether an assignment to them is accepted or raises IS compared (the environment table); their values are not.
RAISE_TOUCHED = frozenset(["__traceback__", "__context__", "__cause__", "__suppress_context__"])


def obj_text(ex, m, c, slots, after_raise=True):
    """canonical text of a received exception object (same shape as Driver/Vinegar.lean's showObj, attrs sorted);
    after_raise: the object went through a `raise` statement, which rewrites the RAISE_TOUCHED slots"""
    from rpyc.core import vinegar
    T = type(ex)
    if T in vinegar._exception_classes_cache.values():
        C, tag = T.__mro__[1], None
    else:
        C, tag = T, None
    ct = cls_text(C, m, c)
    names = set(vars(ex)) if hasattr(ex, "__dict__") else set()
    names |= slots.get("G" if ct.startswith("G ") else "R", set())
    if after_raise:
        names -= RAISE_TOUCHED
    attrs = []
    for n in sorted(names):
        try:
            attrs.append("( %s %s ) " % (canon_cached(n), canon_cached(getattr(ex, n))))
        except Exception as e2:  # noqa
            attrs.append("( %s !%s ) " % (S(n), type(e2).__name__))
    return "%s %s ( %s)%s" % (ct, valtext.canon(tuple(ex.args)), "".join(attrs), str_suffix(ex))


def is_derived(ex):
    from rpyc.core import vinegar
    return type(ex) in vinegar._exception_classes_cache.values()


def base_token(ex):
    """the op-line token for what `cls.__str__(exc)` gives on a received object (cls = the class `Derived` subclasses);
    N when ex is no instance of such a subclass"""
    if not isinstance(ex, BaseException) or not is_derived(ex):
        return "N"
    C = type(ex).__mro__[1]
    try:
        t = C.__str__(ex)
        if type(t) is not str:
            raise TypeError("__str__ returned non-string")
        return canon_cached(t)
    except Exception:  # noqa
        return "( %s )" % S("ValueError")


def str_suffix(ex):
    """` str <text of str(exc)>` for an instance of a Derived subclass (` str !<Error>` when str() raises), ` str N` otherwise;
    ` !derived` is appended when the subclass does not carry the class's name / module or repr() differs from str()"""
    if not is_derived(ex):
        return " str N"
    T, C = type(ex), type(ex).__mro__[1]
    try:
        out = " str " + canon_cached(str(ex))
        if repr(ex) != str(ex):
            out += " !derived"
    except Exception as e2:  # noqa
        out = " str !" + err_name(e2)
    if not (issubclass(T, C) and T.__name__ == C.__name__ and T.__module__ == C.__module__):
        out += " !derived"
    return out


def _skip_value(toks, i):
    """index after the value starting at toks[i]"""
    depth = 0
    while True:
        t = toks[i]
        if t in ("(", "{", "["):
            depth += 1
        elif t in (")", "}", "]"):
            depth -= 1
        i += 1
        if depth == 0:
            return i


def _name_key(tok):
    return tuple(int(x) for x in tok[1:].split(",")) if len(tok) > 1 else ()


_DROP_TOKS = frozenset(valtext.to_text(n) for n in RAISE_TOUCHED)


def sort_model_obj(text, drop=False):
    """re-canonicalise `<cls..> <args> <attrs>` printed by the driver: attrs sorted by name (frozensets, if any, sorted
    through the slow path); drop: leave out the slots a `raise` statement rewrites"""
    text, _sep, strpart = text.rpartition(" str ")
    return _sort_model_obj(text, drop) + " str " + strpart


def _sort_model_obj(text, drop):
    toks = text.split(" ")
    if "{" in toks:
        return _sort_model_obj_slow(text, RAISE_TOUCHED if drop else frozenset())
    i = _skip_value(toks, 1) + 1 if toks[0] == "R" else 2          # R <module value> <S class>  |  G <S name>
    j = _skip_value(toks, i)                                        # args
    head = " ".join(toks[:j])
    assert toks[j] == "(" and toks[-1] == ")"
    pairs, k = [], j + 1
    while k < len(toks) - 1:
        e = _skip_value(toks, k)
        name = toks[k + 1]
        if not (drop and name in _DROP_TOKS):
            pairs.append((_name_key(name), " ".join(toks[k:e])))
        k = e
    pairs.sort()
    return "%s ( %s)" % (head, "".join(p[1] + " " for p in pairs))


def _sort_model_obj_slow(text, drop=frozenset()):
    toks = text.split()
    if toks[0] == "R":
        m, i = valtext._from(toks, 1)
        cname, i = valtext._from(toks, i)
        head = "R %s %s" % (valtext.canon(m), S(cname))
    else:
        fn, i = valtext._from(toks, 1)
        head = "G " + S(fn)
    args, i = valtext._from(toks, i)
    attrs, i = valtext._from(toks, i)
    pairs = sorted((n, valtext.canon(v)) for n, v in attrs if n not in drop)
    return "%s %s ( %s)" % (head, valtext.canon(args), "".join("( %s %s ) " % (S(n), v) for n, v in pairs))


def canon_model_line(line):
    """driver output -> dict(pay, imp, init, out, seen) with object texts re-canonicalised"""
    res = {}
    if line == "local":
        return {"local": True}
    if line.startswith("pay err ") or line.startswith("noreply "):
        return {"pay": line[4:] if line.startswith("pay ") else line, "dump_failed": True}
    parts = line.split(" | ")
    if parts[0].startswith("pay "):
        res["pay"] = parts[0][4:] if "{" not in parts[0] else valtext.canon(valtext.from_text(parts[0][4:]))
        parts = parts[1:]
    load, seen = parts
    toks = load.split(" ")
    assert toks[0] == "imp"
    k = toks.index("init")
    res["imp"] = " ".join(toks[1:k])
    if "{" in toks[1:k]:
        res["imp"] = valtext.canon(valtext.from_text(res["imp"]))
    res["init"] = int(toks[k + 1])
    assert toks[k + 2] == "code"
    res["code"] = int(toks[k + 3])
    out = " ".join(toks[k + 5:])
    if out.startswith("exc "):
        out = "exc " + sort_model_obj(out[4:], True)
    elif out.startswith("str "):
        out = "str " + out[4:]
    res["out"] = out
    res["seen"] = "raised " + sort_model_obj(seen[7:], True) if seen.startswith("raised ") else seen
    return res
