"""Case generation and execution for the C09 check (layer Vinegar).

A case is a JSON-able dict:
  {"kind": "exc", "spec": {...}, "s": "TTFF", "r": "FFF", "mode": "direct"|"e2e"}      a genuine exception
  {"kind": "payload", "payload": "<value text>", "r": "FFF", "mode": "direct"|"e2e"}   a crafted payload
spec = {"cls": "builtins:<Name>" | "pool:<module>:<Name>" | "dyn:<module>:<Name>", "args": "<tuple text>",
        "kwargs": {name: text}, "attrs": {name: text}}
s = include_local_traceback, include_local_version, propagate_SystemExit_locally, propagate_KeyboardInterrupt_locally
r = import_custom_exceptions, instantiate_custom_exceptions, instantiate_oldstyle_exceptions

`run_case` executes the REAL code (vinegar.dump -> brine -> vinegar.load, or two real Connections over
harness/simnet.py in manual mode) and returns the observation plus the op line for the model.
"""
import builtins
import enum
import fractions
import os
import sys
import traceback

import valtext
import vinegar_env as ve
from vinegar_env import Unrepresentable

sys.path.insert(0, os.path.join(os.path.dirname(os.path.abspath(__file__)), "props"))
import c04  # noqa: E402  (value generators)


class Skip(Exception):
    pass


# ------------------------------------------------------------------------------------------------ values
class CInt(int):
    pass


class CStr(str):
    pass


class CBytes(bytes):
    pass


class CTuple(tuple):
    pass


class CFrozenset(frozenset):
    pass


class CFloat(float):
    pass


class CComplex(complex):
    pass


class Plain(object):
    def __repr__(self):
        return "<Plain>"


class Shade(enum.IntEnum):
    DARK = 3


class BadRepr(object):
    """an argument that genuinely cannot be serialized: brine refuses it and its repr() raises"""
    def __repr__(self):
        raise ValueError("no repr")


OTHER_BY_CODE = {0: lambda: [1, 2], 1: lambda: {"a": 1}, 2: lambda: {3}, 3: lambda: bytearray(b"ab"), 4: lambda: CInt(5),
                 5: lambda: CStr("x"), 6: lambda: CBytes(b"x"), 7: lambda: CTuple((1, 2)), 8: lambda: CFrozenset([1]),
                 9: lambda: CFloat(1.5), 10: lambda: CComplex(1, 2), 96: lambda: Shade.DARK, 97: lambda: fractions.Fraction(1, 3), 98: lambda: BadRepr(), 99: lambda: Plain()}


def materialise(v):
    """value text -> Python value, with a concrete non-serializable object for every O<k>"""
    t = type(v)
    if t is valtext.Other:
        return OTHER_BY_CODE.get(v.k, OTHER_BY_CODE[99])()
    if t is tuple:
        return tuple(materialise(x) for x in v)
    if t is frozenset:
        return frozenset(materialise(x) for x in v)
    if t is slice:
        return slice(materialise(v.start), materialise(v.stop), materialise(v.step))
    return v


def value_of(text):
    return materialise(valtext.from_text(text))


def gen_small(r, depth=2, allow_other=True):
    """a brine value (or, one time in seven, something brine cannot carry), kept short: op lines stay small"""
    if allow_other and r.chance(1, 7):
        return OTHER_BY_CODE[r.choice(sorted(OTHER_BY_CODE))]()
    k = r.below(13 if depth > 0 else 9)
    if k == 0:
        return r.choice([None, NotImplemented, Ellipsis, True, False])
    if k in (1, 2):
        v = c04.gen_int(r)
        return v if abs(v) < 10 ** 60 else r.range(-300, 300)
    if k == 3:
        return c04.bits_to_float(r.choice(c04.FLOAT_BITS) if r.chance(1, 2) else r.next())
    if k == 4:
        return complex(c04.bits_to_float(r.choice(c04.FLOAT_BITS)), c04.bits_to_float(r.next()))
    if k == 5:
        return r.bytes(r.choice([0, 1, 2, 4, 5, 9]))
    if k in (6, 7):
        return c04.gen_text(r, r.choice([0, 1, 2, 3, 6]))
    if k == 8:
        return r.choice([(), b"", "", 0, 1, 1.0, frozenset(), slice(None, None, None)])
    if k in (9, 10):
        return tuple(gen_small(r, depth - 1, allow_other) for _ in range(r.below(4)))
    if k == 11:
        items = []
        for _ in range(r.below(4)):
            v = gen_small(r, depth - 1, allow_other)
            try:
                hash(v)
                items.append(v)
            except TypeError:
                pass
        return frozenset(items)
    return slice(gen_small(r, 0, allow_other), gen_small(r, 0, allow_other), gen_small(r, 0, allow_other))


# ------------------------------------------------------------------------------------------------ exception specs
# O96 an IntEnum member, O97 a Fraction, O5 an instance of a str subclass: immutable in Python's sense, but not one of the
# twelve exact types brine carries by value — they travel as their repr()
FIXED_ARGS = ["( O96 O97 ( O5 I1 ) )", "( )", "( I5 )", "( S97 I2 )", "( I1 S116,119,111 D4008000000000000 )", "( O0 )", "( N )", "( ( I1 ( I2 ) ) O1 )",
              "( D3ff8000000000000 B78 )", "( S55296 )", "( T X E )", "( { I1 } [ N I2 N ] )", "( O99 S120 O4 )"]
SPECIAL = {  # class-aware constructor arguments (args text, kwargs)
    "OSError": [("( I2 S109,115,103 )", {}), ("( I2 S109 S102,110 )", {}), ("( I13 S109 S102 I0 S103 )", {}), ("( I11 S109 )", {}),
                ("( I99999 S109 )", {}), ("( S97 S98 )", {})],
    "BlockingIOError": [("( I11 S109 I7 )", {})],
    "UnicodeDecodeError": [("( S117,116,102 B6162 I0 I1 S114 )", {}), ("( S101 B I5 I2 S )", {})],
    "UnicodeEncodeError": [("( S117,116,102 S97,98 I0 I1 S114 )", {}), ("( S101 S55296 I7 I9 S114 )", {})],
    "UnicodeTranslateError": [("( S97,98 I0 I1 S114 )", {})],
    "SyntaxError": [("( S109 ( S102 I1 I2 S116 ) )", {}), ("( S109 ( S102 I1 I2 S116 I3 I4 ) )", {}), ("( S109 )", {}),
                    # the traceback module fails on these (non-text `text`, non-int `lineno`): dump must still succeed
                    ("( S109 ( S102 I1 I2 I5 ) )", {}), ("( S109 ( S102 S97 S98 S116 ) )", {})],
    # arguments that cannot be serialized (repr() raises; an int beyond the interpreter's digit limit): the fallback record
    "ValueError": [("( O98 )", {}), ("( I1 O98 S120 )", {}), ("( I1%s )" % ("0" * (c04.LIMIT + 50)), {})] if c04.LIMIT else [("( O98 )", {})],
    "LookupError": [("( O98 )", {})],
    "RuntimeError": [("( I-1%s S120 )" % ("0" * (c04.LIMIT + 50)), {})] if c04.LIMIT else [],
    "ImportError": [("( S109 )", {"name": "S110", "path": "S112"}), ("( )", {"name": "O0"})],
    "AttributeError": [("( S109 )", {"name": "S110", "obj": "O99"}), ("( S109 )", {"name": "S110", "obj": "I5"})],
    "NameError": [("( S109 )", {"name": "S110"})],
    "SystemExit": [("( I3 )", {}), ("( S98,121,101 )", {})],
    "StopIteration": [("( I5 )", {}), ("( ( I1 I2 ) )", {}), ("( O0 )", {}), ("( N )", {}), ("( I1 I2 )", {})],
    "KeyError": [("( S107 )", {})],
    "BaseExceptionGroup": [("( S109 O0 )", {"_group": "T"})],
    "ExceptionGroup": [("( S109 O0 )", {"_group": "T"})],
}
for _n in ("FileNotFoundError", "PermissionError", "TimeoutError", "ConnectionResetError", "IndentationError", "TabError",
           "ModuleNotFoundError", "UnboundLocalError", "StopAsyncIteration"):
    SPECIAL.setdefault(_n, SPECIAL.get({"FileNotFoundError": "OSError", "PermissionError": "OSError", "TimeoutError": "OSError",
                                        "ConnectionResetError": "OSError", "IndentationError": "SyntaxError",
                                        "TabError": "SyntaxError", "ModuleNotFoundError": "ImportError",
                                        "UnboundLocalError": "NameError", "StopAsyncIteration": "StopIteration"}[_n]))

CUSTOM = [  # (cls string, constructor-args texts)
    ("pool:c09pool_loaded:AppError", ["( )", "( I1 O0 )"]), ("pool:c09pool_fresh:AppError", ["( )", "( I1 O0 )"]),
    ("pool:c09pool_loaded:RoError", ["( S120 )"]), ("pool:c09pool_fresh:RoError", ["( S120 )"]),
    ("pool:c09pool_loaded:NeedsNew", ["( I1 I2 )"]), ("pool:c09pool_fresh:NeedsNew", ["( I1 I2 )"]),
    ("pool:c09pool_loaded:BaseOnly", ["( I1 )"]), ("pool:c09pool_fresh:BaseOnly", ["( )"]),
    ("pool:c09pool_loaded:DirNoArgs", ["( I1 I2 )"]), ("pool:c09pool_fresh:DirNoArgs", ["( I1 )"]),
    ("pool:c09pool_loaded:DirDupArgs", ["( I1 O0 )"]), ("pool:c09pool_fresh:DirDupArgs", ["( I1 )"]),
    ("pool:c09pool_loaded:Slotted", ["( I1 )"]), ("pool:c09pool_fresh:Slotted", ["( )"]),
    ("pool:c09pool_loaded:BadProp", ["( I1 )"]), ("pool:c09pool_fresh:BadProp", ["( I1 )"]),
    ("pool:c09pool_lazy:AppError", ["( I1 )"]), ("dyn:c09pool_lazy:LazyErr", ["( I1 )"]), ("dyn:c09pool_lazy:Missing", ["( )"]),
    ("dyn:concurrent.futures:ProcessPoolExecutor", ["( )"]), ("dyn:concurrent.futures:BrokenExecutor", ["( I1 )"]),
    ("dyn:c09pool_unknown:AppError", ["( I1 )"]), ("dyn:c09pool_loaded:Missing", ["( I1 )"]),
    ("dyn:c09pool_loaded:NotExc", ["( I1 )"]), ("dyn:c09pool_loaded:func", ["( )"]), ("dyn:c09pool_loaded:VALUE", ["( )"]),
    ("dyn:c09pool_fresh:Missing", ["( I1 )"]), ("dyn:c09pool_broken:AppError", ["( I1 )"]), ("dyn:os:error", ["( I1 )"]),
    ("dyn:socket:herror", ["( I1 )"]), ("dyn:builtins:NoSuchError", ["( I1 )"]), ("dyn:builtins:int", ["( )"]),
    ("dyn:a\x00b:C", ["( )"]), ("dyn:\udc80m:C", ["( )"]), ("dyn::", ["( )"]), ("dyn:c09pool_loaded.sub:X", ["( )"]),
]
_dyn_cache = {}


def resolve_cls(s):
    kind, rest = s.split(":", 1)
    if kind == "builtins":
        return getattr(builtins, rest)
    mod, name = rest.rsplit(":", 1) if kind == "dyn" else rest.split(":")
    if kind == "pool":
        return ve.pool_class(mod, name)
    if s not in _dyn_cache:
        cls = type("Dyn", (Exception,), {})
        cls.__name__, cls.__qualname__, cls.__module__ = name, name, mod
        _dyn_cache[s] = cls
    return _dyn_cache[s]


def build_exc(spec):
    cls = resolve_cls(spec["cls"])
    args = value_of(spec["args"])
    kwargs = dict((k, value_of(v)) for k, v in spec.get("kwargs", {}).items())
    if kwargs.pop("_group", None):
        args = (args[0], [ValueError(1), KeyError("k")])
    try:
        e = cls(*args, **kwargs)
    except Exception as ex:  # noqa
        raise Skip("constructor refused: %s" % type(ex).__name__)
    for k, v in spec.get("attrs", {}).items():
        try:
            setattr(e, k, value_of(v))
        except Exception as ex:  # noqa
            raise Skip("attribute refused: %s" % type(ex).__name__)
    return e


def gen_specs(r, n_random):
    """all built-in exception classes x (fixed + class-aware + random) argument tuples, then the custom classes"""
    specs = []
    for cls in ve.builtin_exception_classes():
        name = cls.__name__
        todo = [(a, {}) for a in FIXED_ARGS] + list(SPECIAL.get(name, []))
        for _ in range(n_random):
            todo.append((valtext.to_text(tuple(gen_small(r) for _ in range(r.choice([1, 1, 2, 2, 3, 4])))), {}))
        for i, (a, kw) in enumerate(todo):
            spec = {"cls": "builtins:" + name, "args": a, "kwargs": kw, "attrs": {}}
            if i % 5 == 3:
                spec["attrs"] = {"detail": valtext.to_text(gen_small(r)), "code": "I%d" % r.below(9)}
            specs.append(spec)
    # a bare StopIteration that carries extra data: the marker path drops it (admitted deviation, see ASSUMPTIONS)
    specs.append({"cls": "builtins:StopIteration", "args": "( )", "kwargs": {}, "attrs": {"detail": "I3", "note": "S110"}})
    custom = []
    for cs, argl in CUSTOM:
        for a in argl:
            custom.append({"cls": cs, "args": a, "kwargs": {}, "attrs": {"info": "S105"} if "AppError" in cs else {}})
    return specs, custom


# ------------------------------------------------------------------------------------------------ crafted payloads
MODNAMES = ["builtins", "builtins", "builtins", "c09pool_lazy", "concurrent.futures", "c09pool_loaded", "c09pool_fresh", "c09pool_broken", "c09pool_unknown", "",
            "os", "socket", "exceptions", "a\x00b", "\udc80", "no_such_pkg.sub", ".rel", 5, None, (1, 2), slice(1, 2, 3),
            b"builtins", frozenset(["builtins"]), 1.5]
CLSNAMES = ["LazyErr", "ProcessPoolExecutor", "Future", "ValueError", "KeyError", "OSError", "IOError", "StopIteration", "SystemExit", "BaseException", "ExceptionGroup",
            "BaseExceptionGroup", "UnicodeDecodeError", "SyntaxError", "BlockingIOError", "int", "object", "print", "dict",
            "__name__", "None", "AppError", "RoError", "NeedsNew", "BaseOnly", "NotExc", "func", "VALUE", "Missing", "error",
            "herror", "", "a\x00", "\ud800", "x.y", 7, None, ("ValueError",), b"ValueError"]
ATTRNAMES = ["x", "code", "args", "_remote_version", "_remote_tb", "__traceback__", "__cause__", "__context__",
             "__suppress_context__", "__class__", "__dict__", "__weakref__", "__notes__", "__doc__", "__module__",
             "with_traceback", "add_note", "__init__", "__str__", "__setattr__", "__new__", "errno", "strerror", "filename",
             "characters_written", "value", "name", "msg", "lineno", "encoding", "object", "start", "end", "reason",
             "message", "exceptions", "ro", "", "a b", "\ud800", "é", 5, None, b"x", ("x",)]
VERSIONS = ["5.0.1", "5", "5.", "4.1", "", "<version denied>", "50.1", ".5", "5x", 5, b"5.0", None, (5,), 5.0, True]


def gen_attr_value(r, name):
    if name == "_remote_version":
        return r.choice(VERSIONS)
    if name in ("__traceback__", "__cause__", "__context__") and r.chance(1, 2):
        return None
    if name == "__suppress_context__" and r.chance(1, 2):
        return r.choice([True, False])
    if name in ("characters_written", "start", "end") and r.chance(1, 2):
        return r.choice([0, 3, -1, 10 ** 30, True])
    if name in ("encoding", "reason", "object") and r.chance(1, 2):
        return r.choice(["utf-8", b"ab", "xy"])
    return gen_small(r, 1, allow_other=False)


def gen_payload(r):
    k = r.below(20)
    if k == 0:
        return c04.gen_value(r, 2)
    if k == 1:
        return r.choice([1, True, 1.0, complex(1, 0), complex(1, -0.0), complex(1, 1), 1.0000000000000002, 0, 2, -1, "1", b"\x01",
                         (1,), False, 0.0, None, Ellipsis, frozenset([1]), slice(1, 1, 1)])
    if k == 2:
        return r.choice(["", "x", "builtins", "\ud800", "abcd", "ab"])
    if k == 3:   # wrong outer shape
        return r.choice([(), (1, 2, 3), (1, 2, 3, 4, 5), b"abcd", b"abc", frozenset([1, 2, 3, 4]), ((1, 2), 3, 4, 5), (5, (), (), "t"),
                         ("ab", (), (), "t"), (b"ab", (), (), "t"), (("a", "b", "c"), (), (), "t"), ((), (), (), "t"), (None, (), (), "t"),
                         (frozenset(["builtins", "ValueError"]), (), (), "t"), (("builtins",), (), (), "t")])
    m, c = r.choice(MODNAMES), r.choice(CLSNAMES)
    hd = (m, c)
    if r.chance(1, 25):
        hd = r.choice([m + c if type(m) is str and type(c) is str and len(m + c) == 2 else "ab", b"ab", (m,), (m, c, c), 7])
    ak = r.below(10)
    if ak < 6:
        args = tuple(gen_small(r, 1, allow_other=False) for _ in range(r.below(4)))
    else:
        args = r.choice(["abc", b"ab", frozenset([1]), None, 5, slice(1, 2, 3), 1.5, "", ((), ())])
    pairs = []
    for _ in range(r.choice([0, 1, 1, 2, 3, 5])):
        n = r.choice(ATTRNAMES)
        pairs.append((n, gen_attr_value(r, n)))
    if r.chance(1, 3):
        pairs.append(("_remote_version", r.choice(VERSIONS)))
    attrs = tuple(pairs)
    bk = r.below(14)
    if bk == 0:
        attrs = r.choice([None, 5, "ab", ("ab",), ("abc",), b"ab", (b"ab",), (("x", 1), 5), (("x", 1, 2),), frozenset([("x", 1)]),
                          (("x",),), 1.5, ((1, 2),)])
    elif bk == 1 and pairs:
        attrs = attrs + (r.choice([5, "abc", ("x",), None]),)
    tb = "tb" if r.chance(3, 4) else r.choice([None, 5, b"x", ("a",), "", "\ud800", 1.5])
    return (hd, args, attrs, tb)


# ------------------------------------------------------------------------------------------------ running the real code
def flags(s):
    return [ch == "T" for ch in s]


def seen_from_exception(ex, m, c, slots):
    """the exception that reached the requester's except clause -> canonical text"""
    from rpyc.core import vinegar
    if type(ex) in vinegar._exception_classes_cache.values():
        return "raised " + ve.obj_text(ex, m, c, slots, True)
    if type(ex) is StopIteration and not ex.args and not getattr(ex, "__dict__", None):
        return "raised " + ve.obj_text(ex, "builtins", "StopIteration", {}, True)
    return "err " + ve.err_name(ex)


def observe_load(payload, rf, m, c, slots):
    """one real vinegar.load -> dict(imp, init, out, seen, delta)"""
    from rpyc.core import vinegar
    ve.reset_canaries()
    obj = err = None
    with ve.ImportWatch() as w:
        try:
            obj = vinegar.load(payload, rf[0], rf[1], rf[2])
        except Exception as ex:  # noqa
            err = ex
    res = dict(imp=valtext.canon(tuple(w.attempts)), init=len(ve.canary().INIT), code=len(ve.canary().LAZY), delta=list(w.delta),
               imported=list(ve.canary().IMPORTED))
    if err is not None:
        res["out"] = "err " + ve.err_name(err)
        res["seen"] = res["out"]
    else:
        if obj is StopIteration:
            res["out"] = "stopcls"
        elif type(obj) is str:
            res["out"] = "str " + valtext.canon(obj)
        elif isinstance(obj, BaseException):
            res["out"] = "exc " + ve.obj_text(obj, m, c, slots)
        else:
            res["out"] = "object " + type(obj).__name__
        try:
            raise obj
        except BaseException as ex:  # noqa
            res["seen"] = seen_from_exception(ex, m, c, slots)
    res["obj"] = obj
    res["base"] = ve.base_token(obj)
    w.cleanup()
    return res


def capture(exc):
    try:
        raise exc
    except BaseException:  # noqa
        return sys.exc_info()


def model_line_rt(s, kind, mode, r, env, fmt, table, rec, base="N"):
    """mode: d = vinegar.dump alone, e = through Connection._send_exception; base: see vinegar_env.base_token"""
    return "vin rt %s%s%s %s %s %s %s %s %s %s %s %s %s %s" % (s, kind, mode, r, env, fmt, table, base, rec[1], rec[2], rec[3],
                                                            rec[4], rec[5], rec[7])


def direct_product(spec, configs, with_tb=True):
    """one exception through the real dump -> brine -> load under each (s, r) of configs;
    yields (s, r, model op line, observation dict, info)"""
    for item in direct_product_obj(build_exc(spec), configs, with_tb):
        yield item


def direct_product_obj(exc, configs, with_tb=True):
    """the same for an exception OBJECT (hop two of a relay: the object another load returned)"""
    from rpyc.core import vinegar, brine
    t, v, tb = capture(exc) if with_tb else (type(exc), exc, None)
    rec = ve.extract_record(t, v, tb)
    m, c = t.__module__, t.__name__
    env, fmt, table, info = ve.environment(m, c, rec[6])
    info.update(m=m, c=c, exc=v, tbtext=ve.format_tb(t, v, tb)[0])
    wires = {}
    for s, r in configs:
        sf, rf = flags(s), flags(r)
        if s[:2] not in wires:
            try:
                payload = vinegar.dump(t, v, tb, sf[0], sf[1])
            except Exception as ex:  # noqa   (dump itself raises: compared as such)
                wires[s[:2]] = (None, "err " + ve.err_name(ex))
            else:
                try:
                    wires[s[:2]] = (brine.load(brine.dump(payload)), valtext.canon(payload))
                except Exception:  # noqa
                    raise Skip("brine cannot put the dumped exception on the wire (end-to-end cases cover the fallback)")
        wire, pay = wires[s[:2]]
        if wire is None:
            line = model_line_rt(s[:2] + "FF", rec[0], "d", r, env, fmt, table, rec)
            yield s, r, line, dict(pay=pay, dump_failed=True, delta=[], seen=pay), info
            continue
        obs = observe_load(wire, rf, m, c, info["slots"])
        obs["pay"] = pay
        yield s, r, model_line_rt(s[:2] + "FF", rec[0], "d", r, env, fmt, table, rec, obs["base"]), obs, info


FOREIGN_VERSION = "4.1.0"


def first_hop(spec, s1, r1, foreign=False):
    """the exception object a first receiver (switches r1) builds from what a first sender (switches s1) dumps; None when the
    first hop does not end in an exception instance (marker path, load error).  foreign: the first sender runs another major
    version of rpyc (its record names FOREIGN_VERSION), so the receiver appends its version warning to the traceback text"""
    from rpyc.core import vinegar, brine
    exc = build_exc(spec)
    t, v, tb = capture(exc)
    sf, rf = flags(s1), flags(r1)
    try:
        payload = vinegar.dump(t, v, tb, sf[0], True if foreign else sf[1])
        if foreign and type(payload) is tuple:
            payload = (payload[0], payload[1], payload[2][:-1] + ((payload[2][-1][0], FOREIGN_VERSION),), payload[3])
        obj = vinegar.load(brine.load(brine.dump(payload)), rf[0], rf[1], rf[2])
    except Exception:  # noqa
        obj = None
    for m in [m for m in ("c09pool_fresh", "c09pool_broken", "c09pool_lazytarget") if m in sys.modules]:
        sys.modules.pop(m, None)
    ve.reset_canaries()
    return obj if isinstance(obj, BaseException) else None


def two_hop_product(spec, s1, r1, configs2, foreign=False):
    """hop one under (s1, r1), then the received object raised on: dump -> brine -> load under each (s2, r2) of configs2"""
    obj = first_hop(spec, s1, r1, foreign)
    if obj is None:
        raise Skip("the first hop does not end in an exception instance")
    for item in direct_product_obj(obj, configs2, True):
        yield item


def run_exc_direct(spec, s, r, with_tb=True):
    """-> (model op line, observation dict, info)"""
    for _s, _r, line, obs, info in direct_product(spec, [(s, r)], with_tb):
        return line, obs, info


def run_payload_direct(payload, r):
    m, c, pairs = ve.preparse(payload)
    env, fmt, table, info = ve.environment(m, c, pairs)
    obs = observe_load(payload, flags(r), m, c, info["slots"])
    line = "vin load %s %s %s %s %s %s" % (r, env, fmt, table, obs["base"], valtext.to_text(payload))
    info.update(m=m, c=c)
    return line, obs, info


# ------------------------------------------------------------------------------------------------ end to end (simnet, manual mode)
STASH = {}


def drain(conn):
    n = 0
    while conn.serve(0):
        n += 1
    return n


class Pair(object):
    """two real Connections over an in-memory stream pair; B serves `boom`, A is the requester"""
    def __init__(self, s, r):
        import rpyc
        import simnet
        from rpyc.core import consts
        self.consts = consts
        sf, rf = flags(s), flags(r)

        class Svc(rpyc.Service):
            def exposed_boom(self, k):
                raise STASH[k]

        self.net = simnet.Net(manual=True)
        self.ca, self.cb = self.net.connect_pair(
            None, Svc(),
            dict(import_custom_exceptions=rf[0], instantiate_custom_exceptions=rf[1], instantiate_oldstyle_exceptions=rf[2]),
            dict(include_local_traceback=sf[0], include_local_version=sf[1], propagate_SystemExit_locally=sf[2],
                 propagate_KeyboardInterrupt_locally=sf[3]))
        # manual mode: the requester's poll() on an empty inbox lets the peer serve what it has received
        def pump(op, stream, arg, cb=self.cb):
            if op == "poll" and not stream.inbox:
                drain(cb)
        self.ca._channel.stream.fault = pump
        self.boom = self.ca.root.boom
        self.orig_box = self.cb._box_exc
        self.last_raw = None
        orig_unbox = self.ca._unbox_exc

        def watch_unbox(raw):          # observation only: what exactly reached the requester's loader
            self.last_raw = raw
            return orig_unbox(raw)
        self.ca._unbox_exc = watch_unbox

    def close(self):
        for c in (self.ca, self.cb):
            try:
                c.close()
            except Exception:  # noqa
                pass

    def call_sync(self, box_exc, m_c_slots):
        """boom(0) as an ordinary synchronous remote call -> dict(local, imp, init, seen, delta)"""
        self.cb._box_exc = box_exc
        ve.reset_canaries()
        res = dict(local=None)
        with ve.ImportWatch() as w:
            try:
                self.boom(0)
                res["seen"] = "returned"
            except BaseException as ex:  # noqa
                caught = ex
        self.cb._box_exc = self.orig_box
        m, c, slots = m_c_slots()
        res.update(imp=valtext.canon(tuple(w.attempts)), init=len(ve.canary().INIT), code=len(ve.canary().LAZY), delta=list(w.delta))
        if "seen" not in res:
            res["seen"] = seen_from_exception(caught, m, c, slots)
            res["exc_seen"] = caught
        res["base"] = ve.base_token(res.get("exc_seen"))
        w.cleanup()
        return res

    def call(self, box_exc, m_c_slots):
        """boom(0) as an asynchronous request with each side served explicitly (so that an exception re-raised
        inside the serving side is seen there); returns dict(local, imp, init, seen, delta)"""
        self.cb._box_exc = box_exc
        ar = self.ca.async_request(self.consts.HANDLE_CALL, self.boom, (0,), ())
        res = dict(local=None)
        try:
            drain(self.cb)
        except BaseException as ex:  # noqa   (re-raised in the serving side: nothing was sent)
            res["local"] = type(ex).__name__
        finally:
            self.cb._box_exc = self.orig_box
        ve.reset_canaries()
        err = None
        with ve.ImportWatch() as w:
            try:
                drain(self.ca)
            except Exception as ex:  # noqa
                err = ex
        m, c, slots = m_c_slots()
        res.update(imp=valtext.canon(tuple(w.attempts)), init=len(ve.canary().INIT), code=len(ve.canary().LAZY), delta=list(w.delta))
        if res["local"] is not None:
            res["seen"] = "local"
        elif err is not None:
            res["seen"] = "err " + ve.err_name(err)
        elif not ar.ready:
            res["seen"] = "no-reply"
        else:
            try:
                ar.value
                res["seen"] = "returned"
            except BaseException as ex:  # noqa
                res["seen"] = seen_from_exception(ex, m, c, slots)
                res["exc_seen"] = ex
        res["base"] = ve.base_token(res.get("exc_seen"))
        w.cleanup()
        return res


class RelayPair(object):
    """two real Connections over simnet (threaded, baton-scheduled): A calls B's `relay(cb)`, B calls A's callback `cb`, which
    raises; B does not catch it.  The exception crosses A -> B (dumped with A's send switches, loaded with B's receive
    switches) and then, raised on by B's handler, B -> A (B's send switches, A's receive switches)."""
    def __init__(self, s1, r1, s2, r2):
        import rpyc
        import simnet

        class Svc(rpyc.Service):
            def exposed_relay(self, cb):
                return cb()
        def cfg(s, r):
            sf, rf = flags(s), flags(r)
            return dict(include_local_traceback=sf[0], include_local_version=sf[1], propagate_SystemExit_locally=False,
                        propagate_KeyboardInterrupt_locally=False, import_custom_exceptions=rf[0],
                        instantiate_custom_exceptions=rf[1], instantiate_oldstyle_exceptions=rf[2])
        self.net = simnet.Net()
        self.ctx = self.net.installed()
        self.ctx.__enter__()
        self.ca, self.cb = self.net.connect_pair(None, Svc(), cfg(s1, r2), cfg(s2, r1))
        self.relay = self.ca.root.relay
        self.orig_box = self.cb._box_exc

    def close(self):
        try:
            self.net.shutdown([self.ca, self.cb])
        finally:
            self.ctx.__exit__(None, None, None)


def run_relay_e2e(pair, spec, s2, r2):
    """one relayed exception; returns (model op line for the SECOND hop, observation of the final requester, info)"""
    exc = build_exc(spec)
    if type(exc) in (SystemExit, KeyboardInterrupt, GeneratorExit):
        raise Skip("not relayed through a handler")
    cap = {}

    def spy(t, v, tb):
        try:
            rec = ve.extract_record(t, v, tb)
            env, fmt, table, info = ve.environment(t.__module__, t.__name__, rec[6])
            cap.update(rec=rec, env=env, fmt=fmt, table=table, info=info, m=t.__module__, c=t.__name__)
        except Unrepresentable as ex:
            cap["skip"] = str(ex)
        return pair.orig_box(t, v, tb)

    def boom():
        raise exc
    pair.cb._box_exc = spy
    ve.reset_canaries()
    obs = dict(delta=[], imp="( )")
    caught = None
    with ve.ImportWatch() as w:
        try:
            pair.relay(boom)
            obs["seen"] = "returned"
        except BaseException as ex:  # noqa
            caught = ex
    pair.cb._box_exc = pair.orig_box
    if "skip" in cap or "rec" not in cap:
        w.cleanup()
        raise Skip(cap.get("skip", "the intermediate peer did not box an exception"))
    obs["init"] = len(ve.canary().INIT)
    if caught is not None:
        obs["seen"] = seen_from_exception(caught, cap["m"], cap["c"], cap["info"]["slots"])
        obs["exc_seen"] = caught
    obs["base"] = ve.base_token(caught)
    w.cleanup()
    line = model_line_rt(s2, cap["rec"][0], "e", r2, cap["env"], cap["fmt"], cap["table"], cap["rec"], obs["base"])
    info = cap["info"]
    info.update(m=cap["m"], c=cap["c"], exc=exc, importable=False)
    return line, obs, info


def run_exc_e2e(pair, spec, s, r, sync=True):
    exc = build_exc(spec)
    STASH[0] = exc
    cap = {}

    def spy(t, v, tb):
        try:
            rec = ve.extract_record(t, v, tb)
            env, fmt, table, info = ve.environment(t.__module__, t.__name__, rec[6])
            cap.update(rec=rec, env=env, fmt=fmt, table=table, info=info, m=t.__module__, c=t.__name__, t=t)
        except Unrepresentable as ex:
            cap["skip"] = str(ex)
        return pair.orig_box(t, v, tb)

    # a locally re-raised exception never reaches _box_exc: take the record here as well
    t = type(exc)
    try:
        rec0 = ve.extract_record(t, exc, None)
    except Unrepresentable as ex:
        raise Skip(str(ex))
    call = pair.call if t in (SystemExit, KeyboardInterrupt) or sync is False else pair.call_sync
    obs = call(spy, lambda: (cap.get("m"), cap.get("c"), cap.get("info", {}).get("slots", {})))
    if "skip" in cap:
        raise Skip(cap["skip"])
    if "rec" in cap:
        line = model_line_rt(s, cap["rec"][0], "e", r, cap["env"], cap["fmt"], cap["table"], cap["rec"], obs["base"])
        info = cap["info"]
        info.update(m=cap["m"], c=cap["c"])
    else:
        line = model_line_rt(s, rec0[0], "e", r, "FFmmF", "N", "( )", rec0)
        info = dict(m=t.__module__, c=t.__name__, importable=False, slots={})
    info["exc"] = exc
    return line, obs, info


def run_payload_e2e(pair, payload, r, sync=True):
    STASH[0] = RuntimeError("replaced by a crafted payload")
    if c04.has_overlimit_int(payload):
        raise Skip("brine cannot put this payload on the wire (int beyond the digit limit)")
    from rpyc.core import brine
    for _ in range(6):     # a frozenset is rebuilt by the receiver: send the value whose iteration order survives the wire
        again = brine.load(brine.dump(payload))
        if valtext.to_text(again) == valtext.to_text(payload):
            break
        payload = again
    else:
        raise Skip("frozenset iteration order does not settle over the wire")
    m, c, pairs = ve.preparse(payload)
    env, fmt, table, info = ve.environment(m, c, pairs)
    pair.last_raw = None
    obs = (pair.call_sync if sync else pair.call)(lambda t, v, tb: payload, lambda: (m, c, info["slots"]))
    line = "vin load %s %s %s %s %s %s" % (r, env, fmt, table, obs["base"], valtext.to_text(payload))
    if pair.last_raw is None or valtext.to_text(pair.last_raw) != valtext.to_text(payload):
        # a NaN inside a frozenset hashes by identity: the receiver's copy iterates in another order
        raise Skip("frozenset iteration order changed on the wire")
    info.update(m=m, c=c)
    return line, obs, info
