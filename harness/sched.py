"""Line-level cooperative thread scheduler (DESIGN.md 6.3).

Logical threads are real OS threads (so `sys.settrace`, thread-locals and re-entrant calls behave as in
production), but exactly one runs at a time.  A thread *parks*

  * on every `line` event inside a *target* code object (`sys.settrace`), i.e. before each source line of
    the code under test (lines for which `skip(code, lineno)` holds are not scheduling points),
  * before a shared action on an instrumented object if it has already performed one since it was last
    resumed (`before_action`: at most one shared action per step, so a line holding two of them is split),
  * at explicit `yield_point()`s,
  * when it would block (`block_until`: blocking is a scheduler state, never an OS-level wait),

and continues only when it is granted a step.  Who runs next is decided by a `choose(enabled) -> tid`
callback (`Scheduler.run`), evaluated by whichever thread is parking, so a thread that is chosen again just
continues and a switch costs one lock hand-off.  A *schedule* is the list of thread ids that were granted
steps.  "No thread enabled while some thread has not finished" is a deadlock / lost wake-up
(`RunResult.deadlock`).  Virtual time: `now`, `block_until(..., deadline=)`, `advance()`.

Provided on top: `SchedLock` (stand-in for `threading.Lock` / `RLock`), `SchedCondition`, and schedule
exploration: `dfs()` (stateless depth-first enumeration with replay of schedule prefixes; sound partial-order
reduction from per-step access sets: steps touching nothing shared are not branched on, sleep sets suppress
re-orderings of independent steps; optional preemption bound), `run_random()`, `run_fixed()`.

Nothing here knows about rpyc; the property modules build the objects under test, tell the scheduler which
code objects to trace, and say what a step may touch.

Typical use (see props/c12.py):

    sched = Scheduler(targets=[Connection._send.__code__], skip=lambda code, ln: ln in thread_local_lines)
    obj.lock = SchedLock(sched, on_event=log)            # instrumented shared objects call
    ...                                                  # sched.before_action(label) before acting
    sched.spawn(0, body0); sched.spawn(1, body1)
    res = run_random(sched, rng)                         # or run_fixed(sched, [0, 1, 1, 0]) / dfs(new_run, access)
    ... inspect res.schedule, res.deadlock, sched.errors(), the objects ...
    sched.close()                                        # always: unwinds threads that did not finish
"""
import sys
import threading
import _thread


class SchedAbort(BaseException):
    """raised inside a parked thread when the run is torn down"""


class SchedulerHang(Exception):
    """a thread did not come back to the scheduler (it blocked outside the scheduler's control)"""


class Nondeterminism(Exception):
    """replaying a schedule prefix did not reproduce the recorded choice points"""


_IDLE_WORKERS = []


class _Worker:
    """a reusable OS thread: logical threads of successive executions run on pooled workers"""

    def __init__(self):
        self.inbox = _thread.allocate_lock()
        self.inbox.acquire()
        self.job = None
        _thread.start_new_thread(self._loop, ())

    def _loop(self):
        while True:
            self.inbox.acquire()
            job, self.job = self.job, None
            try:
                job()
            except BaseException:  # noqa - `Scheduler._body` reports everything itself
                pass
            _IDLE_WORKERS.append(self)


def _start_worker(job):
    try:
        w = _IDLE_WORKERS.pop()
    except IndexError:
        w = _Worker()
    w.job = job
    w.inbox.release()


class RunResult:
    """what one driven execution observed: `schedule` (tid per step), `deadlock` (no thread enabled while some
    thread had not finished), `pruned` (exploration stopped this execution early), `truncated` (step limit)"""

    def __init__(self):
        self.schedule = []
        self.deadlock = False
        self.pruned = False
        self.truncated = False
        self.choice_points = 0
        self.preemptions = 0


class Scheduler:
    def __init__(self, targets=(), skip=None, step_timeout=30.0, on_line=None):
        self.targets = set(targets)          # code objects whose lines are scheduling points
        self.skip = skip                     # skip(code, lineno) -> True: that line is NOT a scheduling point
        self.on_line = on_line               # on_line(frame): called on the traced thread at every line event of a
                                             # target, before `skip` (tracing is off inside it, as in any trace function)
        self.gate = {}                       # tid -> Lock the parked thread waits on
        self.mgate = threading.Lock()        # the driving (main) thread waits on this while threads run
        self.mgate.acquire()
        self.state = {}                      # tid -> ("line", name, lineno) | ("yield", label) | ("blocked", label, pred, deadline) | ("start",) | ("done",) | ("raised", exc)
        self.threads = {}
        self.order = []                      # tids in spawn order
        self.acted = {}                      # tid -> shared actions performed since the thread was last resumed
        self.frames = {}                     # tid -> innermost frame of the parked thread (for `signature`)
        self.touched = {}                    # tid -> labels of the shared objects touched since it was last resumed
        self.steps = 0
        self.now = 0.0                       # virtual clock
        self.aborting = False
        self.step_timeout = step_timeout
        self.last = None                     # (tid, shared actions performed, labels touched) of the step that ended last
        self.max_steps = 100000
        self._choose = None
        self._res = None
        self._fatal = None
        self._local = threading.local()

    # ------------------------------------------------------------------ thread side
    def current(self):
        """tid of the calling scheduled thread, or None when called from an unscheduled thread"""
        return getattr(self._local, "tid", None)

    def _next(self):
        """pick the thread that runs next (executed by whichever thread holds the baton); None = back to main"""
        if self._choose is None or self.aborting:
            return None
        res = self._res
        while True:
            if self.all_finished():
                return None
            en = self.enabled()
            if not en:
                if self.advance():
                    continue
                res.deadlock = True
                return None
            if len(res.schedule) >= self.max_steps:
                res.truncated = True
                return None
            try:
                tid = self._choose(en)
            except BaseException as ex:  # noqa - a bug in the exploration, reported by run()
                self._fatal = ex
                return None
            if tid is None:
                return None
            res.schedule.append(tid)
            self.steps += 1
            return tid

    def _park(self, st):
        tid = self._local.tid
        self.last = (tid, self.acted[tid], self.touched[tid])
        self.frames[tid] = sys._getframe(1)
        self.state[tid] = st
        nxt = self._next()
        if nxt != tid:
            (self.gate[nxt] if nxt is not None else self.mgate).release()   # hand the baton over
            self.gate[tid].acquire()                                         # and wait to be granted a step
        self.acted[tid] = 0
        self.touched[tid] = []
        if self.aborting:
            raise SchedAbort()

    def yield_point(self, label="yield"):
        """unconditional scheduling point"""
        if self.current() is None or self.aborting:
            return
        self._park(("yield", label))

    def before_action(self, label="action"):
        """call before every shared action of an instrumented object: parks iff this thread has already
        performed a shared action in the current step"""
        tid = self.current()
        if tid is None or self.aborting:
            return
        if self.acted[tid] > 0:
            self._park(("yield", label))
        self.acted[tid] += 1
        self.touched[tid].append(label)

    def touch(self, label):
        """record (without a scheduling point) that the running thread touches the shared object `label`"""
        tid = self.current()
        if tid is not None:
            self.touched[tid].append(label)

    def block_until(self, pred, label="blocked", deadline=None):
        """park until resumed; the thread counts as enabled only while `pred()` holds or the virtual clock has
        reached `deadline`.  Returns True iff `pred()` held on resumption."""
        if self.current() is None:
            raise RuntimeError("block_until outside a scheduled thread")
        if self.aborting:
            raise SchedAbort()
        self._park(("blocked", label, pred, deadline))
        return bool(pred())

    def _global_trace(self, frame, event, arg):
        if event == "call" and frame.f_code in self.targets:
            return self._local_trace
        return None

    def _local_trace(self, frame, event, arg):
        if event == "line" and not self.aborting:
            if self.on_line is not None:
                self.on_line(frame)
            if self.skip is None or not self.skip(frame.f_code, frame.f_lineno):
                self._park(("line", frame.f_code.co_name, frame.f_lineno))
        return self._local_trace

    def _body(self, tid, fn, args):
        self._local.tid = tid
        final = ("done",)
        try:
            self._park(("start",))
            sys.settrace(self._global_trace)
            try:
                fn(*args)
            finally:
                sys.settrace(None)
        except SchedAbort:
            final = ("done",)
        except BaseException as ex:  # noqa - reported to the driver
            final = ("raised", ex)
        self.last = (tid, self.acted[tid], self.touched[tid])
        self.state[tid] = final
        nxt = self._next()
        (self.gate[nxt] if nxt is not None else self.mgate).release()

    # ------------------------------------------------------------------ driver side
    def spawn(self, tid, fn, *args):
        """create logical thread `tid` running fn(*args); it parks before its first instruction"""
        self.order.append(tid)
        self.acted[tid] = 0
        self.touched[tid] = []
        self.gate[tid] = threading.Lock()
        self.gate[tid].acquire()
        self.state[tid] = ("new",)
        # pooled bare OS threads: thousands of executions are started per second, and creating a
        # `threading.Thread` costs more than a whole short execution
        _start_worker(lambda: self._body(tid, fn, args))
        self._wait_main(tid)

    def _wait_main(self, tid=None):
        if not self.mgate.acquire(timeout=self.step_timeout):
            raise SchedulerHang("thread %r did not return to the scheduler (states %r)" % (tid, self.state))

    def finished(self, tid):
        return self.state[tid][0] in ("done", "raised")

    def all_finished(self):
        for t in self.order:
            if self.state[t][0] not in ("done", "raised"):
                return False
        return True

    def is_enabled(self, tid):
        st = self.state[tid]
        if st[0] in ("done", "raised", "new"):
            return False
        if st[0] == "blocked":
            return bool(st[2]()) or (st[3] is not None and self.now >= st[3])
        return True

    def enabled(self):
        return [t for t in self.order if self.is_enabled(t)]

    def where(self, tid):
        return self.state[tid]

    def run(self, choose, max_steps=100000):
        """drive the threads: `choose(enabled) -> tid` is asked before every step (return None to stop).
        Ends when every thread has finished, no thread is enabled (deadlock), or `choose` stops."""
        self._choose, self._res, self._fatal, self.max_steps = choose, RunResult(), None, max_steps
        nxt = self._next()
        if nxt is not None:
            self.gate[nxt].release()
            self._wait_main(nxt)
        self._choose = None
        if self._fatal is not None:
            raise self._fatal
        return self._res

    def step(self, tid):
        """let thread `tid` run until it parks again, blocks or finishes"""
        if not self.is_enabled(tid):
            raise RuntimeError("thread %r is not enabled (%r)" % (tid, self.state[tid]))
        todo = [tid]
        self.run(lambda en: todo.pop() if todo else None)

    def advance(self):
        """no thread enabled: move the virtual clock to the earliest deadline of a blocked thread"""
        ds = [self.state[t][3] for t in self.order if self.state[t][0] == "blocked" and self.state[t][3] is not None]
        ds = [d for d in ds if d > self.now]
        if not ds:
            return False
        self.now = min(ds)
        return True

    def signature(self, tid):
        """the complete Python-level state of parked thread `tid`: for every frame on its stack the code
        object, the bytecode offset and the locals (immutable plain values by value, anything else by type
        name — shared objects must be described separately by the caller)"""
        st = self.state[tid]
        if st[0] in ("done", "raised", "new", "start"):
            return (st[0],)
        out = [st[0], st[1] if st[0] != "line" else st[2]]
        f = self.frames.get(tid)
        while f is not None and f.f_code is not Scheduler._body.__code__:
            if f.f_code.co_filename != __file__:
                loc = f.f_locals
                out.append((f.f_code.co_name, f.f_lasti, tuple((k, _plain(loc[k])) for k in sorted(loc))))
            f = f.f_back
        return tuple(out)

    def errors(self):
        return dict((t, self.state[t][1]) for t in self.order if self.state[t][0] == "raised")

    def close(self):
        """tear the run down: unwind every thread that has not finished"""
        self.aborting = True
        self._choose = None
        for tid in self.order:
            if not self.finished(tid) and self.state[tid][0] != "new":
                self.gate[tid].release()
                try:
                    self._wait_main(tid)
                except SchedulerHang:
                    pass


def _plain(v):
    if v is None or type(v) in (int, bool, float, str, bytes):
        return v
    if type(v) is tuple:
        return tuple(_plain(x) for x in v)
    return "<%s>" % type(v).__name__


class SchedLock:
    """stand-in for `threading.Lock` (one bit, no owner, not re-entrant) — or, with `reentrant=True`, for
    `threading.RLock` (owner = the scheduled OS-level thread, with a count) — whose blocking is a scheduler
    state.  `on_event(kind, result)` is called for every operation: kinds `try` (non-blocking acquire, with
    its result), `block` (a blocking acquire was requested), `acquired` (a blocking acquire was granted or
    timed out, with its result), `release` (with False if the lock was not held)."""

    def __init__(self, sched, on_event=None, name="lock", reentrant=False, pre_event=None):
        self.sched = sched
        self.pre_event = pre_event or (lambda kind: None)   # called at the scheduling point, before the operation
        self.held = False
        self.name = name
        self.reentrant = reentrant
        self.owner = None
        self.count = 0
        self.on_event = on_event or (lambda kind, result: None)

    def _free_for_me(self):
        return not self.held or (self.reentrant and self.owner == self.sched.current())

    def _take(self):
        self.held = True
        self.owner = self.sched.current()
        self.count += 1

    def acquire(self, blocking=True, timeout=-1):
        self.sched.before_action(self.name + ".acquire")
        self.pre_event("try" if not blocking else "block")
        if not blocking:
            ok = self._free_for_me()
            if ok:
                self._take()
            self.on_event("try", ok)
            return ok
        self.on_event("block", None)
        deadline = None if timeout is None or timeout < 0 else self.sched.now + timeout
        while not self._free_for_me():
            if self.sched.current() is None:
                raise RuntimeError("blocking acquire of a held SchedLock outside a scheduled thread")
            if not self.sched.block_until(self._free_for_me, self.name, deadline):
                if deadline is not None and self.sched.now >= deadline:
                    self.on_event("acquired", False)
                    return False
        self._take()
        self.on_event("acquired", True)
        return True

    def release(self):
        self.sched.before_action(self.name + ".release")
        self.pre_event("release")
        if not self.held or (self.reentrant and self.owner != self.sched.current()):
            self.on_event("release", False)
            raise RuntimeError("release unlocked lock")
        self.count -= 1
        if not self.reentrant or self.count == 0:
            self.held = False
            self.owner = None
            self.count = 0
        self.on_event("release", True)

    def locked(self):
        return self.held

    def __enter__(self):
        self.acquire()
        return self

    def __exit__(self, *exc):
        self.release()


class SchedCondition:
    """stand-in for `threading.Condition` over a `SchedLock`; `wait(timeout)` is a scheduler state with a
    virtual deadline"""

    def __init__(self, sched, lock=None, on_event=None, name="cond"):
        self.sched = sched
        self.lock = lock or SchedLock(sched, name=name + ".lock")
        self.waiters = []
        self.name = name
        self.on_event = on_event or (lambda kind, result: None)
        self.acquire = self.lock.acquire
        self.release = self.lock.release

    def __enter__(self):
        self.lock.acquire()
        return self

    def __exit__(self, *exc):
        self.lock.release()

    def wait(self, timeout=None):
        if not self.lock.held:
            raise RuntimeError("cannot wait on un-acquired lock")
        token = [False]
        self.waiters.append(token)
        self.on_event("wait", timeout)
        self.lock.held = False
        deadline = None if timeout is None else self.sched.now + max(timeout, 0)
        self.sched.block_until(lambda: token[0], self.name + ".wait", deadline)
        if token in self.waiters:
            self.waiters.remove(token)
        self.on_event("woken", token[0])
        while self.lock.held:
            self.sched.block_until(lambda: not self.lock.held, self.name + ".reacquire")
        self.lock.held = True
        return token[0]

    def notify(self, n=1):
        if not self.lock.held:
            raise RuntimeError("cannot notify on un-acquired lock")
        self.sched.before_action(self.name + ".notify")
        woken = self.waiters[:n]
        del self.waiters[:n]
        for tok in woken:
            tok[0] = True
        self.on_event("notify", len(woken))

    def notify_all(self):
        self.notify(len(self.waiters))


# ---------------------------------------------------------------------------------------------- exploration
def run_fixed(sched, schedule, max_steps=100000):
    """follow `schedule` as far as it is feasible (a listed thread that is not enabled is skipped), then
    continue with the first enabled thread"""
    it = iter(list(schedule))

    def choose(en):
        for tid in it:
            if tid in en:
                return tid
        return en[0]
    return sched.run(choose, max_steps)


def run_random(sched, rng, stickiness=0, max_steps=100000):
    """uniformly random enabled thread per step; with `stickiness` k the running thread is kept with
    probability k/(k+1) while it stays enabled (long runs of one thread with rare preemptions)"""
    last = [None]

    def choose(en):
        if stickiness and last[0] in en and rng.below(stickiness + 1) != 0:
            return last[0]
        last[0] = en[rng.below(len(en))]
        return last[0]
    return sched.run(choose, max_steps)


def independent(a, b):
    """access sets (frozensets of (object, 'r'|'w'), None = unknown): no object in common that either writes"""
    if a is None or b is None:
        return False
    for (obj, mode) in a:
        for (obj2, mode2) in b:
            if obj == obj2 and (mode == "w" or mode2 == "w"):
                return False
    return True


def dfs(new_run, access=None, preemption_bound=None, max_runs=None, max_steps=100000, state_key=None):
    """Enumerate schedules depth-first (stateless: every schedule is a fresh execution that replays the
    recorded prefix).  `new_run()` builds a fresh system and returns an object with a `.sched` attribute
    (threads spawned, nothing stepped).  Yields `(run, result)` after each execution; the caller closes
    `run.sched`.  Executions with `result.pruned` were cut short by the reduction (their schedule is a real
    prefix, not a complete execution).

    access(run, tid) -> frozenset of (object, 'r'|'w') the NEXT step of parked thread `tid` may touch, or None
    if unknown.  Used for a sound partial-order reduction: a step with an empty access set commutes with
    everything, so it alone is explored where one exists; otherwise sleep sets keep a thread whose pending
    step was already explored from this state asleep until a dependent step has run, so that of the
    executions that differ only in the order of independent steps exactly one is completed.
    preemption_bound: explore only schedules with at most that many switches away from a thread that could
    have continued (a heuristic subset when combined with sleep sets).

    state_key(run) -> hashable description of the COMPLETE current state of the system under test (use
    `Scheduler.signature` for the threads and describe the shared objects yourself).  When given, the search
    is stateful instead: an execution is cut (`pruned`) as soon as it reaches a state that was reached
    before, so every reachable state is expanded once and every transition out of it is executed at least
    once — but not every path; sleep sets are not used in this mode (steps touching nothing shared are
    still not branched on).
    """
    stack = []          # frames: dict(en, opts, idx, sleep, last, preempt, forced)
    runs = 0
    visited = set()
    while True:
        run = new_run()
        sched = run.sched
        cur = dict(depth=0, last=None, preempt=0, sleep=frozenset(), choice_points=0, pruned=False)

        def choose(en, run=run, cur=cur):
            depth = cur["depth"]
            if depth < len(stack):
                frame = stack[depth]
                if frame["en"] != en:
                    raise Nondeterminism("choice point %d: recorded %r, now %r" % (depth, frame["en"], en))
            else:
                if state_key is not None:
                    key = state_key(run)
                    if key in visited:
                        cur["pruned"] = True      # this state has been (or is being) expanded already
                        return None
                    visited.add(key)
                acc = dict((t, access(run, t)) for t in en) if access is not None else {}
                opts, forced = _options(en, acc, cur["sleep"], cur["last"], cur["preempt"], preemption_bound)
                if not opts:
                    cur["pruned"] = True          # every enabled thread is asleep: an equivalent execution exists
                    return None
                frame = dict(en=list(en), opts=opts, idx=0, sleep=cur["sleep"], acc=acc, forced=forced)
                stack.append(frame)
            tid = frame["opts"][frame["idx"]]
            if len(frame["opts"]) > 1:
                cur["choice_points"] += 1
            if access is not None and state_key is None:
                asleep = set(frame["sleep"]) | set(frame["opts"][:frame["idx"]])
                a = frame["acc"].get(tid)
                cur["sleep"] = frozenset(u for u in asleep if u != tid and u in frame["acc"]
                                         and independent(frame["acc"][u], a))
            if not frame["forced"]:
                if cur["last"] is not None and tid != cur["last"] and cur["last"] in en:
                    cur["preempt"] += 1
                cur["last"] = tid
            cur["depth"] = depth + 1
            return tid

        try:
            res = sched.run(choose, max_steps)
        except BaseException:
            sched.close()
            raise
        res.pruned = cur["pruned"]
        res.choice_points = cur["choice_points"]
        res.preemptions = cur["preempt"]
        del stack[cur["depth"]:]
        yield run, res
        runs += 1
        if max_runs is not None and runs >= max_runs:
            return
        while stack and stack[-1]["idx"] + 1 >= len(stack[-1]["opts"]):
            stack.pop()
        if not stack:
            return
        stack[-1]["idx"] += 1


def _options(en, acc, sleep, last, preempt, bound):
    """(ordered options at this point, forced?)"""
    awake = [t for t in en if t not in sleep]
    for tid in ([last] if last in awake else []) + awake:
        if tid in acc and acc[tid] is not None and len(acc[tid]) == 0:
            return [tid], True
    if bound is not None and preempt >= bound and last in en:
        return ([last] if last in awake else []), False
    if last in awake:
        return [last] + [t for t in awake if t != last], False
    return awake, False


# ---------------------------------------------------------------------------------------------- self test
def _selftest():
    import prng
    # two threads hand a token back and forth through a lock and a condition
    s = Scheduler()
    lock = SchedLock(s)
    cond = SchedCondition(s)
    box = []

    def producer():
        for i in range(3):
            with lock:
                box.append(i)
            with cond:
                cond.notify_all()

    def consumer():
        got = 0
        while got < 3:
            with cond:
                if len(box) <= got:
                    cond.wait(1.0)
            with lock:
                got = len(box)

    s.spawn("p", producer)
    s.spawn("c", consumer)
    res = run_random(s, prng.Rng(5))
    assert not res.deadlock and s.all_finished() and not s.errors(), (res.deadlock, s.state)
    s.close()
    # a blocking acquire of a lock held by a thread that never releases it is reported as a deadlock
    s = Scheduler()
    l2 = SchedLock(s)

    def hog():
        l2.acquire()
        l2.acquire()
    s.spawn(0, hog)
    res = run_fixed(s, [])
    assert res.deadlock
    s.close()
    print("sched selftest ok")


if __name__ == "__main__":
    _selftest()
