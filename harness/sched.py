"""Line-level cooperative thread scheduler (DESIGN.md 6.3).

Logical threads are real `threading.Thread`s, but exactly one runs at a time.  A thread *parks*

  * on every `line` event inside a *target* code object (`sys.settrace`), i.e. before each source line of
    the code under test,
  * before a shared action on an instrumented object if it has already performed one since it was last
    resumed (`before_action`: at most one shared action per step, so a line holding two of them can be split),
  * at explicit `yield_point()`s,
  * when it would block (`block_until`: blocking is a scheduler state, never an OS-level wait),

and continues only when the driver grants it one step (`step(tid)`).  A *schedule* is the list of thread ids
the driver granted steps to.  "No thread enabled while some thread is not done" is a deadlock / lost wake-up.
Virtual time: `now`, `block_until(..., deadline=)`, `advance()`.

Provided on top: `SchedLock` (a `threading.Lock` stand-in), `SchedCondition`, and schedule exploration:
`dfs()` (stateless depth-first enumeration with replay of schedule prefixes, optional partial-order
reduction over steps known to be thread-local, optional preemption bound), `run_random()`, `run_fixed()`.

Nothing here knows about rpyc; the property modules build the objects under test and tell the scheduler
which code objects to trace.
"""
import sys
import threading


class SchedAbort(BaseException):
    """raised inside a parked thread when the run is torn down"""


class SchedulerHang(Exception):
    """a thread did not come back to the scheduler (it blocked outside the scheduler's control)"""


class Nondeterminism(Exception):
    """replaying a schedule prefix did not reproduce the recorded choice points"""


class Scheduler:
    def __init__(self, targets=(), step_timeout=30.0):
        self.targets = set(targets)          # code objects whose lines are scheduling points
        self.cv = threading.Condition()
        self.turn = None                     # tid allowed to run; None = the driver's turn
        self.state = {}                      # tid -> ("line", name, lineno) | ("yield", label) | ("blocked", label, pred, deadline) | ("start",) | ("done",) | ("raised", exc)
        self.threads = {}
        self.order = []                      # tids in spawn order
        self.acted = {}                      # tid -> shared actions performed since the thread was last resumed
        self.steps = 0
        self.now = 0.0                       # virtual clock
        self.aborting = False
        self.step_timeout = step_timeout
        self.last_step_actions = 0           # shared actions performed by the step that ran last
        self._local = threading.local()

    # ------------------------------------------------------------------ thread side
    def current(self):
        """tid of the calling scheduled thread, or None when called from an unscheduled thread"""
        return getattr(self._local, "tid", None)

    def _park(self, st):
        tid = self._local.tid
        with self.cv:
            self.state[tid] = st
            self.turn = None
            self.cv.notify_all()
            while self.turn != tid:
                self.cv.wait()
            self.acted[tid] = 0
            if self.aborting:
                raise SchedAbort()

    def yield_point(self, label="yield"):
        """unconditional scheduling point"""
        if self.current() is None or self.aborting:
            return
        self._park(("yield", label))

    def before_action(self, label="action"):
        """call before every shared action of an instrumented object: parks iff this thread has already
        performed a shared action in the current step"""
        tid = self.current()
        if tid is None or self.aborting:
            return
        if self.acted[tid] > 0:
            self._park(("yield", label))
        self.acted[tid] += 1

    def block_until(self, pred, label="blocked", deadline=None):
        """park until the driver resumes this thread; the driver considers it enabled only while `pred()`
        holds or the virtual clock has reached `deadline`.  Returns True iff `pred()` held on resumption."""
        if self.current() is None:
            raise RuntimeError("block_until outside a scheduled thread")
        if self.aborting:
            raise SchedAbort()
        self._park(("blocked", label, pred, deadline))
        return bool(pred())

    def _global_trace(self, frame, event, arg):
        if event == "call" and frame.f_code in self.targets:
            return self._local_trace
        return None

    def _local_trace(self, frame, event, arg):
        if event == "line" and not self.aborting:
            self._park(("line", frame.f_code.co_name, frame.f_lineno))
        return self._local_trace

    def _body(self, tid, fn, args):
        self._local.tid = tid
        final = ("done",)
        try:
            self._park(("start",))
            sys.settrace(self._global_trace)
            try:
                fn(*args)
            finally:
                sys.settrace(None)
        except SchedAbort:
            final = ("done",)
        except BaseException as ex:  # noqa - reported to the driver
            final = ("raised", ex)
        with self.cv:
            self.state[tid] = final
            self.turn = None
            self.cv.notify_all()

    # ------------------------------------------------------------------ driver side
    def spawn(self, tid, fn, *args):
        """create logical thread `tid` running fn(*args); it parks before its first instruction"""
        th = threading.Thread(target=self._body, args=(tid, fn, args), daemon=True)
        self.threads[tid] = th
        self.order.append(tid)
        self.acted[tid] = 0
        with self.cv:
            self.state[tid] = ("new",)
            self.turn = tid
            th.start()
            self._wait_for_driver_turn(tid)

    def _wait_for_driver_turn(self, tid):
        while self.turn is not None:
            if not self.cv.wait(self.step_timeout):
                raise SchedulerHang("thread %r did not return to the scheduler (state %r)" % (tid, self.state.get(tid)))

    def finished(self, tid):
        return self.state[tid][0] in ("done", "raised")

    def all_finished(self):
        return all(self.finished(t) for t in self.order)

    def is_enabled(self, tid):
        st = self.state[tid]
        if st[0] in ("done", "raised", "new"):
            return False
        if st[0] == "blocked":
            return bool(st[2]()) or (st[3] is not None and self.now >= st[3])
        return True

    def enabled(self):
        return [t for t in self.order if self.is_enabled(t)]

    def where(self, tid):
        return self.state[tid]

    def step(self, tid):
        """let thread `tid` run until it parks again, blocks or finishes"""
        if not self.is_enabled(tid):
            raise RuntimeError("thread %r is not enabled (%r)" % (tid, self.state[tid]))
        with self.cv:
            self.turn = tid
            self.cv.notify_all()
            self._wait_for_driver_turn(tid)
        self.steps += 1
        self.last_step_actions = self.acted[tid]

    def advance(self):
        """no thread enabled: move the virtual clock to the earliest deadline of a blocked thread"""
        ds = [self.state[t][3] for t in self.order if self.state[t][0] == "blocked" and self.state[t][3] is not None]
        ds = [d for d in ds if d > self.now]
        if not ds:
            return False
        self.now = min(ds)
        return True

    def errors(self):
        return dict((t, self.state[t][1]) for t in self.order if self.state[t][0] == "raised")

    def close(self):
        """tear the run down: unwind every thread that has not finished"""
        self.aborting = True
        for tid in self.order:
            if not self.finished(tid) and self.state[tid][0] != "new":
                with self.cv:
                    self.turn = tid
                    self.cv.notify_all()
                    try:
                        self._wait_for_driver_turn(tid)
                    except SchedulerHang:
                        self.turn = None
        for th in self.threads.values():
            th.join(1.0)


class SchedLock:
    """stand-in for `threading.Lock` (one bit, no owner, not re-entrant) whose blocking is a scheduler
    state.  `on_event(kind, result)` is called for every operation: kinds `try` (non-blocking acquire, with
    its result), `block` (a blocking acquire was requested), `acquired` (a blocking acquire was granted or
    timed out, with its result), `release`."""

    def __init__(self, sched, on_event=None, name="lock"):
        self.sched = sched
        self.held = False
        self.name = name
        self.on_event = on_event or (lambda kind, result: None)

    def acquire(self, blocking=True, timeout=-1):
        self.sched.before_action(self.name + ".acquire")
        if not blocking:
            ok = not self.held
            if ok:
                self.held = True
            self.on_event("try", ok)
            return ok
        self.on_event("block", None)
        deadline = None if timeout is None or timeout < 0 else self.sched.now + timeout
        while self.held:
            if self.sched.current() is None:
                raise RuntimeError("blocking acquire of a held SchedLock outside a scheduled thread")
            if not self.sched.block_until(lambda: not self.held, self.name, deadline):
                if deadline is not None and self.sched.now >= deadline:
                    self.on_event("acquired", False)
                    return False
        self.held = True
        self.on_event("acquired", True)
        return True

    def release(self):
        self.sched.before_action(self.name + ".release")
        if not self.held:
            self.on_event("release", False)
            raise RuntimeError("release unlocked lock")
        self.held = False
        self.on_event("release", True)

    def locked(self):
        return self.held

    def __enter__(self):
        self.acquire()
        return self

    def __exit__(self, *exc):
        self.release()


class SchedCondition:
    """stand-in for `threading.Condition` over a `SchedLock`; `wait(timeout)` is a scheduler state with a
    virtual deadline"""

    def __init__(self, sched, lock=None, on_event=None, name="cond"):
        self.sched = sched
        self.lock = lock or SchedLock(sched, name=name + ".lock")
        self.waiters = []
        self.name = name
        self.on_event = on_event or (lambda kind, result: None)
        self.acquire = self.lock.acquire
        self.release = self.lock.release

    def __enter__(self):
        self.lock.acquire()
        return self

    def __exit__(self, *exc):
        self.lock.release()

    def wait(self, timeout=None):
        if not self.lock.held:
            raise RuntimeError("cannot wait on un-acquired lock")
        token = [False]
        self.waiters.append(token)
        self.on_event("wait", timeout)
        self.lock.held = False
        deadline = None if timeout is None else self.sched.now + max(timeout, 0)
        self.sched.block_until(lambda: token[0], self.name + ".wait", deadline)
        if token in self.waiters:
            self.waiters.remove(token)
        self.on_event("woken", token[0])
        while self.lock.held:
            self.sched.block_until(lambda: not self.lock.held, self.name + ".reacquire")
        self.lock.held = True
        return token[0]

    def notify(self, n=1):
        if not self.lock.held:
            raise RuntimeError("cannot notify on un-acquired lock")
        self.sched.before_action(self.name + ".notify")
        woken = self.waiters[:n]
        del self.waiters[:n]
        for tok in woken:
            tok[0] = True
        self.on_event("notify", len(woken))

    def notify_all(self):
        self.notify(len(self.waiters))


# ---------------------------------------------------------------------------------------------- exploration
class RunResult:
    """what a driver loop observed: `schedule` (tid per step), `deadlock` (no thread enabled while some thread
    had not finished), `choice_points` (number of steps at which more than one option was explored)"""

    def __init__(self):
        self.schedule = []
        self.deadlock = False
        self.choice_points = 0
        self.preemptions = 0
        self.truncated = False


def _drive(sched, choose, max_steps):
    """generic driver loop; choose(enabled) -> tid"""
    res = RunResult()
    while not sched.all_finished():
        en = sched.enabled()
        if not en:
            if sched.advance():
                continue
            res.deadlock = True
            break
        if len(res.schedule) >= max_steps:
            res.truncated = True
            break
        tid = choose(en)
        sched.step(tid)
        res.schedule.append(tid)
    return res


def run_fixed(sched, schedule, max_steps=100000):
    """follow `schedule` as far as it is feasible (a listed thread that is not enabled is skipped), then
    continue with the first enabled thread"""
    it = iter(list(schedule))

    def choose(en):
        for tid in it:
            if tid in en:
                return tid
        return en[0]
    return _drive(sched, choose, max_steps)


def run_random(sched, rng, stickiness=0, max_steps=100000):
    """uniformly random enabled thread per step; with `stickiness` k the running thread is kept with
    probability k/(k+1) while it stays enabled (long runs of one thread with rare preemptions)"""
    last = [None]

    def choose(en):
        if stickiness and last[0] in en and rng.below(stickiness + 1) != 0:
            return last[0]
        last[0] = en[rng.below(len(en))]
        return last[0]
    return _drive(sched, choose, max_steps)


def dfs(new_run, is_local=None, preemption_bound=None, max_runs=None, max_steps=100000):
    """Enumerate schedules depth-first.  `new_run()` builds a fresh system and returns an object with a
    `.sched` attribute (threads spawned, nothing stepped); it is called once per explored schedule and the
    recorded prefix is replayed on it.  Yields `(run, result)` after each complete execution; the caller
    must `run.sched.close()`.

    is_local(run, tid) -> True if the NEXT step of the parked thread `tid` is known to touch no shared state.
    Such a step commutes with every step of every other thread, so when one exists it alone is explored at
    that point (partial-order reduction; the caller should verify afterwards that the step really performed
    no shared action).  preemption_bound: explore only schedules with at most that many switches away from
    a thread that could have continued.
    """
    stack = []          # frames: [options, index, last_before, preemptions_before, forced]
    runs = 0
    while True:
        run = new_run()
        sched = run.sched
        res = RunResult()
        depth = 0
        last = None
        preempt = 0
        while not sched.all_finished():
            en = sched.enabled()
            if not en:
                if sched.advance():
                    continue
                res.deadlock = True
                break
            if depth >= max_steps:
                res.truncated = True
                break
            if depth < len(stack):
                frame = stack[depth]
                if frame[0] != _options(run, en, is_local, last, preempt, preemption_bound)[0]:
                    sched.close()
                    raise Nondeterminism("choice point %d: recorded %r, now %r" % (depth, frame[0], en))
            else:
                opts, forced = _options(run, en, is_local, last, preempt, preemption_bound)
                frame = [opts, 0, last, preempt, forced]
                stack.append(frame)
            tid = frame[0][frame[1]]
            if len(frame[0]) > 1:
                res.choice_points += 1
            if not frame[4]:
                if last is not None and tid != last and last in en:
                    preempt += 1
                last = tid
            sched.step(tid)
            res.schedule.append(tid)
            depth += 1
        res.preemptions = preempt
        del stack[depth:]
        yield run, res
        runs += 1
        if max_runs is not None and runs >= max_runs:
            return
        while stack and stack[-1][1] + 1 >= len(stack[-1][0]):
            stack.pop()
        if not stack:
            return
        stack[-1][1] += 1


def _options(run, en, is_local, last, preempt, bound):
    """(ordered options at this point, forced?)"""
    if is_local is not None:
        if last in en and is_local(run, last):
            return [last], True
        for tid in en:
            if is_local(run, tid):
                return [tid], True
    if bound is not None and preempt >= bound and last in en:
        return [last], False
    if last in en:
        return [last] + [t for t in en if t != last], False
    return list(en), False


# ---------------------------------------------------------------------------------------------- self test
def _selftest():
    import prng
    # two threads hand a token back and forth through a lock and a condition
    s = Scheduler()
    lock = SchedLock(s)
    cond = SchedCondition(s)
    box = []

    def producer():
        for i in range(3):
            with lock:
                box.append(i)
            with cond:
                cond.notify_all()

    def consumer():
        got = 0
        while got < 3:
            with cond:
                if len(box) <= got:
                    cond.wait(1.0)
            with lock:
                got = len(box)

    s.spawn("p", producer)
    s.spawn("c", consumer)
    res = run_random(s, prng.Rng(5))
    assert not res.deadlock and s.all_finished() and not s.errors(), (res.deadlock, s.state)
    s.close()
    # a blocking acquire of a lock held by a thread that never releases it is reported as a deadlock
    s = Scheduler()
    l2 = SchedLock(s)

    def hog():
        l2.acquire()
        l2.acquire()
    s.spawn(0, hog)
    res = run_fixed(s, [])
    assert res.deadlock
    s.close()
    print("sched selftest ok")


if __name__ == "__main__":
    _selftest()
