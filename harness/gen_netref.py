"""Generated constants of the call / forwarding layers (C01, C02): lean/RpycModel/Gen/Netref.lean.

Read from the LIVE objects of the rpyc tree (gen_consts.py has put it first on sys.path):

* `consts`: every MSG_*, LABEL_*, HANDLE_* number and EXC_STOP_ITERATION;
* `Connection._request_handlers()`: handler id -> `_handle_*` method name, and each handler's arity
  (required / accepted positional parameters after `self`) from its signature;
* `netref.LOCAL_ATTRS`, `netref.DELETED_ATTRS`;
* `DEFAULT_CONFIG`: the attribute switches, the prefix, `safe_attrs` (what the forwarding layer's
  `permitted_ops` theorem is stated over).

AST facts (not data):

* for every method of `BaseNetref`: each `syncreq/asyncreq(self, consts.HANDLE_X, args...)` it contains, with
  the arguments normalised so that renaming a parameter does not change the text
  (`$1`, `$2` = the method's own parameters in order, constants by `repr`, `self.attr` kept);
* for `_make_method`: its four shapes (`__call__`, the slicers, `__array__`, every other name) with the inner
  function's signature shape and the request it issues (unconditional local re-assignments substituted, so
  `kwargs = tuple(kwargs.items())` shows up as `tuple(items($**))`), and the `slicers` table;
* `helpers.buffiter`: the request it issues per round.

Raises gen_consts.Inexpressible when the source no longer has a shape these definitions can express.
"""
import ast
import inspect
import sys
import textwrap

import gen_consts
from gen_consts import lean_str, lean_list

Inexpressible = getattr(sys.modules.get("__main__"), "Inexpressible", None) or gen_consts.Inexpressible

SWITCHES = ["allow_safe_attrs", "allow_exposed_attrs", "allow_public_attrs", "allow_all_attrs",
            "allow_getattr", "allow_setattr", "allow_delattr"]


def camel(name):
    parts = name.lower().split("_")
    return parts[0] + "".join(p.capitalize() for p in parts[1:])


def lean_strs(xs, per_line=6):
    return lean_list([lean_str(x) for x in xs], per_line)


def cps(s):
    return "[" + ", ".join(str(ord(c)) for c in s) + "]"


# ---------------------------------------------------------------------------------------------- AST helpers
def class_ast(cls):
    return ast.parse(textwrap.dedent(inspect.getsource(cls))).body[0]


def func_ast(fn):
    return ast.parse(textwrap.dedent(inspect.getsource(fn))).body[0]


def param_map(fn_node, skip_first=True):
    """parameter name -> placeholder; positional `$k`, `*args` -> `$*`, `**kw` -> `$**`"""
    a = fn_node.args
    names = [x.arg for x in a.posonlyargs + a.args]
    out = {}
    if skip_first and names:
        out[names[0]] = "self"
        names = names[1:]
    for k, n in enumerate(names, 1):
        out[n] = "$%d" % k
    if a.vararg:
        out[a.vararg.arg] = "$*"
    if a.kwarg:
        out[a.kwarg.arg] = "$**"
    return out


def sig_shape(fn_node):
    a = fn_node.args
    n = len(a.posonlyargs + a.args) - 1
    return "(%s%s%s)" % (",".join("$%d" % k for k in range(1, n + 1)),
                         (",*" if n else "*") if a.vararg else "", (",**" if (n or a.vararg) else "**") if a.kwarg else "")


def norm(e, env):
    """argument expression -> text that does not depend on parameter / local names"""
    if isinstance(e, ast.Name):
        return env.get(e.id, "?" + e.id)
    if isinstance(e, ast.Constant):
        return repr(e.value)
    if isinstance(e, ast.Attribute):
        base = norm(e.value, env)
        return "%s.%s" % (base, e.attr)
    if isinstance(e, ast.Subscript):
        return "%s[%s]" % (norm(e.value, env), norm(e.slice, env))
    if isinstance(e, ast.Call) and not e.keywords:
        f = e.func
        if isinstance(f, ast.Name):
            return "%s(%s)" % (f.id, ",".join(norm(x, env) for x in e.args))
        if isinstance(f, ast.Attribute) and not e.args:
            return "%s(%s)" % (f.attr, norm(f.value, env))
    if isinstance(e, ast.UnaryOp) and isinstance(e.op, ast.USub) and isinstance(e.operand, ast.Constant):
        return repr(-e.operand.value)
    return "?" + ast.unparse(e)


def handler_name(e, local_nodes=None):
    """`consts.HANDLE_X`, bare `HANDLE_X`, or a local name unconditionally bound to one of those -> 'HANDLE_X'"""
    if isinstance(e, ast.Attribute) and isinstance(e.value, ast.Name) and e.value.id == "consts":
        return e.attr
    if isinstance(e, ast.Name) and e.id.startswith("HANDLE_"):
        return e.id
    if isinstance(e, ast.Name) and local_nodes and e.id in local_nodes:
        return handler_name(local_nodes[e.id], None)
    return None


def requests_in(fn_node, env):
    """every syncreq/asyncreq call in the function, in source order: (kind, target, HANDLE, [args])"""
    env = dict(env)
    out = []
    local_nodes = {}

    class V(ast.NodeVisitor):
        def visit_FunctionDef(self, node):  # do not descend into nested functions
            if node is fn_node:
                for s in node.body:
                    self.visit(s)

        def visit_Assign(self, node):
            self.generic_visit(node)

        def visit_Call(self, node):
            f = node.func
            if isinstance(f, ast.Name) and f.id in ("syncreq", "asyncreq"):
                if len(node.args) < 2 or node.keywords:
                    raise Inexpressible("%s: %s call with an unexpected shape" % (fn_node.name, f.id))
                h = handler_name(node.args[1], local_nodes)
                if h is None:
                    raise Inexpressible("%s: handler of a %s call is not a HANDLE_* constant: %s"
                                        % (fn_node.name, f.id, ast.unparse(node.args[1])))
                out.append((f.id, norm(node.args[0], env), h, [norm(a, env) for a in node.args[2:]]))
            self.generic_visit(node)

    # unconditional top-level re-assignments `x = expr` are substituted (kwargs = tuple(kwargs.items()))
    for s in fn_node.body:
        if isinstance(s, ast.Assign) and len(s.targets) == 1 and isinstance(s.targets[0], ast.Name):
            local_nodes[s.targets[0].id] = s.value
            env[s.targets[0].id] = norm(s.value, env)
    V().visit(fn_node)
    return out


def fmt_req(key, kind, target, h, args):
    return "(%s, %s, %s, %s, %s)" % (lean_str(key), lean_str(kind), lean_str(target), lean_str(h), lean_strs(args, 8))


# ---------------------------------------------------------------------------------------------- sections
def gen_netref():
    from rpyc.core import consts, netref, protocol
    from rpyc.utils import helpers

    L = ["namespace Rpyc.Gen.Netref", ""]
    # -- consts
    groups = {}
    for k, v in sorted(vars(consts).items()):
        for p in ("MSG_", "LABEL_", "HANDLE_", "EXC_"):
            if k.startswith(p):
                if type(v) is not int or v < 0:
                    raise Inexpressible("consts.%s is not a non-negative int: %r" % (k, v))
                groups.setdefault(p, []).append((k, v))
    for p in ("MSG_", "LABEL_", "EXC_", "HANDLE_"):
        if not groups.get(p):
            raise Inexpressible("consts defines no %s* names" % p)
        L.append("/-! ### consts.%s* -/" % p)
        for k, v in sorted(groups[p], key=lambda kv: kv[1]):
            L.append("def %s : Nat := %d" % (camel(k), v))
        L.append("")
    for need in ("MSG_REQUEST", "MSG_REPLY", "MSG_EXCEPTION", "LABEL_VALUE", "LABEL_TUPLE", "LABEL_LOCAL_REF",
                 "LABEL_REMOTE_REF", "EXC_STOP_ITERATION", "HANDLE_CALL", "HANDLE_CALLATTR", "HANDLE_GETATTR",
                 "HANDLE_SETATTR", "HANDLE_DELATTR", "HANDLE_REPR", "HANDLE_STR", "HANDLE_CMP", "HANDLE_HASH",
                 "HANDLE_DIR", "HANDLE_PICKLE", "HANDLE_DEL", "HANDLE_INSPECT", "HANDLE_BUFFITER",
                 "HANDLE_OLDSLICING", "HANDLE_CTXEXIT", "HANDLE_INSTANCECHECK"):
        if not hasattr(consts, need):
            raise Inexpressible("consts.%s is gone" % need)
    L.append("/-- every HANDLE_* name with its number -/")
    L.append("def handleIds : List (String × Nat) := " + lean_list(
        ["(%s, %d)" % (lean_str(k), v) for k, v in sorted(groups["HANDLE_"], key=lambda kv: kv[1])], 4))
    L.append("")

    # -- handler table and arities
    table = protocol.Connection._request_handlers()
    rows, arity = [], []
    for hid, fn in sorted(table.items()):
        if type(hid) is not int:
            raise Inexpressible("handler key %r is not an int" % (hid,))
        f = getattr(fn, "__func__", fn)
        rows.append("(%d, %s)" % (hid, lean_str(f.__name__)))
        sig = inspect.signature(f)
        ps = list(sig.parameters.values())[1:]
        if any(p.kind not in (p.POSITIONAL_OR_KEYWORD, p.POSITIONAL_ONLY) for p in ps):
            raise Inexpressible("%s takes *args/**kwargs/keyword-only parameters" % f.__name__)
        req = len([p for p in ps if p.default is p.empty])
        defaults = [p.default for p in ps if p.default is not p.empty]
        for d in defaults:
            if d != () and d != 1 and d != "__cmp__":
                raise Inexpressible("%s has a default the model does not know: %r" % (f.__name__, d))
        arity.append("(%d, %d, %d)" % (hid, req, len(ps)))
    L += ["/-- `Connection._request_handlers()`: id -> method name -/",
          "def handlerTable : List (Nat × String) := " + lean_list(rows, 4),
          "/-- (id, required, accepted) positional parameters of each handler after `self` -/",
          "def handlerArity : List (Nat × Nat × Nat) := " + lean_list(arity, 6), ""]

    # -- netref attribute sets
    for nm in ("LOCAL_ATTRS", "DELETED_ATTRS"):
        v = getattr(netref, nm, None)
        if not isinstance(v, frozenset) or not all(type(x) is str for x in v):
            raise Inexpressible("netref.%s is not a frozenset of str" % nm)
    L += ["def localAttrs : List String := " + lean_strs(sorted(netref.LOCAL_ATTRS)),
          "def deletedAttrs : List String := " + lean_strs(sorted(netref.DELETED_ATTRS)), ""]

    # -- BaseNetref's own methods: which request each issues
    cnode = class_ast(netref.BaseNetref)
    reqs, methods = [], []
    for node in cnode.body:
        if isinstance(node, ast.FunctionDef):
            methods.append(node.name)
            for kind, target, h, args in requests_in(node, param_map(node)):
                reqs.append(fmt_req(node.name, kind, target, h, args))
    L += ["/-- methods `BaseNetref` defines itself (everything else is made by `_make_method`) -/",
          "def baseMethods : List String := " + lean_strs(methods),
          "/-- (method, syncreq|asyncreq, proxy expression, HANDLE_*, normalised arguments) for every request a",
          "`BaseNetref` method issues, in source order (`$k` = k-th parameter after self) -/",
          "def baseRequests : List (String × String × String × String × List String) := " + lean_list(reqs, 1), ""]

    # -- _make_method: the four shapes
    mm = func_ast(netref._make_method)
    slicers = None
    for s in mm.body:
        if isinstance(s, ast.Assign) and isinstance(s.targets[0], ast.Name) and s.targets[0].id == "slicers":
            try:
                slicers = ast.literal_eval(s.value)
            except Exception:  # noqa
                raise Inexpressible("_make_method: `slicers` is not a literal dict")
    if not isinstance(slicers, dict):
        raise Inexpressible("_make_method: no `slicers` table")
    chain = [s for s in mm.body if isinstance(s, ast.If)]
    if len(chain) != 1:
        raise Inexpressible("_make_method: expected one if/elif chain, found %d" % len(chain))
    shapes = []
    node = chain[0]
    outer_env = {"name": "$name", "slicers": "slicers"}

    def shape_key(test):
        if isinstance(test, ast.Compare) and len(test.ops) == 1 and isinstance(test.left, ast.Name) and test.left.id == "name":
            c = test.comparators[0]
            if isinstance(test.ops[0], ast.Eq) and isinstance(c, ast.Constant) and type(c.value) is str:
                return c.value
            if isinstance(test.ops[0], ast.In) and isinstance(c, ast.Name) and c.id == "slicers":
                return "<slicers>"
        raise Inexpressible("_make_method: branch test not understood: %s" % ast.unparse(test))

    def one_shape(key, body):
        fns = [s for s in body if isinstance(s, ast.FunctionDef)]
        if len(fns) != 1:
            raise Inexpressible("_make_method[%s]: expected one inner function" % key)
        fn = fns[0]
        env = dict(outer_env)
        env.update(param_map(fn))
        rs = requests_in(fn, env)
        if len(rs) != 1:
            raise Inexpressible("_make_method[%s]: expected exactly one request, found %d" % (key, len(rs)))
        kind, target, h, args = rs[0]
        shapes.append("(%s, %s, %s, %s, %s, %s)" % (lean_str(key), lean_str(sig_shape(fn)), lean_str(kind),
                                                    lean_str(target), lean_str(h), lean_strs(args, 8)))

    while True:
        one_shape(shape_key(node.test), node.body)
        if len(node.orelse) == 1 and isinstance(node.orelse[0], ast.If):
            node = node.orelse[0]
            continue
        one_shape("<other>", node.orelse)
        break
    L += ["/-- `_make_method`: (branch, inner signature, syncreq|asyncreq, proxy expression, HANDLE_*, normalised",
          "arguments); `$name` is the method's name, `$*`/`$**` the inner function's *args/**kwargs -/",
          "def makeMethodShapes : List (String × String × String × String × String × List String) := " + lean_list(shapes, 1),
          "def slicers : List (String × String) := " + lean_list(
              ["(%s, %s)" % (lean_str(k), lean_str(v)) for k, v in sorted(slicers.items())], 3), ""]

    # -- helpers.buffiter
    bf = func_ast(helpers.buffiter)
    env = param_map(bf, skip_first=False)
    # locals: `it = iter(obj)`, `count = chunk` are substituted by requests_in's top-level pass
    rs = requests_in(bf, env)
    if len(rs) != 1:
        raise Inexpressible("helpers.buffiter: expected exactly one request, found %d" % len(rs))
    kind, target, h, args = rs[0]
    L += ["/-- the request `helpers.buffiter` issues per round -/",
          "def buffiterRequest : String × String × String × List String := (%s, %s, %s, %s)"
          % (lean_str(kind), lean_str(target), lean_str(h), lean_strs(args, 8)), ""]

    # -- DEFAULT_CONFIG (what permitted_ops is stated over)
    cfg = protocol.DEFAULT_CONFIG
    for k in SWITCHES:
        if type(cfg.get(k)) is not bool:
            raise Inexpressible("DEFAULT_CONFIG[%r] is not a bool" % k)
        L.append("def default%s : Bool := %s" % (camel("x_" + k)[1:], "true" if cfg[k] else "false"))
    if type(cfg.get("exposed_prefix")) is not str:
        raise Inexpressible("DEFAULT_CONFIG['exposed_prefix'] is not a str")
    sa = cfg.get("safe_attrs")
    if not isinstance(sa, (set, frozenset)) or not all(type(x) is str for x in sa):
        raise Inexpressible("DEFAULT_CONFIG['safe_attrs'] is not a set of str")
    L += ["def defaultExposedPrefix : String := " + lean_str(cfg["exposed_prefix"]),
          "def safeAttrs : List String := " + lean_strs(sorted(sa)), ""]
    L += ["end Rpyc.Gen.Netref", ""]
    return "\n".join(L)


SECTIONS = [("Netref.lean", gen_netref)]
