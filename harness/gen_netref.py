"""Generated constants of the call / forwarding layers (C01, C02): lean/RpycModel/Gen/Netref.lean.

Read from the LIVE objects of the rpyc tree (gen_consts.py has put it first on sys.path):

* `consts`: every MSG_*, LABEL_*, HANDLE_* number and EXC_STOP_ITERATION;
* `Connection._request_handlers()`: handler id -> `_handle_*` method name, and each handler's arity
  (required / accepted positional parameters after `self`) from its signature;
* `netref.LOCAL_ATTRS`, `netref.DELETED_ATTRS`;
* `DEFAULT_CONFIG`: the attribute switches, the prefix, `safe_attrs`.

Facts that are not data are OBSERVED, not parsed: the real methods are run against a recording stand-in for the
connection and what they ask it to send is read off.  No source text is looked at, so renaming locals or parameters,
hoisting a table to a module constant, extracting helpers, comments and docstrings cannot change the result, while a
different handler, argument or argument order does.

* every function of `BaseNetref`'s own class body is called on a real `BaseNetref` instance (with a recording
  connection) with sentinel arguments; recorded: sync or async request, which proxy, which HANDLE_*, and each argument
  as a pattern (`$k` = the k-th argument of the call, constants by `repr`, `self.____refcount__`, `$1.____id_pack__`);
* `_make_method(name, doc)` is called for `__call__`, the three slicer names, `__array__` and an ordinary name; each
  made function is called with sentinel positional and keyword arguments (`$*` = the tuple of the extra positional
  arguments, `tuple(items($**))` = `tuple(kwargs.items())`, `$name` = the method's name); the slicer table is what
  the slicer methods send as the method to try first;
* `helpers.buffiter` is run one round against a recording iterator proxy.

Raises gen_consts.Inexpressible when the observation no longer has a shape these definitions can express.
"""
import inspect
import sys

import gen_consts
from gen_consts import lean_str, lean_list

Inexpressible = getattr(sys.modules.get("__main__"), "Inexpressible", None) or gen_consts.Inexpressible

SWITCHES = ["allow_safe_attrs", "allow_exposed_attrs", "allow_public_attrs", "allow_all_attrs",
            "allow_getattr", "allow_setattr", "allow_delattr"]
SLICER_NAMES = ["__delslice__", "__getslice__", "__setslice__"]


def camel(name):
    parts = name.lower().split("_")
    return parts[0] + "".join(p.capitalize() for p in parts[1:])


def lean_strs(xs, per_line=6):
    return lean_list([lean_str(x) for x in xs], per_line)


# ---------------------------------------------------------------------------------------------- recording stand-ins
class Sentinel(object):
    """an argument handed to a method under observation"""
    def __init__(self, tag):
        self.tag = tag

    def __repr__(self):
        return self.tag


class Recorder(object):
    """stands in for a Connection: records what netref asks it to send"""
    def __init__(self):
        self.calls = []

    def sync_request(self, handler, *args):
        self.calls.append(("syncreq", handler, args))
        return ()

    def async_request(self, handler, *args, **kwargs):
        self.calls.append(("asyncreq", handler, args))
        return None


class RefusingRecorder(Recorder):
    """a connection on which every synchronous request fails the way a missing attribute does: whatever the netref does
    AFTER that failure (a retry, a second kind of request) is recorded as well"""
    def sync_request(self, handler, *args):
        self.calls.append(("syncreq", handler, args))
        raise AttributeError("observed: no such attribute")


def observe_failing_read(netref, consts):
    """`getattr(proxy, name)` - through the interpreter, not by calling `__getattribute__` directly, so that Python's own
    fallback to a `__getattr__` would run - for a name the remote side does not have: every request it costs"""
    names = handler_names(consts)
    rows = []
    for cls in (netref.BaseNetref, netref.class_factory(("observed_nowhere.Class", 1002, 7008), [("observed_method", "doc")])):
        rec = RefusingRecorder()
        proxy = cls(rec, ("observed.Class", 1001, 8008))
        rec.calls[:] = []
        try:
            getattr(proxy, "observed_remote_attribute")
            raised = False
        except AttributeError:
            raised = True
        calls = list(rec.calls)
        object.__setattr__(proxy, "____conn__", Recorder())
        if not raised:
            raise Inexpressible("a failing attribute read on a proxy does not raise AttributeError")
        row = []
        for kind, handler, args in calls:
            if handler not in names:
                raise Inexpressible("a failing attribute read issues an unknown handler %r" % (handler,))
            row.append("%s %s %s" % (kind, names[handler], " ".join("$1" if a == "observed_remote_attribute" else "self" if a is proxy else "?" for a in args)))
        rows.append(row)
    if rows[0] != rows[1]:
        raise Inexpressible("a failing attribute read differs between a bare netref and a made class: %r" % (rows,))
    return rows[0]


def handler_names(consts):
    return dict((v, k) for k, v in vars(consts).items() if k.startswith("HANDLE_") and type(v) is int)


def pattern(value, positional, star, kwargs, method_name, proxy, refcount, others):
    """one request argument as a pattern over the arguments of the observed call"""
    for k, s in enumerate(positional, 1):
        if value is s:
            return "$%d" % k
    if value is proxy:
        return "self"
    if star is not None and type(value) is tuple and len(value) == len(star) and all(a is b for a, b in zip(value, star)):
        return "$*"
    if kwargs is not None and type(value) is tuple and value == tuple(kwargs.items()) and kwargs:
        return "tuple(items($**))"
    if method_name is not None and type(value) is str and value == method_name:
        return "$name"
    if refcount is not None and type(value) is int and value == refcount:
        return "self.____refcount__"
    for k, idp in others.items():
        if value is idp or (type(value) is tuple and value == idp):
            return "$%d.____id_pack__" % k
    if value is None or type(value) in (int, str, bytes, bool, float):
        return repr(value)
    return "?" + type(value).__name__


def own_params(fn):
    """the parameters of a netref method after the proxy itself: a leading named parameter is the proxy; a made method
    declared `(*args, **kwargs)` takes the proxy out of *args, so all of its parameters are its own"""
    ps = list(inspect.signature(fn).parameters.values())
    if ps and ps[0].kind in (ps[0].POSITIONAL_ONLY, ps[0].POSITIONAL_OR_KEYWORD):
        ps = ps[1:]
    return ps


def leading_named(fn):
    """the leading named parameter of a netref method (it receives the proxy), or None"""
    ps = list(inspect.signature(fn).parameters.values())
    if ps and ps[0].kind in (ps[0].POSITIONAL_ONLY, ps[0].POSITIONAL_OR_KEYWORD):
        return ps[0]
    return None


def sig_shape(fn):
    """the made function's signature; `self` stands for a leading NAMED parameter (whatever it is called) that receives
    the proxy - together with `**` that name is one no keyword argument of the target can use"""
    out, n = [], 0
    if leading_named(fn) is not None:
        out.append("self")
    for p in own_params(fn):
        if p.kind in (p.POSITIONAL_ONLY, p.POSITIONAL_OR_KEYWORD):
            n += 1
            out.append("$%d" % n)
        elif p.kind == p.VAR_POSITIONAL:
            out.append("*")
        elif p.kind == p.VAR_KEYWORD:
            out.append("**")
        else:
            raise Inexpressible("a netref method takes keyword-only parameters")
    return "(" + ",".join(out) + ")"


def fmt_req(key, kind, target, h, args):
    return "(%s, %s, %s, %s, %s)" % (lean_str(key), lean_str(kind), lean_str(target), lean_str(h), lean_strs(args, 8))


def observe_base_methods(netref, consts):
    """every function of BaseNetref's class body, run on a real instance against the recorder"""
    names = handler_names(consts)
    methods, reqs = [], []
    for mname, fn in vars(netref.BaseNetref).items():
        if not inspect.isfunction(fn):
            continue
        methods.append(mname)
        if mname == "__init__":
            continue
        rec = Recorder()
        # a proxy of a CLASS (instance part of the id pack 0), so that `__instancecheck__` takes its remote branch
        proxy = netref.BaseNetref(rec, ("observed.Class", 1001, 0))
        ps = list(inspect.signature(fn).parameters.values())[1:]
        if any(p.kind not in (p.POSITIONAL_ONLY, p.POSITIONAL_OR_KEYWORD) for p in ps):
            raise Inexpressible("BaseNetref.%s takes *args / **kwargs" % mname)
        positional, others = [], {}
        for k, p in enumerate(ps, 1):
            if mname == "__instancecheck__":
                other = netref.BaseNetref(Recorder(), ("observed.Other", 2002, 3003))
                others[k] = object.__getattribute__(other, "____id_pack__")
                positional.append(other)
            elif mname in ("__getattribute__", "__getattr__", "__delattr__", "__setattr__") and k == 1:
                positional.append("observed_remote_attribute")      # a name the netref does not keep to itself
            else:
                positional.append(Sentinel("$%d" % k))
        object.__setattr__(proxy, "____refcount__", 4242)
        rec.calls[:] = []
        try:
            fn(proxy, *positional)
        except Exception:  # noqa  (e.g. pickle.loads of the recorder's answer): the request has been recorded
            pass
        for kind, handler, args in rec.calls:
            if handler not in names:
                raise Inexpressible("BaseNetref.%s issues an unknown handler %r" % (mname, handler))
            target = "self" if args and args[0] is proxy else "?"
            pats = [pattern(a, positional, None, None, None, proxy, 4242, others) for a in args[1:]]
            reqs.append(fmt_req(mname, kind, target, names[handler], pats))
        # the proxy must not send HANDLE_DEL into the next observation
        object.__setattr__(proxy, "____conn__", Recorder())
    return methods, reqs


def observe_made_method(netref, consts, name):
    """`_make_method(name, doc)`, the made function run against the recorder"""
    names = handler_names(consts)
    fn = netref._make_method(name, "doc")
    rec = Recorder()
    proxy = netref.BaseNetref(rec, ("observed.Class", 1001, 5005))
    ps = own_params(fn)
    positional = [Sentinel("$%d" % k) for k, p in enumerate(ps, 1) if p.kind in (p.POSITIONAL_ONLY, p.POSITIONAL_OR_KEYWORD)]
    has_star = any(p.kind == p.VAR_POSITIONAL for p in ps)
    has_kw = any(p.kind == p.VAR_KEYWORD for p in ps)
    star = (Sentinel("*1"), Sentinel("*2")) if has_star else None
    kwargs = {"kw_a": Sentinel("**a"), "kw_b": Sentinel("**b")} if has_kw else None
    rec.calls[:] = []
    try:
        fn(proxy, *(positional + list(star or ())), **(kwargs or {}))
    except Exception:  # noqa
        pass
    calls = list(rec.calls)
    object.__setattr__(proxy, "____conn__", Recorder())
    if len(calls) != 1:
        raise Inexpressible("_make_method(%r): the made method issues %d requests" % (name, len(calls)))
    kind, handler, args = calls[0]
    if handler not in names:
        raise Inexpressible("_make_method(%r): unknown handler %r" % (name, handler))
    target = "self" if args and args[0] is proxy else "?"
    raw = list(args[1:])
    pats = [pattern(a, positional, star, kwargs, name, proxy, None, {}) for a in raw]
    return sig_shape(fn), kind, target, names[handler], pats, raw


KEYWORD_CANDIDATES = ["self", "_self", "args", "kwargs", "name", "cls", "proxy", "handler", "doc", "obj", "key", "x"]


def signature_names(fn):
    """every parameter name of a function's signature, through any `functools.wraps` chain"""
    names, seen = [], set()
    while fn is not None and id(fn) not in seen:
        seen.add(id(fn))
        try:
            names += [p.name for p in inspect.signature(fn, follow_wrapped=False).parameters.values()]
        except (TypeError, ValueError):
            pass
        code = getattr(fn, "__code__", None)
        if code is not None:
            # (also the names a wrapper declares that `inspect.signature` would hide)
            names += list(code.co_varnames[:code.co_argcount + code.co_kwonlyargcount])
        fn = getattr(fn, "__wrapped__", None)
    return [n for k, n in enumerate(names) if n not in names[:k]]


def made_method_keyword_candidates(netref):
    """the keyword names a made method could keep to itself: a keyword argument is captured by the function exactly when
    it names one of its parameters, so the parameter names of the made functions ARE the complete candidate list (the
    fixed names are kept as well)"""
    out = list(KEYWORD_CANDIDATES)
    for made in ("__call__", "observed_method_name"):
        for n in signature_names(netref._make_method(made, "doc")):
            if n not in out:
                out.append(n)
    return out


def observe_reserved_keywords(netref, consts):
    """keyword names a made method that forwards **kwargs refuses for itself (it raises before asking the connection
    for anything): the target might accept that very keyword, so every such name is a call the proxy cannot forward"""
    reserved = []
    candidates = made_method_keyword_candidates(netref)
    for made in ("__call__", "observed_method_name"):
        fn = netref._make_method(made, "doc")
        if not any(p.kind == p.VAR_KEYWORD for p in own_params(fn)):
            continue
        for kw in candidates:
            rec = Recorder()
            proxy = netref.BaseNetref(rec, ("observed.Class", 1001, 6006))
            rec.calls[:] = []
            try:
                fn(proxy, **{kw: Sentinel("kw")})
                refused = False
            except TypeError:
                refused = not rec.calls
            except Exception:  # noqa
                refused = False
            sent = [c for c in rec.calls]
            object.__setattr__(proxy, "____conn__", Recorder())
            carried = any(type(a) is tuple and any(type(item) is tuple and len(item) == 2 and item[0] == kw for item in a)
                          for c in sent for a in c[2][1:])
            if refused or not carried:
                reserved.append("%s(%s=...)" % ("proxy" if made == "__call__" else "proxy.method", kw))
    return reserved


def observe_local_attrs(netref, consts):
    """what reading / writing / deleting each name of LOCAL_ATTRS on a proxy does, observed on three real proxies against the
    recorder: a bare BaseNetref, an instance of a `class_factory` class of an importable class and one of a class that
    cannot be imported here.

    get: `local` (answered by the netref object, nothing sent), `raises` (AttributeError, nothing sent), `remote`
    (HANDLE_GETATTR of that name even when the netref's class holds the name), `local-then-remote` (HANDLE_GETATTR of that
    name because the netref object does not hold it; a subclass that holds it answers itself), `local-unless-class-unknown`
    (sent only by the proxy of the class that cannot be imported: the `__class__` descriptor);
    set / del: `local` (nothing sent, whatever `object.__setattr__/__delattr__` says) or `remote`"""
    getattr_id = consts.HANDLE_GETATTR
    classes = [("base", netref.BaseNetref),
               ("importable", netref.class_factory(("collections.OrderedDict", 1001, 7007), [("observed_method", "doc")])),
               ("unknown", netref.class_factory(("observed_nowhere.Class", 1002, 7008), [("observed_method", "doc")]))]

    def run(cls, what, name):
        rec = Recorder()
        proxy = cls(rec, ("observed.Class", 1001, 7007))
        rec.calls[:] = []
        try:
            if what == "get":
                getattr(proxy, name)
            elif what == "set":
                setattr(proxy, name, Sentinel("v"))
            else:
                delattr(proxy, name)
            res = "ok"
        except AttributeError:
            res = "AttributeError"
        except Exception as ex:  # noqa
            res = type(ex).__name__
        calls = list(rec.calls)
        try:
            object.__setattr__(proxy, "____conn__", Recorder())
        except Exception:  # noqa
            pass
        for kind, handler, args in calls:
            if kind != "syncreq" or handler != {"get": getattr_id, "set": consts.HANDLE_SETATTR, "del": consts.HANDLE_DELATTR}[what] \
                    or not args or args[0] is not proxy or args[1] != name:
                raise Inexpressible("%s of the local name %r on a proxy sends %r" % (what, name, (kind, handler, args[1:])))
        if len(calls) > 1:
            raise Inexpressible("%s of the local name %r on a proxy sends %d requests" % (what, name, len(calls)))
        return res, bool(calls)

    rows = []
    for name in sorted(netref.LOCAL_ATTRS):
        got = dict((tag, run(cls, "get", name)) for tag, cls in classes)
        sent = dict((tag, g[1]) for tag, g in got.items())
        if not any(sent.values()):
            if len(set(g[0] for g in got.values())) != 1:
                raise Inexpressible("reading the local name %r differs between proxies: %r" % (name, got))
            get = "raises" if got["base"][0] == "AttributeError" else "local" if got["base"][0] == "ok" else None
            if get is None:
                raise Inexpressible("reading the local name %r raises %s" % (name, got["base"][0]))
        elif all(sent.values()):
            try:
                held = type("Held", (classes[1][1],), {"__slots__": (), name: 123})
                still = run(held, "get", name)[1]
            except Exception:  # noqa  (a class that cannot hold the name)
                still = True
            get = "remote" if still else "local-then-remote"
        elif sent == dict(base=False, importable=False, unknown=True):
            get = "local-unless-class-unknown"
        else:
            raise Inexpressible("reading the local name %r is forwarded by some proxies only: %r" % (name, sent))
        cols = [get]
        for what in ("set", "del"):
            if name in ("____conn__", "____id_pack__"):
                # (writing these would take the observed proxy apart: observed on the bare instance only)
                outs = [run(netref.BaseNetref, what, name)]
            else:
                outs = [run(cls, what, name) for tag, cls in classes]
            if len(set(o[1] for o in outs)) != 1:
                raise Inexpressible("%s of the local name %r is forwarded by some proxies only" % (what, name))
            cols.append("remote" if outs[0][1] else "local")
        rows.append("(%s, %s, %s, %s)" % (lean_str(name), lean_str(cols[0]), lean_str(cols[1]), lean_str(cols[2])))
    return rows


class NullChannel(object):
    def send(self, data):
        pass

    def close(self):
        pass

    def fileno(self):
        return -1


def observe_classic_config(protocol, service):
    """rpyc's classic mode, read off a connection established through the live `SlaveService` (whether it applies its
    settings in `on_connect` or before the Connection is built): the seven attribute switches and `allow_pickle` as the
    connection ends up with them when the caller passes no configuration; prefix and safe list must be the defaults"""
    conn = service.SlaveService._connect(NullChannel(), {})
    try:
        cfg = dict(conn._config)
    finally:
        try:
            conn.close()
        except Exception:  # noqa
            pass
    for k in SWITCHES + ["allow_pickle"]:
        if type(cfg.get(k)) is not bool:
            raise Inexpressible("classic mode leaves %r non-Boolean" % k)
    if cfg.get("exposed_prefix") != protocol.DEFAULT_CONFIG["exposed_prefix"] or cfg.get("safe_attrs") != protocol.DEFAULT_CONFIG["safe_attrs"]:
        raise Inexpressible("classic mode changes exposed_prefix / safe_attrs")
    return cfg


def observe_buffiter(helpers, consts):
    names = handler_names(consts)
    rec = Recorder()

    class IterProxy(object):
        def __iter__(self):
            return self

        def __next__(self):
            raise StopIteration
    it = IterProxy()
    setattr(it, "____conn__", rec)

    class Iterable(object):
        def __iter__(self):
            return it
    obj = Iterable()
    params = [obj, 7, 1000, 2]
    try:
        for _ in helpers.buffiter(*params):
            pass
    except Exception:  # noqa
        pass
    if len(rec.calls) != 1:
        raise Inexpressible("helpers.buffiter: %d requests in its first round" % len(rec.calls))
    kind, handler, args = rec.calls[0]
    if handler not in names:
        raise Inexpressible("helpers.buffiter: unknown handler %r" % (handler,))
    target = "iter($1)" if args and args[0] is it else "?"
    pats = []
    for a in args[1:]:
        hits = [k for k, p in enumerate(params, 1) if type(p) is int and a == p]
        pats.append("$%d" % hits[0] if hits else "?" + repr(a))
    return kind, target, names[handler], pats


# ---------------------------------------------------------------------------------------------- sections
def gen_netref():
    from rpyc.core import consts, netref, protocol
    from rpyc.utils import helpers

    L = ["namespace Rpyc.Gen.Netref", ""]
    # -- consts
    groups = {}
    for k, v in sorted(vars(consts).items()):
        for p in ("MSG_", "LABEL_", "HANDLE_", "EXC_"):
            if k.startswith(p):
                if type(v) is not int or v < 0:
                    raise Inexpressible("consts.%s is not a non-negative int: %r" % (k, v))
                groups.setdefault(p, []).append((k, v))
    for p in ("MSG_", "LABEL_", "EXC_", "HANDLE_"):
        if not groups.get(p):
            raise Inexpressible("consts defines no %s* names" % p)
        L.append("/-! ### consts.%s* -/" % p)
        for k, v in sorted(groups[p], key=lambda kv: kv[1]):
            L.append("def %s : Nat := %d" % (camel(k), v))
        L.append("")
    for need in ("MSG_REQUEST", "MSG_REPLY", "MSG_EXCEPTION", "LABEL_VALUE", "LABEL_TUPLE", "LABEL_LOCAL_REF",
                 "LABEL_REMOTE_REF", "EXC_STOP_ITERATION", "HANDLE_CALL", "HANDLE_CALLATTR", "HANDLE_GETATTR",
                 "HANDLE_SETATTR", "HANDLE_DELATTR", "HANDLE_REPR", "HANDLE_STR", "HANDLE_CMP", "HANDLE_HASH",
                 "HANDLE_DIR", "HANDLE_PICKLE", "HANDLE_DEL", "HANDLE_INSPECT", "HANDLE_BUFFITER",
                 "HANDLE_OLDSLICING", "HANDLE_CTXEXIT", "HANDLE_INSTANCECHECK"):
        if not hasattr(consts, need):
            raise Inexpressible("consts.%s is gone" % need)
    L.append("/-- every HANDLE_* name with its number -/")
    L.append("def handleIds : List (String × Nat) := " + lean_list(
        ["(%s, %d)" % (lean_str(k), v) for k, v in sorted(groups["HANDLE_"], key=lambda kv: kv[1])], 4))
    L.append("")

    # -- handler table and arities
    table = protocol.Connection._request_handlers()
    rows, arity = [], []
    for hid, fn in sorted(table.items()):
        if type(hid) is not int:
            raise Inexpressible("handler key %r is not an int" % (hid,))
        f = getattr(fn, "__func__", fn)
        rows.append("(%d, %s)" % (hid, lean_str(f.__name__)))
        sig = inspect.signature(f)
        ps = list(sig.parameters.values())[1:]
        if any(p.kind not in (p.POSITIONAL_OR_KEYWORD, p.POSITIONAL_ONLY) for p in ps):
            raise Inexpressible("%s takes *args/**kwargs/keyword-only parameters" % f.__name__)
        req = len([p for p in ps if p.default is p.empty])
        defaults = [p.default for p in ps if p.default is not p.empty]
        for d in defaults:
            if d != () and d != 1 and d != "__cmp__":
                raise Inexpressible("%s has a default the model does not know: %r" % (f.__name__, d))
        arity.append("(%d, %d, %d)" % (hid, req, len(ps)))
    L += ["/-- `Connection._request_handlers()`: id -> method name -/",
          "def handlerTable : List (Nat × String) := " + lean_list(rows, 4),
          "/-- (id, required, accepted) positional parameters of each handler after `self` -/",
          "def handlerArity : List (Nat × Nat × Nat) := " + lean_list(arity, 6), ""]

    # -- netref attribute sets
    for nm in ("LOCAL_ATTRS", "DELETED_ATTRS"):
        v = getattr(netref, nm, None)
        if not isinstance(v, frozenset) or not all(type(x) is str for x in v):
            raise Inexpressible("netref.%s is not a frozenset of str" % nm)
    L += ["def localAttrs : List String := " + lean_strs(sorted(netref.LOCAL_ATTRS)),
          "def deletedAttrs : List String := " + lean_strs(sorted(netref.DELETED_ATTRS)), ""]

    L += ["/-- every name of `LOCAL_ATTRS`: what reading / writing / deleting it on a proxy does (observed on a bare netref and on",
          "proxies of an importable and of an unknown class, against a recording connection).  get: `local` | `raises` | `remote`",
          "(HANDLE_GETATTR although the netref's class holds the name) | `local-then-remote` (HANDLE_GETATTR because the netref",
          "object does not hold the name) | `local-unless-class-unknown` (the `__class__` descriptor); set, del: `local` | `remote` -/",
          "def localAttrBehaviour : List (String × String × String × String) := " + lean_list(observe_local_attrs(netref, consts), 2), ""]

    # -- BaseNetref's own methods: which request each issues (observed)
    methods, reqs = observe_base_methods(netref, consts)
    L += ["/-- methods `BaseNetref` defines itself (everything else is made by `_make_method`) -/",
          "def baseMethods : List String := " + lean_strs(methods),
          "/-- (method, syncreq|asyncreq, proxy expression, HANDLE_*, argument patterns) for every request a",
          "`BaseNetref` method issues when run against a recording connection (`$k` = k-th argument after self) -/",
          "def baseRequests : List (String × String × String × String × List String) := " + lean_list(reqs, 1), ""]

    L += ["/-- every request ONE failing `getattr(proxy, name)` costs, observed through the interpreter on a connection whose",
          "answer is AttributeError (a retry - e.g. by a `__getattr__` the interpreter falls back to - would be a second row) -/",
          "def failingReadRequests : List String := " + lean_strs(observe_failing_read(netref, consts)), ""]

    # -- _make_method: the four shapes (observed)
    shapes = []
    slicer_rows, slicer_obs = [], []
    for nm in SLICER_NAMES:
        shape, kind, target, h, pats, raw = observe_made_method(netref, consts, nm)
        if h == "HANDLE_OLDSLICING" and raw and type(raw[0]) is str:
            slicer_rows.append((nm, raw[0]))
            pats = ["slicers[$name]"] + pats[1:]
        slicer_obs.append((shape, kind, target, h, tuple(pats)))
    if len(set(slicer_obs)) != 1:
        raise Inexpressible("_make_method: the three slicer names no longer behave alike: %r" % (slicer_obs,))
    for key, nm in (("__call__", "__call__"), ("<slicers>", None), ("__array__", "__array__"), ("<other>", "observed_method_name")):
        if nm is None:
            shape, kind, target, h, pats = slicer_obs[0]
        else:
            shape, kind, target, h, pats, _raw = observe_made_method(netref, consts, nm)
        shapes.append("(%s, %s, %s, %s, %s, %s)" % (lean_str(key), lean_str(shape), lean_str(kind), lean_str(target),
                                                    lean_str(h), lean_strs(list(pats), 8)))
    L += ["/-- `_make_method`: (name class, made function's signature, syncreq|asyncreq, proxy expression, HANDLE_*, argument",
          "patterns); `$name` is the method's name, `$*`/`$**` the made function's *args/**kwargs, `self` in the signature a",
          "leading named parameter that receives the proxy -/",
          "def makeMethodShapes : List (String × String × String × String × String × List String) := " + lean_list(shapes, 1),
          "def slicers : List (String × String) := " + lean_list(
              ["(%s, %s)" % (lean_str(k), lean_str(v)) for k, v in sorted(slicer_rows)], 3), ""]

    L += ["/-- keyword names (every parameter name of the made functions' signatures, plus a fixed list) that a made `__call__` /",
          "method refuses or does not forward although it takes **kwargs: a target accepting that keyword cannot be called with",
          "it through a proxy.  Must be empty. -/",
          "def reservedKeywords : List String := " + lean_strs(observe_reserved_keywords(netref, consts)), ""]

    # -- helpers.buffiter (observed)
    kind, target, h, pats = observe_buffiter(helpers, consts)
    L += ["/-- the request `helpers.buffiter` issues per round -/",
          "def buffiterRequest : String × String × String × List String := (%s, %s, %s, %s)"
          % (lean_str(kind), lean_str(target), lean_str(h), lean_strs(pats, 8)), ""]

    # -- DEFAULT_CONFIG (what permitted_ops is stated over)
    cfg = protocol.DEFAULT_CONFIG
    for k in SWITCHES:
        if type(cfg.get(k)) is not bool:
            raise Inexpressible("DEFAULT_CONFIG[%r] is not a bool" % k)
        L.append("def default%s : Bool := %s" % (camel("x_" + k)[1:], "true" if cfg[k] else "false"))
    if type(cfg.get("exposed_prefix")) is not str:
        raise Inexpressible("DEFAULT_CONFIG['exposed_prefix'] is not a str")
    sa = cfg.get("safe_attrs")
    if not isinstance(sa, (set, frozenset)) or not all(type(x) is str for x in sa):
        raise Inexpressible("DEFAULT_CONFIG['safe_attrs'] is not a set of str")
    L += ["def defaultExposedPrefix : String := " + lean_str(cfg["exposed_prefix"]),
          "def safeAttrs : List String := " + lean_strs(sorted(sa)), ""]
    # -- classic mode: the switches of a connection established through the live SlaveService
    from rpyc.core import service
    classic = observe_classic_config(protocol, service)
    L.append("/-! ### classic mode: the configuration of a connection established through `SlaveService` (observed) -/")
    for k in SWITCHES + ["allow_pickle"]:
        L.append("def classic%s : Bool := %s" % (camel("x_" + k)[1:], "true" if classic[k] else "false"))
    L.append("")
    L += ["end Rpyc.Gen.Netref", ""]
    return "\n".join(L)


SECTIONS = [("Netref.lean", gen_netref)]
