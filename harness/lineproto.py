"""Pipe op lines through the compiled Lean driver and return its output lines."""
import os
import subprocess

HERE = os.path.dirname(os.path.abspath(__file__))
LEAN_DIR = os.path.normpath(os.path.join(HERE, "..", "lean"))
BIN_DIR = os.path.join(LEAN_DIR, ".lake", "build", "bin")


class DriverError(Exception):
    pass


def run_driver(lines, exe="drv_brine", timeout=600):
    """lines: op lines; exe: the layer's driver executable name (lean/lakefile.toml)"""
    DRIVER = os.path.join(BIN_DIR, exe)
    if not os.path.exists(DRIVER):
        raise DriverError("driver not built: %s" % DRIVER)
    if not lines:
        return []
    data = ("\n".join(lines) + "\n").encode()
    p = subprocess.run([DRIVER], input=data, stdout=subprocess.PIPE, stderr=subprocess.PIPE, timeout=timeout)
    if p.returncode != 0:
        raise DriverError("driver exited %d: %s" % (p.returncode, p.stderr.decode()[-400:]))
    out = p.stdout.decode().split("\n")
    if out and out[-1] == "":
        out.pop()
    if len(out) != len(lines):
        raise DriverError("driver returned %d lines for %d ops" % (len(out), len(lines)))
    return out
