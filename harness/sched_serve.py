"""Line-level cooperative scheduler for the RECEIVE side of a real rpyc Connection (C13, C14; layer L8 Serve).

Self-contained (does not use harness/sched.py).  What it does:

* Logical threads are real `threading.Thread`s under `sys.settrace`; exactly one runs at a time.  A thread
  parks on every `line` event inside the target code objects (`Connection.serve`, `_dispatch`,
  `_seq_request_callback`, `_async_request`, `async_request`, `_get_seq_id`, `AsyncResult.__call__`, `wait`,
  `value`, `set_expiry`, `BgServingThread._bg_server`) and whenever it would block.  The driver grants one
  step at a time; a schedule is the list of grants.
* The connection under test is a REAL `Connection` whose `_recvlock`, `_recv_event`, `_channel`,
  `_seqcounter`, `_request_callbacks` are replaced -- as instance attributes, no source change -- by
  scheduler-aware / logging stand-ins, so blocking is a scheduler state, time is virtual (`rpyc.lib.time`
  and `rpyc.utils.helpers.time` are the virtual clock while a run is active) and deadlock / lost wake-up
  is "no thread enabled".
* Every shared action the real code performs is logged as one token of the model's alphabet
  (lean/RpycModel/Conc/Serve/Model.lean, DESIGN.md Appendix C.1): `call c1 c2 c3 w0 s0 s1 s2 s2w zz s2r s3 p0
  r0 n0 n1 n2 d0 d1 d2 d3 d4 d5 w9 w10 b0 bS stop`, the environment's `peer`/`tick`.  Statements are
  located by AST shape (what they touch), never by line number or local-variable name.
* Exploration: stateless DFS with replay of choice prefixes under a preemption bound, random schedules,
  directed schedules ("run T1 until it logged c2").

The peer is a script: it answers outstanding requests (any order the explorer picks) by putting reply
frames built with rpyc.core.brine (and vinegar for exceptions) into the fake channel.
"""
import ast
import inspect
import sys
import textwrap
import threading

import rpyc
import rpyc.lib
import rpyc.utils.helpers
from rpyc.core import brine, consts, vinegar
import io
import logging
from rpyc.core.async_ import AsyncResult
from rpyc.core.netref import BaseNetref
from rpyc.core.protocol import Connection
from rpyc.lib import Timeout
from rpyc.utils.helpers import BgServingThread


def fmt_t(x):
    """virtual times are integers; a float that is integral (e.g. now + 0.0) prints as the integer"""
    if x is None:
        return "inf"
    if isinstance(x, float) and x == int(x):
        return str(int(x))
    return str(x)


import rpyc.core.protocol as _protocol_mod
import rpyc.core.async_ as _async_mod
WIDE_FILES = {_protocol_mod.__file__, _async_mod.__file__}


class Abort(BaseException):
    """raised inside a parked thread when a run is torn down"""


class HarnessError(Exception):
    """the harness itself lost control (a thread blocked outside the scheduler, a statement not found)"""


# ------------------------------------------------------------------------------------------------ AST location
def _func_ast(fn):
    src = textwrap.dedent(inspect.getsource(fn))
    tree = ast.parse(src)
    node = tree.body[0]
    first = fn.__code__.co_firstlineno
    # decorated functions: co_firstlineno is the decorator line, node.lineno the def line; offsets are relative
    # to the first source line returned by getsource
    return node, first - 1


def _is_self_attr(node, name):
    return isinstance(node, ast.Attribute) and node.attr == name and isinstance(node.value, ast.Name) \
        and node.value.id == "self"


def _assigns_self_attr(stmt, name):
    return isinstance(stmt, ast.Assign) and any(_is_self_attr(t, name) for t in stmt.targets)


def locate_statements():
    """{code object: {lineno: (label, when)}} for the statements the model has a step for, plus the target set.
    Raises HarnessError when a statement of the expected shape is missing (the correspondence then reports
    that it could not run, the oracle search still works: it needs only the park points)."""
    marks = {}
    missing = []

    def put(fn, lineno_rel, off, label, when):
        marks.setdefault(fn.__code__, {})[lineno_rel + off] = (label, when)

    # AsyncResult.__call__: `if self.expired: return`, the three publishing stores
    node, off = _func_ast(AsyncResult.__call__)
    found = set()
    for st in ast.walk(node):
        if isinstance(st, ast.If) and "d2" not in found and any(
                isinstance(n, ast.Attribute) and n.attr == "expired" for n in ast.walk(st.test)):
            put(AsyncResult.__call__, st.lineno, off, "d2", "pre")
            found.add("d2")
        for attr, lab in (("_is_exc", "d3"), ("_obj", "d4"), ("_is_ready", "d5")):
            if _assigns_self_attr(st, attr):
                put(AsyncResult.__call__, st.lineno, off, lab, "pre")
                found.add(lab)
    missing += ["AsyncResult.__call__:" + x for x in ("d2", "d3", "d4", "d5") if x not in found]
    # AsyncResult.wait: the readiness test that guards the serve() call (the `while` test, or an `if` inside a loop),
    # and the final readiness test after the loop
    node, off = _func_ast(AsyncResult.wait)

    def mentions_ready(test):
        return any(_is_self_attr(n, "_is_ready") for n in ast.walk(test))
    loops = [st for st in node.body if isinstance(st, (ast.While, ast.For))]
    if loops:
        w = loops[0]
        if isinstance(w, ast.While) and mentions_ready(w.test):
            put(AsyncResult.wait, w.lineno, off, "w0", "pre")
        else:
            inner = [st for st in ast.walk(w) if isinstance(st, ast.If) and mentions_ready(st.test)]
            if inner:
                put(AsyncResult.wait, inner[0].lineno, off, "w0", "pre")
            else:
                missing.append("AsyncResult.wait:w0")
        after = [st for st in node.body if isinstance(st, ast.If) and st.lineno > w.end_lineno and mentions_ready(st.test)]
        if after:
            put(AsyncResult.wait, after[0].lineno, off, "w9", "pre")
        else:
            missing.append("AsyncResult.wait:w9")
    else:
        missing.append("AsyncResult.wait:w0")
    # AsyncResult.value: the statement that reads _is_exc
    fget = AsyncResult.value.fget
    node, off = _func_ast(fget)
    got = False
    for st in node.body:
        if any(_is_self_attr(n, "_is_exc") for n in ast.walk(st)):
            put(fget, st.lineno, off, "w10", "pre")
            got = True
            break
    if not got:
        missing.append("AsyncResult.value:w10")
    # AsyncResult.add_callback: its readiness test (not a model action: logged as a `note`, which makes the line after it
    # -- the append -- a scheduling point, so the registration can race with a publication by another thread)
    try:
        node, off = _func_ast(AsyncResult.add_callback)
        for st in ast.walk(node):
            if isinstance(st, ast.If) and any(_is_self_attr(n, "_is_ready") for n in ast.walk(st.test)):
                put(AsyncResult.add_callback, st.lineno, off, "a0", "pre")
                break
    except Exception:  # noqa
        pass
    # AsyncResult.set_expiry: the store to _ttl
    node, off = _func_ast(AsyncResult.set_expiry)
    got = False
    for st in ast.walk(node):
        if _assigns_self_attr(st, "_ttl"):
            put(AsyncResult.set_expiry, st.lineno, off, "c3", "post")
            got = True
    if not got:
        missing.append("AsyncResult.set_expiry:c3")
    # Connection.serve: `<name> = Timeout(<name>)`
    node, off = _func_ast(Connection.serve)
    got = False
    for st in node.body:
        if isinstance(st, ast.Assign) and isinstance(st.value, ast.Call) and isinstance(st.value.func, ast.Name) \
                and st.value.func.id == "Timeout" and isinstance(st.targets[0], ast.Name):
            put(Connection.serve, st.lineno, off, "s0", ("local", st.targets[0].id))
            got = True
            break
    if not got:
        missing.append("Connection.serve:s0")
    # Connection.poll_all: `<name> = Timeout(<name>)` and `if <name>.expired(): break`
    node, off = _func_ast(Connection.poll_all)
    got = set()
    for st in ast.walk(node):
        if isinstance(st, ast.Assign) and isinstance(st.value, ast.Call) and isinstance(st.value.func, ast.Name) \
                and st.value.func.id == "Timeout" and isinstance(st.targets[0], ast.Name) and "q0" not in got:
            put(Connection.poll_all, st.lineno, off, "q0", ("local", st.targets[0].id))
            got.add("q0")
        if isinstance(st, ast.If) and "q1" not in got:
            names = [n.func.value.id for n in ast.walk(st.test) if isinstance(n, ast.Call) and isinstance(n.func, ast.Attribute)
                     and n.func.attr == "expired" and isinstance(n.func.value, ast.Name)]
            if names:
                put(Connection.poll_all, st.lineno, off, "q1", ("prelocal", names[0]))
                got.add("q1")
    missing += ["Connection.poll_all:" + x for x in ("q0", "q1") if x not in got]
    # BgServingThread._bg_server: the loop test
    node, off = _func_ast(BgServingThread._bg_server)
    loops = [st for st in ast.walk(node) if isinstance(st, ast.While)]
    if loops:
        w = loops[0]
        put(BgServingThread._bg_server, w.lineno, off, "b0", "pre")
    else:
        missing.append("BgServingThread._bg_server:b0")
    targets = set(marks)
    for name in ("_deliver_response", "_netref_class", "_netref_factory"):     # newer layouts of the dispatch path
        fn = getattr(Connection, name, None)
        if fn is not None:
            targets.add(fn.__code__)
    targets.add(AsyncResult.add_callback.__code__)
    for fn in (Connection.serve, Connection._dispatch, Connection._seq_request_callback, Connection._async_request,
               Connection.async_request, Connection._get_seq_id, Connection.sync_request, Connection.poll,
               Connection.poll_all, AsyncResult.ready.fget, AsyncResult.wait,
               AsyncResult.__call__, AsyncResult.set_expiry, fget, BgServingThread._bg_server):
        targets.add(fn.__code__)
    return marks, targets, missing


# ------------------------------------------------------------------------------------------------ scheduler
def _signal():
    """a binary semaphore, initially 0: a raw lock held from the start (threading.Semaphore is ~5x slower)"""
    l = threading.Lock()
    l.acquire()
    return l


class LThread:
    @property
    def ltid(self):
        return self.lstack[-1]

    def __init__(self, tid, fn):
        self.tid = tid              # the OS-level logical thread
        self.lstack = [tid]         # logical thread ids: a request made while dispatching (INSPECT inside _unbox) runs as a
                                    # fresh logical thread on top of this one (the locks have no owner, so that is what
                                    # the nested call is); lstack[-1] is the id all tokens carry
        self.in_factory = False     # inside Connection._netref_class / _netref_factory (the INSPECT round trip of a
                                    # user-class reference)
        self.fn = fn
        self.go = _signal()
        self.state = "new"          # new | line | blocked | done
        self.kind = None            # blocked: condlock | cond | poll | sleep
        self.cond = None
        self.deadline = None
        self.phase = None           # where the thread is in serve's lock protocol (for labelling condition ops)
        self.hand = None            # id of the frame it received last
        self.acted = 1              # shared actions logged since the thread last parked (1: park at the first line)
        self.pending = {}           # frame -> (label, when) whose observation is completed at the frame's next event
        self.exc = None
        self.thread = None
        self.is_bg = False
        self.depth = 0              # nesting depth of serve() calls
        self.win_depth = None       # serve depth at which it received a frame it has not finished dispatching
        self.win_suspended = False  # it sent a request of its own while dispatching (a round trip: others may run)
        self.spun = False           # its last poll() failed the try-lock and returned at once
        self.in_close = False       # inside Connection.close(): its own HANDLE_CLOSE request is not a model action


class VClock:
    def __init__(self, sched):
        self.sched = sched

    def time(self):
        return self.sched.now

    def sleep(self, dt):
        s = self.sched
        th = s.cur()
        if th is None:
            s.now += dt
            return
        until = s.now + dt
        s.block(th, "sleep", lambda: False, until)
        s.log(th, "bS")


class Sched:
    STEP_TIMEOUT = 20.0

    def __init__(self, marks, targets, park_all=False):
        self.park_all = park_all
        self.marks = marks
        self.targets = targets
        self.threads = {}
        self.order = []
        self.back = _signal()
        self.local = threading.local()
        self.now = 0
        self.trace = []             # tokens of the model's alphabet, in execution order
        self.events = []            # (index in trace, tid, label, obs, now) for the oracles
        self.aborting = False
        self.steps = 0
        self.clock = VClock(self)

    # ---- thread side
    def cur(self):
        return getattr(self.local, "th", None)

    def log(self, th, label, obs=None):
        tok = "run:%d:%s" % (th.ltid, label) + ("" if obs is None else ":" + str(obs))
        self.events.append((len(self.trace), th.ltid, label, obs, self.now))
        self.trace.append(tok)
        th.acted += 1

    def log_env(self, tok, label, obs=None, th=None):
        self.events.append((len(self.trace), None if th is None else th.ltid, label, obs, self.now))
        self.trace.append(tok)
        if th is not None:
            th.acted += 1

    def _yield(self, th):
        self.back.release()
        th.go.acquire()
        if self.aborting:
            raise Abort()

    def block(self, th, kind, cond, deadline):
        """park `th` as blocked until `cond()` or virtual time >= deadline (the driver grants only then)"""
        if self.aborting:
            raise Abort()
        th.state, th.kind, th.cond, th.deadline = "blocked", kind, cond, deadline
        th.acted = 0
        if kind in ("poll", "cond") and not th.is_bg:
            self.run.check_deadline(th, kind, deadline)
            if not self.enabled(th):
                self.run.note_blocked(th)
        self._yield(th)
        th.state, th.kind, th.cond, th.deadline = "run", None, None, None

    def _global_trace(self, frame, event, arg):
        if frame.f_code in self.targets:
            return self._local_trace
        if self.park_all and frame.f_code.co_filename in WIDE_FILES:
            # oracle search: every line of every function of protocol.py / async_.py is a scheduling point, so that
            # code the model knows nothing about (a new helper on a timeout path, say) is interleaved too
            return self._local_trace
        return None

    def _local_trace(self, frame, event, arg):
        th = self.cur()
        if th is None or self.aborting:
            return self._local_trace
        if event == "line" or event == "return":
            pend = th.pending.pop(frame, None)
            if pend is not None:
                self._complete(th, frame, pend, event, frame.f_lineno)
        if event == "line":
            # reduced parking: a thread that has logged no shared action since it last parked need not park
            # again (the lines in between touched thread-local state only); `park_all` parks on every line
            # Connection.close() is atomic here (no parking inside it; the model's step x0 is atomic too)
            if (self.park_all or th.acted) and not th.in_close:
                th.acted = 0
                th.state = "line"
                th.at = (frame.f_code.co_name, frame.f_lineno)
                self._yield(th)
                th.state = "run"
            mark = self.marks.get(frame.f_code, {}).get(frame.f_lineno)
            if th.in_close:
                mark = None     # Connection.close() is one step of the model (x0), including the completion of the
                                # still-pending requests with EOFError by _cleanup: nothing inside it is logged
            if mark is not None:
                label, when = mark
                if when == "pre" and label == "b0":
                    me = frame.f_locals.get("self")
                    if me._active:
                        self.log(th, "b0")
                    else:
                        self.log_env("stop:%d" % th.tid, "stop", th.tid, th)
                elif isinstance(when, tuple) and when[0] == "prelocal":
                    t = frame.f_locals.get(when[1])
                    if isinstance(t, Timeout) and th.spun and not t.expired():
                        # poll_all spinning on a taken receive lock: further iterations change nothing until another
                        # thread acts or time passes (stuttering); park until then -- before the expiry test, so that
                        # the test is observed and executed in the same step -- instead of spinning in zero time
                        mark, t0 = len(self.trace), self.now
                        th.spun = False
                        self.block(th, "spin", lambda: len(self.trace) > mark or self.now > t0,
                                   t.tmax if t.finite else None)
                    obs = ("exit" if t.expired() else "loop") if isinstance(t, Timeout) else "?"
                    self.log(th, label, obs)
                elif when == "pre" and label == "a0":
                    self.log_env("note:%d:a0:%s" % (th.ltid, self._observe_pre(label, frame)), "a0", None, th)
                elif when == "pre":
                    obs = self._observe_pre(label, frame)
                    self.log(th, label, obs)
                    if len(th.lstack) > 1 and (label == "w10" or (label == "w9" and obs == "notready")):
                        self.run.end_logical(th, "timeout" if label == "w9" else "value:" + str(obs))
                    if label == "d5":
                        th.pending[frame] = ("d5", ("published", self.run.seq_of(frame.f_locals.get("self"))))
                else:
                    th.pending[frame] = mark
        return self._local_trace

    def _observe_pre(self, label, frame):
        me = frame.f_locals.get("self")
        run = self.run
        if label == "d3":
            return "%d:%d" % (run.seq_of(me), 1 if run.arg_of(frame, "is_exc") else 0)
        if label == "d4":
            return "%d:%d" % (run.seq_of(me), run.payload_of(run.arg_of(frame, "obj")))
        if label == "d5":
            return "%d" % run.seq_of(me)
        if label == "a0":
            return "ready" if me._is_ready else "notready"
        if label == "w0":
            return "loop" if (not me._is_ready and not me._ttl.expired()) else "exit"
        if label == "d2":
            return "expired" if me.expired else "live"
        if label == "w9":
            return "ready" if me._is_ready else "notready"
        if label == "w10":
            e = me._is_exc
            o = me._obj
            return "%s:%s" % ("n" if e is None else (1 if e else 0), "n" if o is None else run.payload_of(o))
        return None

    def _complete(self, th, frame, mark, event, lineno):
        label, when = mark
        if when == "post":                      # c3
            me = frame.f_locals.get("self")
            ttl = me._ttl
            if ttl.finite:                      # set_expiry(negative) leaves the result without expiry: not a model step
                self.log(th, label, fmt_t(ttl.tmax))
        elif isinstance(when, tuple) and when[0] == "published":
            self.run.note_published(when[1])
        elif isinstance(when, tuple) and when[0] == "local":
            t = frame.f_locals.get(when[1])
            obs = fmt_t(t.tmax if t.finite else None) if isinstance(t, Timeout) else "?"
            if label == "q0":
                self.log_env("poll:%d:%s:%s" % (th.tid, fmt_t(self.run.current_poll.get(th.tid)), obs), "poll", (th.tid, obs), th)
            else:
                self.log(th, "s0", obs)

    def _body(self, th):
        self.local.th = th
        th.go.acquire()
        try:
            if self.aborting:
                return
            sys.settrace(self._global_trace)
            th.state = "line"
            th.at = ("<start>", 0)
            self._yield(th)
            th.state = "run"
            th.fn()
        except Abort:
            pass
        except BaseException as ex:  # noqa
            th.exc = ex
        finally:
            sys.settrace(None)
            th.state = "done"
            if not self.aborting:
                self.back.release()

    # ---- driver side
    def spawn(self, tid, fn, is_bg=False):
        th = LThread(tid, fn)
        th.is_bg = is_bg
        th.thread = threading.Thread(target=self._body, args=(th,), daemon=True)
        self.threads[tid] = th
        self.order.append(tid)
        th.thread.start()
        th.go.release()
        if not self.back.acquire(True, self.STEP_TIMEOUT):
            raise HarnessError("thread %r did not reach its first park" % tid)
        return th

    def enabled(self, th):
        if th.state == "line":
            return True
        if th.state == "blocked":
            return bool(th.cond()) or (th.deadline is not None and self.now >= th.deadline)
        return False

    def grant(self, th):
        self.steps += 1
        th.go.release()
        if not self.back.acquire(True, self.STEP_TIMEOUT):
            raise HarnessError("thread %r did not come back (blocked outside the scheduler?) at %r" % (th.tid, getattr(th, "at", None)))

    def next_deadline(self):
        ds = [th.deadline for th in self.threads.values() if th.state == "blocked" and th.deadline is not None
              and th.deadline > self.now]
        return min(ds) if ds else None

    def advance(self, to):
        d = to - self.now
        self.now = int(to) if to == int(to) else to
        self.log_env("tick:%s" % fmt_t(d), "tick", d)

    def teardown(self):
        self.aborting = True
        for th in self.threads.values():
            if th.state != "done":
                th.go.release()
        for th in self.threads.values():
            th.thread.join(timeout=5.0)
            if th.thread.is_alive():
                raise HarnessError("thread %r did not terminate at teardown" % th.tid)


# ------------------------------------------------------------------------------------------------ stand-ins
class SLock:
    """`_recvlock`: only `acquire(False)` and `release()` are used by serve()"""
    def __init__(self, sched):
        self.sched = sched
        self.holder = None

    def acquire(self, blocking=True, timeout=-1):
        s = self.sched
        th = s.cur()
        if s.aborting:
            raise Abort()
        if blocking and self.holder is not None:
            s.block(th, "recvlock", lambda: self.holder is None, None)
        if self.holder is None:
            self.holder = th.ltid
            th.phase = "s2ok"
            th.spun = False
            s.log(th, "s2", "ok")
            return True
        th.phase = "s2fail"
        s.log(th, "s2", "fail")
        return False

    def release(self):
        s = self.sched
        th = s.cur()
        if s.aborting:
            return
        self.holder = None
        th.phase = "r0"
        s.log(th, "r0")

    def locked(self):
        return self.holder is not None


class SMutex:
    """a plain mutex in the code under test that is not part of the model (AsyncResult._lock): scheduler-aware, so a
    thread parked while holding it cannot block another thread outside the scheduler; not logged"""
    def __init__(self, sched):
        self.sched = sched
        self.holder = None

    def acquire(self, blocking=True, timeout=-1):
        s = self.sched
        th = s.cur()
        if th is None:
            self.holder = "outside"
            return True
        if s.aborting:
            raise Abort()
        if self.holder is not None:
            if not blocking:
                return False
            s.block(th, "mutex", lambda: self.holder is None, None)
        self.holder = th.ltid
        return True

    def release(self):
        self.holder = None

    def locked(self):
        return self.holder is not None

    def __enter__(self):
        self.acquire()
        return self

    def __exit__(self, *a):
        self.release()
        return False


class SCond:
    """`_recv_event`: a Condition whose own lock, wait-set and timeouts live in the scheduler"""
    def __init__(self, sched):
        self.sched = sched
        self.holder = None
        self.waiters = []

    def acquire(self, *a):
        s = self.sched
        th = s.cur()
        if s.aborting:
            raise Abort()
        if self.holder is not None:
            s.block(th, "condlock", lambda: self.holder is None, None)
        self.holder = th.tid
        if th.phase == "r0":
            th.phase = "n0"
            s.log(th, "n0")
        else:
            th.phase = "s1"
            s.log(th, "s1")
        return True

    def release(self):
        s = self.sched
        th = s.cur()
        if s.aborting:
            return
        self.holder = None
        if th.phase == "s2ok":
            th.phase = "s3"
            s.log(th, "s3")
        elif th.phase == "n1":
            th.phase = "n2"
            s.log(th, "n2")
        elif th.phase == "woken":
            th.phase = None
            s.log(th, "s2r")
        elif th.phase == "s2fail":
            th.phase = None
            th.spun = True
            s.log(th, "s2f")
        else:
            s.log(th, "condrelease", th.phase)
            th.phase = None

    def __enter__(self):
        self.acquire()
        return self

    def __exit__(self, *a):
        self.release()
        return False

    def wait(self, timeout=None):
        s = self.sched
        th = s.cur()
        if s.aborting:
            raise Abort()
        deadline = None if timeout is None else s.now + timeout
        s.log(th, "s2w", fmt_t(deadline))
        me = th.ltid
        self.waiters.append(me)
        self.holder = None
        th.phase = "zz"
        s.block(th, "cond", lambda: me not in self.waiters, deadline)
        if me in self.waiters:
            self.waiters.remove(me)
            s.log(th, "zz", "timeout")
            res = False
        else:
            s.log(th, "zz", "notified")
            res = True
        if self.holder is not None:
            s.block(th, "condlock", lambda: self.holder is None, None)
        self.holder = th.tid
        th.phase = "woken"
        return res

    def notify_all(self):
        s = self.sched
        th = s.cur()
        if s.aborting:
            return
        s.log(th, "n1", "+".join(str(t) for t in sorted(self.waiters)) or "-")
        self.waiters = []
        th.phase = "n1"

    notifyAll = notify_all

    def notify(self, n=1):
        s = self.sched
        th = s.cur()
        if s.aborting:
            return
        woken, self.waiters = self.waiters[:n], self.waiters[n:]
        s.log(th, "notify1", "+".join(str(t) for t in woken) or "-")
        th.phase = "n1"


class SChan:
    """the connection's channel: requests go to the peer script, replies come from it.  `eof`: the peer has closed
    the stream (after the frames already sent): poll() reports readable and recv() raises EOFError, as a socket
    does.  `closed`: closed locally by Connection._cleanup: every later poll/recv/send raises EOFError (ClosedFile)."""
    def __init__(self, sched, run):
        self.sched = sched
        self.run = run
        self.frames = []            # (frame id, bytes) the peer has sent and nobody has received
        self.eof = False
        self.closed = False

    def poll(self, timeout):
        s = self.sched
        th = s.cur()
        if s.aborting:
            raise Abort()
        if self.closed:
            s.log(th, "p0", "eof")
            raise EOFError("stream has been closed")
        timeout = Timeout(timeout)
        if not self.frames and not self.eof and not timeout.expired():
            s.block(th, "poll", lambda: bool(self.frames) or self.eof or self.closed,
                    timeout.tmax if timeout.finite else None)
        if self.closed:
            s.log(th, "p0", "eof")
            raise EOFError("stream has been closed")
        if self.frames or self.eof:
            return True
        s.log(th, "p0", "none")
        return False

    def recv(self):
        s = self.sched
        th = s.cur()
        if s.aborting:
            raise Abort()
        if self.closed or (not self.frames and self.eof):
            s.log(th, "p0", "eof")
            raise EOFError("connection closed by peer")
        if not self.frames:
            raise HarnessError("recv() on an empty channel (poll was not consulted)")
        fid, data = self.frames.pop(0)
        th.hand = fid
        if th.win_depth is None:
            th.win_depth = th.depth
        self.run.received.append((fid, th.ltid))
        s.log(th, "p0", fid)
        return data

    def send(self, data):
        s = self.sched
        th = s.cur()
        if th is None:
            return                  # a proxy finalizer at teardown, outside any scheduled thread
        if s.aborting:
            raise Abort()
        msg, seq, args = brine.load(data)
        if msg != consts.MSG_REQUEST:
            raise HarnessError("unexpected outgoing message %r" % (msg,))
        self.run.handler_of[seq] = args[0]
        if th.win_depth is not None and not th.in_close:
            th.win_suspended = True
            self.run.nested_requests.append((th.tid, seq, args[0], len(s.trace)))
        if th is not None and th.in_close:
            if self.closed:
                raise EOFError("stream has been closed")
            return                  # close()'s own HANDLE_CLOSE request: the peer is gone, nobody answers
        if self.closed:
            s.log(th, "c2", "%d:closed" % seq)
            th.phase = "c2closed"
            raise EOFError("stream has been closed")
        self.run.outstanding.append(seq)
        self.run.sent_requests.append((th.ltid, seq))
        s.log(th, "c2", seq)

    def close(self):
        self.closed = True

    def fileno(self):
        return -1


class LoggingCounter:
    """`_seqcounter`: the real itertools.count behind a logging `__next__` (the model's `call` action)"""
    def __init__(self, sched, run, real):
        self.sched, self.run, self.real = sched, run, real

    def __iter__(self):
        return self

    def __next__(self):
        v = next(self.real)
        th = self.sched.cur()
        if th is not None and not self.sched.aborting and not th.in_close:
            if th.in_factory and th.win_depth is not None:
                # the INSPECT round trip of _unbox, made by a thread that is dispatching a frame: a fresh logical thread
                lt = self.run.new_logical(th)
                th.lstack.append(lt)
            me = th.ltid
            tmo = self.run.current_tmo.get(me)
            if tmo is not None and tmo < 0:
                tmo = None              # Timeout(negative) is infinite: the call has no expiry (set_expiry is a no-op then)
            self.run.issued.append((me, v))
            self.sched.log_env("call:%d:%s:%d" % (me, "n" if tmo is None else tmo, v), "call", (me, v), th)
        return v


class LoggingDict(dict):
    """`_request_callbacks`: logs registration (c1) and the pop in _seq_request_callback (d1)"""
    def __init__(self, sched, run):
        dict.__init__(self)
        self.sched, self.run = sched, run

    def __setitem__(self, seq, cb):
        dict.__setitem__(self, seq, cb)
        th = self.sched.cur()
        if th is None or th.in_close:
            return
        self.run.cell_seq[id(cb)] = seq
        self.run.cells[seq] = cb
        if th is not None and not self.sched.aborting:
            self.sched.log(th, "c1", seq)

    def pop(self, seq, *default):
        had = seq in self
        th = self.sched.cur()
        if th is not None and not self.sched.aborting and not th.in_close:
            if th.phase == "c2closed":      # _async_request's `except: self._request_callbacks.pop(seq, None); raise`
                th.phase = None
            else:
                self.sched.log(th, "d1", "%s:%s" % (seq, "cb" if had else "nocb"))
        return dict.pop(self, seq, *default)

    def get(self, seq, default=None):
        th = self.sched.cur()
        if th is not None and not self.sched.aborting:
            self.sched.log(th, "d1get", "%s:%s" % (seq, "cb" if seq in self else "nocb"))
        return dict.get(self, seq, default)


# ------------------------------------------------------------------------------------------------ one run
PAYLOAD_BASE = 1000
EOF_VAL = 1


def payload_for(seq, k=0):
    return PAYLOAD_BASE + 7 * seq + k


class Run:
    """one execution of a case under a chooser.

    case = dict(clients=[[tmo, tmo, ...], ...]   one list of calls (timeout or None) per client thread,
                bg=bool or number of background threads, stop_bg=bool (BgServingThread.stop() may be requested at any
                moment), exc=[seqs answered with MSG_EXCEPTION], sleep=int (bg sleep interval, virtual units),
                dup=[seqs whose reply the peer sends twice]  (oracle search only; outside the model))
                pollers=[[d | "ready", ...], ...]  one program per polling thread (conn.poll_all(d) / AsyncResult.ready),
                eof=bool (the peer may close the stream), early_tick=bool,
                byref=True|"user" (results travel by reference: proxies of remote lists / of instances of a user class,
                whose first proxy costs an INSPECT round trip inside _unbox), mute=[client tids the peer never answers:
                a caller without expiry whose request stays unanswered is a `serve(None)` receiver, as serve_all is],
                callbacks=bool (callers register a callback on their AsyncResult), logger=bool (config["logger"] with DEBUG
                enabled and a real handler), dispatcher_priority=bool (schedule family, see execute)
    Thread ids: clients 1..n, polling threads n+1..n+m, background thread n+m+1.
    """
    HORIZON = 40           # virtual time units
    MAX_STEPS = 3000

    def __init__(self, case, marks, targets, park_all=False):
        self.case = case
        self.sched = Sched(marks, targets, park_all)
        self.sched.run = self
        self.outstanding = []       # seqs the peer may answer
        self.sent_requests = []     # (tid, seq)
        self.issued = []            # (tid, seq) from the counter
        self.received = []          # (frame id, tid)
        self.dispatched = []        # (frame id, tid) entries of _dispatch
        self.frames_sent = []       # (frame id, seq, exc, val)
        self.cell_seq = {}
        self.cells = {}
        self.current_tmo = {}
        self.current_poll = {}
        self.handler_of = {}        # seq -> handler id of the request (answers to REPR/STR must be strings)
        self.nested_requests = []   # (tid, seq, handler): requests a thread sent while dispatching a received frame
        self.deadline_violations = []   # a caller blocked without a deadline, or past its own expiry (see check_deadline)
        self.ready_polls = []       # (tid, seq, number of `ready` reads that returned False, trace index when it was True)
        self.unrelated_sent = 0
        self.table_replaced = None  # trace index at which `conn._request_callbacks` was found rebound to another object
        self.callback_log = []      # (tid, id(AsyncResult)) per callback invocation
        self.callback_expected = []
        self.n_logical = 0
        self.logical_owner = {}     # logical thread id -> OS-level thread that runs it
        self.keepalive = []         # by-reference results, kept until the end of the run (their finalizers send DEL)
        self.results = {}           # tid -> list of (seq, outcome text, return time)
        self.completions = {}       # seq -> count of _is_ready stores
        self.choices = []           # (choice, enabled list, preempt?) per scheduling decision
        self.outcome = None         # finished | deadlock | horizon | harness-error
        self.blocked_at_end = []
        self.conn = None
        self.bgt = None
        self.bgts = {}              # tid -> BgServingThread object (case["bg"] may be a number of background threads)
        self.answered = {}
        self.eof_at = None

    # -- helpers used by the tracer
    def seq_of(self, cell):
        return self.cell_seq.get(id(cell), -1)

    @staticmethod
    def arg_of(frame, name):
        # positional parameters of AsyncResult.__call__(self, is_exc, obj) by position, not by name
        code = frame.f_code
        names = code.co_varnames[:code.co_argcount]
        idx = {"is_exc": 1, "obj": 2}[name]
        return frame.f_locals.get(names[idx]) if len(names) > idx else None

    @staticmethod
    def payload_of(obj):
        if BaseNetref in type(obj).__mro__:
            return object.__getattribute__(obj, "____id_pack__")[1]
        if type(obj) is str and obj[:1] == "R" and obj[1:].isdigit():
            return int(obj[1:])
        if type(obj) is tuple and obj and type(obj[0]) is tuple and obj[0]:
            return Run.payload_of(obj[0][0])
        if isinstance(obj, EOFError):
            return EOF_VAL          # `EOFError("connection closed")` published by _cleanup (the model's eofVal)
        if isinstance(obj, BaseException):
            try:
                return int(obj.args[0])
            except Exception:  # noqa
                return -1
        if isinstance(obj, int):
            return obj
        return -1

    # -- observations of the C14 atoms at the critical moments (tokens `chk:<t>:<R|->`)
    def owner_of(self, seq):
        for (t, q) in self.issued:
            if q == seq:
                return t
        return None

    def current_seq(self, tid):
        mine = [q for (t, q) in self.issued if t == tid]
        return mine[-1] if len(mine) > len(self.results.get(tid, [])) else None

    def new_logical(self, th):
        self.n_logical += 1
        lt = 50 + self.n_logical
        self.current_tmo[lt] = self.conn._config["sync_request_timeout"]
        self.logical_owner[lt] = th.tid
        return lt

    def end_logical(self, th, text):
        """the nested call of the logical thread on top of `th` has returned (value / timeout)"""
        lt = th.lstack.pop()
        seq = [q for (t, q) in self.issued if t == lt][-1]
        self.results.setdefault(lt, []).append((seq, text, self.sched.now))

    def check_deadline(self, th, kind, deadline):
        """deadline oracle (real code): a caller inside a call whose result expires at T never blocks -- in poll() or on
        the condition -- without a deadline, or with one later than T (it is released no later than its own expiry)"""
        q = self.current_seq(th.ltid)
        cell = self.cells.get(q) if q is not None else None
        if cell is None:
            return
        ttl = cell._ttl
        if not ttl.finite:
            return
        limit = max(self.sched.now, ttl.tmax)
        if deadline is None or deadline > limit:
            self.deadline_violations.append(dict(
                tid=th.ltid, seq=q, kind=kind, blocked_until=deadline, expiry=ttl.tmax, now=self.sched.now,
                at=len(self.sched.trace), ready=bool(cell._is_ready)))

    def note_blocked(self, th):
        q = self.current_seq(th.ltid)
        if q is None or q not in self.cells:
            return
        ready = bool(self.cells[q]._is_ready)
        self.sched.log_env("chk:%d:%s" % (th.ltid, "R" if ready else "-"), "chk", (th.ltid, ready, th.kind))

    def note_published(self, seq):
        s = self.sched
        w = self.owner_of(seq)
        th = next((x for x in s.threads.values() if x.ltid == w), None)
        if w is None or th is None:
            return
        if self.current_seq(w) == seq and th.state == "blocked" and th.kind in ("poll", "cond") and not s.enabled(th):
            s.log_env("chk:%d:R" % w, "chk", (w, True, th.kind))

    # -- building the connection under test
    def build(self):
        s = self.sched
        chan = SChan(s, self)
        config = {}
        if self.case.get("logger"):
            log = logging.getLogger("verif-serve")
            log.setLevel(logging.DEBUG)
            log.propagate = False
            for h in list(log.handlers):
                log.removeHandler(h)
            log.addHandler(logging.StreamHandler(io.StringIO()))
            config["logger"] = log
        if "sync" in self.case:
            config["sync_request_timeout"] = self.case["sync"]
        conn = Connection(rpyc.VoidService(), chan, config=config)
        conn._recvlock = SLock(s)
        conn._recv_event = SCond(s)
        conn._seqcounter = LoggingCounter(s, self, conn._seqcounter)
        conn._request_callbacks = LoggingDict(s, self)
        self.cb_table = conn._request_callbacks
        real_dispatch = conn._dispatch
        run = self

        def dispatch(data):
            th = s.cur()
            if th is not None and not s.aborting:
                run.dispatched.append((th.hand, th.ltid))
                s.log(th, "d0", "data")
                th.phase = None
            return real_dispatch(data)

        conn._dispatch = dispatch
        real_serve = conn.serve

        def serve(timeout=1, wait_for_lock=True):
            th = s.cur()
            if th is not None:
                th.depth += 1
            try:
                return real_serve(timeout, wait_for_lock)
            finally:
                if th is not None and not s.aborting and th.phase == "n2":
                    s.log(th, "d0", "raise" if isinstance(sys.exc_info()[1], EOFError) else "none")
                    th.phase = None
                if th is not None:
                    if th.win_depth == th.depth:
                        th.win_depth, th.win_suspended = None, False
                    th.depth -= 1

        conn.serve = serve
        real_factory = conn._netref_factory

        def netref_factory(id_pack):
            # keep every proxy alive until the end of the run: a dropped by-reference reply (no callback, expired) would
            # otherwise send its HANDLE_DEL notice from inside the dispatch, at a garbage-collection-dependent moment
            th = s.cur()
            was = th.in_factory if th is not None else False
            if th is not None:
                th.in_factory = True
            try:
                proxy = real_factory(id_pack)
            finally:
                if th is not None:
                    th.in_factory = was
            run.keepalive.append(proxy)
            return proxy

        conn._netref_factory = netref_factory
        if hasattr(conn, "_netref_class"):
            # newer layout: _unbox resolves the proxy class through _netref_class (where the INSPECT round trip is made)
            # and builds the proxy itself; _netref_factory is the composition
            real_class = conn._netref_class

            def netref_class(id_pack):
                th = s.cur()
                was = th.in_factory if th is not None else False
                if th is not None:
                    th.in_factory = True
                try:
                    return real_class(id_pack)
                finally:
                    if th is not None:
                        th.in_factory = was

            conn._netref_class = netref_class

        class KeepDict(dict):
            """`_proxy_cache` with strong references: proxies live until the end of the run (see netref_factory)"""
            def clear(self):
                run.keepalive.extend(self.values())
                dict.clear(self)

        conn._proxy_cache = KeepDict()
        real_close = conn.close

        def close():
            th = s.cur()
            if th is None or s.aborting:
                return real_close()
            s.log(th, "x0", "again" if conn._closed else "first")
            th.in_close = True
            try:
                return real_close()
            finally:
                th.in_close = False

        conn.close = close
        self.conn = conn
        self.chan = chan
        return conn

    def client_fn(self, tid, calls):
        conn = self.conn
        s = self.sched

        def fn():
            out = self.results.setdefault(tid, [])
            for tmo in calls:
                ready_mode = isinstance(tmo, (tuple, list))
                if ready_mode:
                    tmo = tmo[1]                    # ("ready", tmo): wait the non-blocking way, `while not res.ready`
                if "sync" in self.case:
                    tmo = self.case["sync"]         # conn.sync_request: the connection-wide sync_request_timeout
                self.current_tmo[tid] = tmo
                n_before = len([1 for (t, _q) in self.issued if t == tid])
                try:
                    if "sync" in self.case:
                        v = conn.sync_request(consts.HANDLE_PING, "x")
                        res = None
                    else:
                        res = conn.async_request(consts.HANDLE_PING, "x", timeout=tmo)
                    if res is not None and self.case.get("callbacks"):
                        res.add_callback(lambda r, tid=tid: self.callback_log.append((tid, id(r))))
                        self.callback_expected.append((tid, id(res), res))
                    if res is not None and ready_mode:
                        spins = 0
                        while not res.ready and spins < 25:
                            spins += 1
                        self.ready_polls.append((tid, self.current_seq(tid), spins, len(s.trace)))
                    if res is not None:
                        v = res.value
                    if BaseNetref in type(v).__mro__:
                        self.keepalive.append(v)
                        text = "value:0:%d" % self.payload_of(v)
                    else:
                        text = "value:0:%s" % (v if isinstance(v, int) else repr(v))
                except Abort:
                    raise
                except Exception as ex:  # noqa
                    if type(ex).__name__ in ("AsyncResultTimeout", "TimeoutError"):
                        text = "timeout"
                    elif isinstance(ex, EOFError):
                        cell = self.cells.get(self.current_seq(tid))
                        if cell is not None and cell._is_ready and cell._is_exc and cell._obj is ex:
                            text = "value:1:%d" % EOF_VAL       # the result _cleanup published, read through `value`
                        else:
                            text = "eof"                        # raised out of serve()
                    elif isinstance(ex, ValueError) and ex.args and isinstance(ex.args[0], int):
                        text = "value:1:%d" % ex.args[0]
                    else:
                        text = "raised:%s" % type(ex).__name__
                mine = [q for (t, q) in self.issued if t == tid]
                seq = mine[n_before] if len(mine) > n_before else -1
                out.append((seq, text, s.now))
        return fn

    def poller_fn(self, tid, program):
        """a thread that receives through `conn.poll_all(d)` (item = d) or `AsyncResult.ready` (item = "ready", which is
        poll_all(0) behind a private, never-registered result): serve(timeout, wait_for_lock=False)"""
        conn = self.conn

        def fn():
            for item in program:
                if item == "ready":
                    self.current_poll[tid] = 0
                    AsyncResult(conn).ready
                else:
                    self.current_poll[tid] = item
                    conn.poll_all(item)
        return fn

    def bg_fn(self, tid):
        bgt = BgServingThread.__new__(BgServingThread)
        bgt._conn = self.conn
        bgt._active = True
        bgt._callback = None
        bgt._thread = None
        bgt.SLEEP_INTERVAL = self.case.get("sleep", 1)     # virtual time units (instance attribute)
        self.bgt = bgt
        self.bgts[tid] = bgt
        self.sched.log_env("bg:%d" % tid, "bg", tid)
        return bgt._bg_server

    # -- the peer
    def peer_answer(self, seq):
        self.outstanding.remove(seq)
        n = self.answered.get(seq, 0)
        self.answered[seq] = n + 1
        exc = seq in self.case.get("exc", ())
        val = payload_for(seq, 0)           # a repeated answer (case["dup"]) is the same answer
        fid = len(self.frames_sent)
        handler = self.handler_of.get(seq, consts.HANDLE_PING)
        if handler in (consts.HANDLE_REPR, consts.HANDLE_STR):
            data = brine.dump((consts.MSG_REPLY, seq, (consts.LABEL_VALUE, "R%d" % val)))
            exc = False
        elif handler == consts.HANDLE_INSPECT:
            # the methods of the remote class, by value: ((name, doc), ...)
            data = brine.dump((consts.MSG_REPLY, seq, (consts.LABEL_VALUE, (("R%d" % val, ""),))))
            exc = False
        elif handler != consts.HANDLE_PING:
            data = brine.dump((consts.MSG_REPLY, seq, (consts.LABEL_VALUE, None)))
            exc = False
        elif self.case.get("byref") and not exc:
            # a result that travels by reference: the proxy of a remote list (builtin class: no INSPECT round trip)
            cls = "verif_remote.Thing" if self.case.get("byref") == "user" else "builtins.list"
            data = brine.dump((consts.MSG_REPLY, seq, (consts.LABEL_REMOTE_REF, (cls, val, val))))
        elif exc:
            raw = vinegar.dump(ValueError, ValueError(val), None, include_local_traceback=False, include_local_version=False)
            data = brine.dump((consts.MSG_EXCEPTION, seq, raw))
        else:
            data = brine.dump((consts.MSG_REPLY, seq, (consts.LABEL_VALUE, val)))
        self.frames_sent.append((fid, seq, exc, val))
        self.chan.frames.append((fid, data))
        self.sched.log_env("%s:%d:%d:%d" % ("peer" if n == 0 else "dup", seq, 1 if exc else 0, val), "peer", (seq, fid))
        if seq in self.case.get("dup", ()) and n == 0:
            self.outstanding.append(seq)         # a second, identical-seq reply will follow (outside the model)

    def peer_unrelated(self):
        """unrelated inbound traffic: a reply to a request this side never made (dropped by _seq_request_callback)"""
        fid = len(self.frames_sent)
        seq = 9000 + self.unrelated_sent
        self.unrelated_sent += 1
        self.frames_sent.append((fid, seq, False, 0))
        self.chan.frames.append((fid, brine.dump((consts.MSG_REPLY, seq, (consts.LABEL_VALUE, 0)))))
        self.sched.log_env("peer:%d:0:0" % seq, "unrelated", (seq, fid))

    def peer_eof(self):
        self.chan.eof = True
        self.eof_at = len(self.sched.trace)
        self.sched.log_env("eof", "eof", None)

    # -- the driver loop
    def execute(self, chooser):
        """chooser(run, options, current) -> one of options; options are 'T<tid>', 'P<seq>', 'K' (advance the clock
        to the next deadline although something is enabled; offered only if the case allows early ticks)"""
        saved_lib, saved_helpers = rpyc.lib.time, rpyc.utils.helpers.time
        saved_lock = getattr(_async_mod, "Lock", None)
        s = self.sched
        rpyc.lib.time = s.clock
        rpyc.utils.helpers.time = s.clock
        if saved_lock is not None:
            _async_mod.Lock = lambda: SMutex(s)     # AsyncResult._lock (registration vs publication), where it exists
        try:
            self.build()
            n = len(self.case["clients"])
            for i, calls in enumerate(self.case["clients"]):
                s.spawn(i + 1, self.client_fn(i + 1, calls))
            pollers = self.case.get("pollers", [])
            for j, program in enumerate(pollers):
                s.spawn(n + 1 + j, self.poller_fn(n + 1 + j, program))
            bg_tid = None
            for j in range(int(self.case.get("bg") or 0)):
                bg_tid = n + len(pollers) + 1 + j
                s.spawn(bg_tid, self.bg_fn(bg_tid), is_bg=True)
            current = None
            while True:
                clients_done = all(s.threads[t].state == "done" for t in range(1, n + 1))
                if clients_done:
                    for b in self.bgts.values():
                        b._active = False
                if self.table_replaced is None and self.conn._request_callbacks is not self.cb_table:
                    self.table_replaced = len(s.trace)      # the callbacks table object was rebound during the run
                if all(th.state == "done" for th in s.threads.values()):
                    self.outcome = "finished"
                    break
                if s.steps > self.MAX_STEPS or s.now > self.HORIZON:
                    self.outcome = "horizon"
                    break
                en = ["T%d" % t for t in s.order if s.enabled(s.threads[t])]
                muted = set(q for (t, q) in self.issued if t in self.case.get("mute", ()))
                peer = [] if (clients_done or self.chan.eof) else ["P%d" % q for q in sorted(set(self.outstanding) - muted)]
                if self.case.get("eof") and not self.chan.eof and not clients_done:
                    peer = peer + ["E"]
                if self.unrelated_sent < self.case.get("unrelated", 0) and not self.chan.eof and not clients_done:
                    peer = peer + ["U"]
                if self.case.get("stop_bg") and not clients_done:
                    # BgServingThread.stop() from another thread, at any moment: it clears `_active` (the join is not modelled)
                    peer = peer + ["S%d" % t for t, b in sorted(self.bgts.items()) if b._active]
                nd = s.next_deadline()
                opts = en + peer
                if not opts:
                    if nd is None:
                        self.outcome = "deadlock"
                        break
                    s.advance(nd)
                    continue
                if nd is not None and self.case.get("early_tick") and en:
                    opts = opts + ["K"]
                if self.case.get("dispatcher_priority"):
                    # schedule family: a thread that has received a frame runs unpreempted until it has dispatched it
                    # (others run only while it is blocked) -- unless it sent a request of its own meanwhile
                    pri = ["T%d" % t for t in s.order if s.threads[t].win_depth is not None
                           and not s.threads[t].win_suspended and "T%d" % t in en]
                    if pri:
                        opts = pri
                choice = chooser(self, opts, current)
                if choice not in opts:
                    raise HarnessError("chooser picked %r, not in %r" % (choice, opts))
                cur = "T%d" % current if (current is not None and ("T%d" % current) in en) else None
                self.choices.append((choice, opts, cur))
                if choice == "K":
                    s.advance(nd)
                elif choice == "E":
                    self.peer_eof()
                elif choice == "U":
                    self.peer_unrelated()
                elif choice[0] == "S":
                    self.bgts[int(choice[1:])]._active = False
                    s.log_env("note:%s:stop-requested" % choice[1:], "stop-requested", int(choice[1:]))
                elif choice[0] == "P":
                    self.peer_answer(int(choice[1:]))
                else:
                    current = int(choice[1:])
                    s.grant(s.threads[current])
            self.blocked_at_end = [(th.tid, th.state, th.kind, th.deadline) for th in s.threads.values()
                                   if th.state != "done"]
            self.thread_errors = {th.tid: repr(th.exc) for th in s.threads.values() if th.exc is not None
                                  and not (th.is_bg and isinstance(th.exc, EOFError) and (self.chan.eof or self.chan.closed))}
            self.final_registered = sorted(dict.keys(self.conn._request_callbacks))
            self.in_call_status = []
            for tid in sorted(set(t for (t, _q) in self.issued)):
                mine = [q for (t, q) in self.issued if t == tid]
                if len(mine) > len(self.results.get(tid, [])):
                    th = s.threads[self.logical_owner.get(tid, tid)]
                    if th.ltid != tid:
                        self.in_call_status.append("%d/-/%s" % (tid, "R" if (self.cells.get(mine[-1]) is not None
                                                                             and self.cells[mine[-1]]._is_ready) else "-"))
                        continue
                    blocked = th.state == "blocked" and th.kind in ("poll", "cond") and not s.enabled(th)
                    cell = self.cells.get(mine[-1])
                    ready = bool(cell is not None and cell._is_ready)
                    self.in_call_status.append("%d/%s/%s" % (tid, "B" if blocked else "-", "R" if ready else "-"))
        finally:
            try:
                s.teardown()
            finally:
                rpyc.lib.time, rpyc.utils.helpers.time = saved_lib, saved_helpers
                if saved_lock is not None:
                    _async_mod.Lock = saved_lock
                if self.conn is not None:
                    self.conn._closed = True
                for b in self.bgts.values():
                    b._active = False
                # drop by-reference results now, in this thread (their finalizers call async_request)
                del self.keepalive[:]
                for cell in list(self.cells.values()):
                    try:
                        cell._obj = None
                    except Exception:  # noqa
                        pass
                if self.conn is not None:
                    try:
                        self.conn._proxy_cache.clear()
                    except Exception:  # noqa
                        pass
        return self

    # -- summaries
    def summary(self):
        """what the Lean driver prints after accepting the trace: results per thread, callbacks still registered,
        dispatch count per frame, virtual time"""
        res = []
        for tid in sorted(self.results):
            for (seq, text, _t) in self.results[tid]:
                res.append("%d/%d/%s" % (tid, seq, text))
        dc = {}
        for fid, _t in self.dispatched:
            dc[fid] = dc.get(fid, 0) + 1
        dcs = ",".join(str(dc.get(fid, 0)) for fid in range(len(self.frames_sent))) or "-"
        return "res=%s reg=%s dc=%s now=%d bl=%s" % (",".join(res) or "-", "+".join(map(str, self.final_registered)) or "-",
                                                      dcs, self.sched.now, ",".join(self.in_call_status) or "-")


# ------------------------------------------------------------------------------------------------ choosers
def default_choice(opts, current):
    """continue the current thread if it is enabled, else the first enabled thread, else the peer"""
    if current is not None and "T%d" % current in opts:
        return "T%d" % current
    for o in opts:
        if o[0] == "T":
            return o
    return opts[0]


class PrefixChooser:
    """follow a recorded list of choices, then the default policy"""
    def __init__(self, prefix):
        self.prefix = list(prefix)
        self.i = 0
        self.diverged = False

    def __call__(self, run, opts, current):
        if self.i < len(self.prefix):
            c = self.prefix[self.i]
            self.i += 1
            if c in opts:
                return c
            self.diverged = True
        return default_choice(opts, current)


class RandomChooser:
    def __init__(self, rng, stick=3, max_preempt=None):
        self.rng, self.stick, self.max_preempt = rng, stick, max_preempt
        self.preempts = 0

    def __call__(self, run, opts, current):
        cur = "T%d" % current if current is not None else None
        if cur in opts:
            if self.max_preempt is not None and self.preempts >= self.max_preempt:
                return cur
            if self.rng.below(self.stick + 1) != 0:
                return cur
            others = [o for o in opts if o != cur]
            if not others:
                return cur
            self.preempts += 1
            return self.rng.choice(others)
        return self.rng.choice(opts)


def run_case(case, chooser, env=None, park_all=False):
    marks, targets, _missing = env or locate_statements()
    return Run(case, marks, targets, park_all).execute(chooser)


def dfs(case, bound, env, max_runs=None, deadline=None, visit=None, park_all=False):
    """all schedules of `case` with at most `bound` preemptions (a preemption = choosing something else while the
    thread that ran last is still enabled; peer answers and early ticks count when they pre-empt).  Stateless:
    every schedule is executed from scratch by replaying its choice prefix.  Returns (runs, complete?)."""
    import time as _time
    stack = [[]]
    runs = 0
    while stack:
        if (max_runs is not None and runs >= max_runs) or (deadline is not None and _time.time() > deadline):
            return runs, False
        prefix = stack.pop()
        ch = PrefixChooser(prefix)
        run = run_case(case, ch, env, park_all)
        runs += 1
        if visit is not None:
            visit(run)
        used = 0
        for i, (choice, opts, cur) in enumerate(run.choices):
            if i >= len(prefix):
                for alt in opts:
                    if alt == choice:
                        continue
                    cost = 1 if (cur is not None and alt != cur) else 0
                    if used + cost <= bound:
                        stack.append([c for (c, _o, _c) in run.choices[:i]] + [alt])
            if cur is not None and choice != cur:
                used += 1
    return runs, True


class DirectedChooser:
    """script items: ("run", tid, label) run thread tid until it has logged `label` (label may be "a|b");
    ("block", tid) run tid until it is not enabled; ("step", tid, n) grant tid n steps; ("peer", seq); ("eof",) the peer closes the stream; ("tick",) advance to the next deadline
    (needs case["early_tick"]).  After the script: the default policy.  `failed` is set when an item could not
    be followed (the schedule does not exist on this code)."""
    def __init__(self, script):
        self.script = list(script)
        self.k = 0
        self.mark = 0
        self.failed = None
        self.done_at = None
        self.count = 0

    def __call__(self, run, opts, current):
        ev = run.sched.events
        while self.k < len(self.script):
            item = self.script[self.k]
            if item[0] == "run":
                _x, tid, label = item[:3]
                watch = item[3] if len(item) > 3 else tid      # logical thread whose token is awaited (nested calls)
                labels = label.split("|")
                if any(e[1] == watch and e[2] in labels for e in ev[self.mark:]):
                    self._next(ev)
                    continue
                if "T%d" % tid in opts:
                    return "T%d" % tid
                self.failed = "thread %d not enabled before logging %s" % (tid, label)
                self.k = len(self.script)
                break
            if item[0] == "block":
                if "T%d" % item[1] in opts:
                    return "T%d" % item[1]
                self._next(ev)
                continue
            if item[0] == "peer":
                self._next(ev)
                if "P%d" % item[1] in opts:
                    return "P%d" % item[1]
                self.failed = "peer cannot answer %d" % item[1]
                self.k = len(self.script)
                break
            if item[0] == "step":
                _x, tid, n = item
                if self.count < n and "T%d" % tid in opts:
                    self.count += 1
                    return "T%d" % tid
                self.count = 0
                self._next(ev)
                continue
            if item[0] == "unrelated":
                self._next(ev)
                if "U" in opts:
                    return "U"
                continue
            if item[0] == "eof":
                self._next(ev)
                if "E" in opts:
                    return "E"
                self.failed = "the peer cannot close the stream here"
                self.k = len(self.script)
                break
            if item[0] == "tick":
                self._next(ev)
                if "K" in opts:
                    return "K"
                continue
            raise HarnessError("bad script item %r" % (item,))
        if self.done_at is None:
            self.done_at = len(run.choices)
        return default_choice(opts, current)

    def _next(self, ev):
        self.k += 1
        self.mark = len(ev)


# ------------------------------------------------------------------------------------------------ oracles
SIG_MAIN = "C14:receiver!=waiter:waiter-acquires-between-release-and-dispatch"
SIG_LATE = "C14:receiver!=waiter:readiness-tested-before-dispatch-no-notify-after"
SIG_NESTED = "C14:dispatcher-blocks-in-nested-request-before-publication"


def calls_of(run):
    """one dict per client call: tid, seq, tmo, deadline (ttl), result, t_return, dispatch (time, thread, index)"""
    ev = run.sched.events
    out = []
    per_tid = {}
    for (tid, seq) in run.issued:
        k = per_tid.get(tid, 0)
        per_tid[tid] = k + 1
        calls = run.case["clients"][tid - 1] if 1 <= tid <= len(run.case["clients"]) else []
        tmo = calls[k] if k < len(calls) else run.current_tmo.get(tid)
        if isinstance(tmo, (tuple, list)):
            tmo = tmo[1]
        if tmo is not None and tmo < 0:
            tmo = None
        res = run.results.get(tid, [])
        r = res[k] if k < len(res) else None
        t_issue = next((e[4] for e in ev if e[2] == "call" and e[3] == (tid, seq)), None)
        d5 = [(e[4], e[1], e[0]) for e in ev if e[2] == "d5" and str(e[3]) == str(seq)]
        out.append(dict(tid=tid, seq=seq, tmo=tmo, t_issue=t_issue, result=None if r is None else r[1],
                        t_return=None if r is None else r[2], d5=d5))
    return out


def stalls_of(run):
    """C14's direct oracle: every moment at which a client was blocked in poll()/on the condition although the
    reply to its request had been processed (`chk:<t>:R`), with the (virtual) dispatch and return times and the
    schedule signature."""
    ev = run.sched.events
    out = []
    seen = set()
    calls = calls_of(run)
    for e in ev:
        if e[2] != "chk" or not e[3][1]:
            continue
        w = e[3][0]
        c = [c for c in calls if c["tid"] == w and c["d5"] and c["d5"][0][2] < e[0]]
        if not c and run.chan.closed:
            # its result was completed by Connection._cleanup with EOFError("connection closed") while it sleeps on the
            # condition: the closing thread's notify is on its way (theorem waiter_woken_after_close); not a reply hand-off
            continue
        if not c:
            out.append(dict(tid=w, signature="C14:other:ready-without-dispatch", at=e[0]))
            continue
        c = c[-1]
        if (w, c["seq"]) in seen:
            continue
        seen.add((w, c["seq"]))
        t_d, r, i_d5 = c["d5"][0]
        mine = [x for x in ev if x[1] == w and x[2] not in ("chk",)]
        w0s = [x for x in mine if x[2] == "w0" and x[0] < i_d5]
        sig = None
        shape = ""
        r0s = [x for x in ev if x[1] == r and x[2] == "r0" and x[0] < i_d5]
        nested = [n for n in run.nested_requests if n[0] == r and r0s and r0s[-1][0] < n[3] < i_d5]
        inspect_only = bool(nested) and all(n[2] == consts.HANDLE_INSPECT for n in nested)
        note = ""
        if inspect_only:
            # _unbox of a user-class reference: the INSPECT round trip lies between the lock hand-off and the publication;
            # the stall is classified by its lock order like any other, the round trip only widens the window
            note = " [the dispatcher's INSPECT round trip (seq %s) for a user-class reference lay inside the window]" % nested[0][1]
        if r != w and nested and not inspect_only:
            sig = SIG_NESTED
            shape = ("between releasing the receive lock and publishing the result the dispatching thread sent a request of "
                     "its own (seq %s, handler %s) and waited for the answer; the woken waiter ran meanwhile"
                     % (nested[0][1], nested[0][2]))
        elif r == w:
            sig = "C14:receiver==waiter:unexpected"
        elif not w0s:
            sig = "C14:other:no-readiness-test-before-dispatch"
        else:
            i_w0 = w0s[-1][0]
            after = [x for x in mine if x[0] > i_w0]
            s2 = next((x for x in after if x[2] == "s2"), None)
            if s2 is None:
                sig = "C14:other:no-trylock"
            elif s2[3] == "ok":
                r0 = [x for x in ev if x[1] == r and x[2] == "r0" and x[0] < i_d5]
                if r0 and r0[-1][0] < s2[0] < i_d5:
                    sig, shape = SIG_MAIN, "waiter took the receive lock after the receiver's release and before its dispatch, blocked in poll()"
                elif s2[0] > i_d5:
                    sig, shape = SIG_LATE, "waiter tested readiness before the dispatch, took the receive lock after it, blocked in poll()"
                else:
                    sig = "C14:other:lock-order"
            else:
                # asleep on the condition.  On the pinned code this needs the receiver's notify_all to PRECEDE the
                # waiter's entry into the wait-set (otherwise the notify wakes it and it re-tests); a waiter that was
                # in the wait-set when the receiver released the lock and was never notified is a different defect
                s2w = next((x for x in after if x[2] == "s2w"), None)
                n1 = [x for x in ev if x[1] == r and x[2] == "n1" and x[0] < i_d5]
                if s2w is None or not n1 or s2w[0] < n1[-1][0]:
                    sig = "C14:other:waiter-in-wait-set-not-notified"
                    shape = "the waiter was already in the wait-set when the receiver released the receive lock, and was not notified"
                    out.append(dict(tid=w, seq=c["seq"], receiver=r, t_dispatch=t_d, t_return=c["t_return"], tmo=c["tmo"],
                                    blocked_in=e[3][2], signature=sig, shape=shape, at=e[0]))
                    continue
                sig, shape = SIG_LATE, "waiter tested readiness before the dispatch, then failed the try-lock (held by a thread polling for other traffic) and sleeps on the condition; nobody notifies after the dispatch"
        out.append(dict(tid=w, seq=c["seq"], receiver=r, t_dispatch=t_d, t_return=c["t_return"], tmo=c["tmo"],
                        blocked_in=e[3][2], signature=sig, shape=shape + note, at=e[0], inspect=inspect_only))
    return out


# set by the property modules from gen_async.measure_registration_atomic (the measured Gen.Async.addCallbackAtomic): while
# add_callback's test-then-append is not atomic w.r.t. the publication, a lost callback is C15's finding, counted only
ADD_CALLBACK_ATOMIC = True


def lost_callbacks(run):
    return [(tid, rid) for (tid, rid, res) in run.callback_expected
            if run.callback_log.count((tid, rid)) == 0 and res._is_ready and run.outcome == "finished"]


def measure_add_callback_atomic():
    global ADD_CALLBACK_ATOMIC
    try:
        import gen_async
        ADD_CALLBACK_ATOMIC = bool(gen_async.measure_registration_atomic(_async_mod))
    except Exception:  # noqa
        ADD_CALLBACK_ATOMIC = False
    return ADD_CALLBACK_ATOMIC


SIG_DRAIN = "C14:ready-poll-keeps-serving-after-own-reply"
SIG_PAST_EXPIRY = "C14:blocked-past-own-expiry"


def past_expiry(run):
    """the deadline oracle as stall records (signature SIG_PAST_EXPIRY)"""
    out = []
    for d in run.deadline_violations:
        where = {"poll": "poll()", "cond": "Condition.wait()"}.get(d["kind"], d["kind"])
        out.append(dict(tid=d["tid"], seq=d["seq"], receiver=None, t_dispatch=None, t_return=None, tmo=None, blocked_in=d["kind"],
                        signature=SIG_PAST_EXPIRY, at=d["at"],
                        shape="at t=%s thread %s (request %s, expiry t=%s, result %s) blocked in %s %s: its own expiry does not release it"
                              % (fmt_t(d["now"]), d["tid"], d["seq"], fmt_t(d["expiry"]), "ready" if d["ready"] else "not ready", where,
                                 "without any deadline" if d["blocked_until"] is None else "until t=%s" % fmt_t(d["blocked_until"]))))
    return out


def ready_drain(run):
    """C14 through the non-blocking path (`while not res.ready`): once the polling thread has itself dispatched the
    reply to its request, `ready` returns True in that same poll round -- the thread receives no further frame before
    it gets control back.  Oracle-only (these runs are outside the model: a caller that polls)."""
    ev = run.sched.events
    out = []
    for (tid, seq, spins, end) in run.ready_polls:
        d5 = next((e for e in ev if e[2] == "d5" and str(e[3]) == str(seq) and e[1] == tid), None)
        if d5 is None:
            continue
        extra = [e for e in ev if e[1] == tid and e[2] == "p0" and d5[0] < e[0] < end and e[3] not in ("none", "eof")]
        if extra:
            out.append(dict(tid=tid, seq=seq, receiver=tid, t_dispatch=d5[4], t_return=None, tmo=None, blocked_in="poll_all",
                            signature=SIG_DRAIN, at=d5[0], extra_frames=[e[3] for e in extra],
                            shape="after dispatching the reply to its own request inside AsyncResult.ready -> poll_all, the thread "
                                  "went on receiving %d further frame(s) %r before `ready` returned" % (len(extra), [e[3] for e in extra])))
    return out


def _dispatched_before(run, seq, ttl):
    """was a reply frame for `seq` dispatched -- from the entry of _dispatch to the dispatcher's next loop test, all of
    it -- strictly before virtual time ttl, without the request's result being published?"""
    if ttl is None or ttl == "inf":
        return False
    ev = run.sched.events
    fids = [fid for (fid, q, _e, _v) in run.frames_sent if q == seq]
    if any(e[2] == "d5" and str(e[3]) == str(seq) for e in ev):
        return False
    for fid in fids:
        rx = next((e for e in ev if e[2] == "p0" and e[3] == fid), None)
        if rx is None:
            continue
        t = rx[1]
        d0 = next((e for e in ev if e[0] > rx[0] and e[1] == t and e[2] == "d0" and e[3] == "data"), None)
        if d0 is None:
            continue
        end = d0[4]
        for e in ev:
            if e[0] > d0[0] and e[1] == t:
                if e[2] in ("w0", "s0", "q1", "bS", "b0", "w9", "poll", "call", "stop"):
                    end = max(end, e[4])
                    break
                end = max(end, e[4])
        if end < float(ttl):
            return True
    return False


def c13_violations(run):
    """C13's direct oracle on one run of the real code: list of (signature, text)"""
    out = []
    ev = run.sched.events
    seqs = [q for (_t, q) in run.issued]
    if len(set(seqs)) != len(seqs):
        out.append(("C13:seq-reused", "sequence numbers handed out: %r" % (run.issued,)))
    wire = [q for (_t, q) in run.sent_requests]
    if len(set(wire)) != len(wire):
        out.append(("C13:seq-reused", "sequence numbers of the requests put on the wire: %r" % (run.sent_requests,)))
    fids = [f for (f, _t) in run.received]
    if len(set(fids)) != len(fids):
        out.append(("C13:frame-received-twice", "frames received: %r" % (run.received,)))
    dc = {}
    for fid, _t in run.dispatched:
        dc[fid] = dc.get(fid, 0) + 1
    for fid, n in sorted(dc.items()):
        if n > 1:
            out.append(("C13:frame-dispatched-twice", "frame %d dispatched %d times" % (fid, n)))
    if run.outcome == "finished":
        for fid in fids:
            if dc.get(fid, 0) != 1:
                out.append(("C13:frame-not-dispatched", "frame %d was received but dispatched %d times" % (fid, dc.get(fid, 0))))
    answers = {}                # seq -> every (exc, payload) the peer answered (more than one only in `dup` cases)
    for (fid, seq, exc, val) in run.frames_sent:
        answers.setdefault(seq, []).append((exc, val))
    compl = {}
    for e in ev:
        if e[2] == "d5":
            compl[str(e[3])] = compl.get(str(e[3]), 0) + 1
    for q, n in sorted(compl.items()):
        if n > 1 and q != "-1":     # "-1": a result the harness never saw registered (its table stand-in was bypassed)
            out.append(("C13:request-completed-twice", "request %s: _is_ready stored %d times" % (q, n)))
    for c in calls_of(run):
        res = c["result"]
        if res is None:
            continue
        if res.startswith("value:"):
            _v, e, val = res.split(":", 2)
            want = answers.get(c["seq"], [])
            if (e, val) == ("1", str(EOF_VAL)) and run.chan.closed:
                continue            # completed by _cleanup with EOFError("connection closed")
            if (e, val) not in [(("1" if w[0] else "0"), str(w[1])) for w in want]:
                out.append(("C13:wrong-reply", "thread %d request %d returned %s, the peer answered %r" % (c["tid"], c["seq"], res, want)))
        elif res == "timeout":
            i_call = next((y[0] for y in ev if y[2] == "call" and y[3] == (c["tid"], c["seq"])), -1)
            ttl = next((x[3] for x in ev if x[1] == c["tid"] and x[2] == "c3" and x[0] > i_call), None)
            if c["tmo"] is None:
                out.append(("C13:spurious-timeout", "thread %d request %d raised a timeout without having one" % (c["tid"], c["seq"])))
            elif ttl is not None and ttl != "inf" and c["t_return"] < float(ttl):
                out.append(("C13:early-timeout", "thread %d request %d timed out at %s before its deadline %s" % (c["tid"], c["seq"], c["t_return"], ttl)))
            elif not run.chan.closed and _dispatched_before(run, c["seq"], ttl):
                out.append(("C13:reply-dropped", "thread %d request %d: the peer's reply was received and dispatched before the "
                            "request's deadline %s, yet the request never completed (timeout)" % (c["tid"], c["seq"], ttl)))
            else:
                # a publication racing with the deadline may legitimately come after the caller's final test;
                # one that precedes the final readiness test must have been seen
                i_w9 = next((x[0] for x in ev if x[1] == c["tid"] and x[2] == "w9" and x[0] > i_call), None)
                if c["d5"] and i_w9 is not None and c["d5"][0][2] < i_w9:
                    out.append(("C13:completed-but-timeout", "thread %d request %d: the result was published before the "
                                "caller's final readiness test, yet it raised a timeout" % (c["tid"], c["seq"])))
        elif res == "eof":
            if not run.chan.eof:
                out.append(("C13:unexpected-exception", "thread %d request %d raised EOFError although the peer never "
                            "closed the stream" % (c["tid"], c["seq"])))
        else:
            out.append(("C13:unexpected-exception", "thread %d request %d: %s" % (c["tid"], c["seq"], res)))
    for st in past_expiry(run)[:1]:
        out.append(("C13:blocked-past-own-expiry", st["shape"]))
    for (tid, rid, res) in run.callback_expected:
        n = run.callback_log.count((tid, rid))
        lost = n == 0 and res._is_ready and run.outcome == "finished"
        if lost and not ADD_CALLBACK_ATOMIC:
            continue        # the registration/publication race of add_callback is present on this tree (C15's finding)
        if n > 1 or lost:
            out.append(("C13:callback-count", "thread %d: the callback of a completed request ran %d times" % (tid, n)))
    for tid, err in sorted(getattr(run, "thread_errors", {}).items()):
        out.append(("C13:thread-died", "thread %d: %s" % (tid, err)))
    if run.outcome in ("deadlock", "horizon"):
        pending = [f for (f, _d) in run.chan.frames]
        for c in calls_of(run):
            if c["result"] is not None:
                continue
            if c["tid"] in run.case.get("mute", ()) and not run.chan.eof:
                continue            # the peer never answers this caller: it is a serve(None) receiver, by design
            if run.chan.eof:
                # end of stream: every thread inside a call must terminate (EOFError); none may stay parked
                out.append(("C13:parked-after-eof",
                            "thread %d request %d never returns after the peer closed the stream (%s); threads: %r"
                            % (c["tid"], c["seq"], run.outcome, run.blocked_at_end)))
                continue
            cell = run.cells.get(c["seq"])
            ready = bool(cell is not None and cell._is_ready)
            if ready:
                continue            # its reply was processed: the stall is C14's subject (F3), not C13's
            answered = [fid for (fid, seq, _e, _v) in run.frames_sent if seq == c["seq"]]
            if any(f in pending for f in answered) or (run.outcome == "deadlock" and pending):
                out.append(("C13:%s-with-data-pending" % run.outcome,
                            "thread %d request %d: no thread can run (%s) while frames %r are unread; threads: %r"
                            % (c["tid"], c["seq"], run.outcome, pending, run.blocked_at_end)))
            elif answered and all(dc.get(f, 0) >= 1 for f in answered):
                out.append(("C13:reply-lost", "thread %d request %d: its reply was dispatched but the request never completed (%s)"
                            % (c["tid"], c["seq"], run.outcome)))
            elif run.outcome == "deadlock":
                out.append(("C13:deadlock", "thread %d request %d never completes; threads: %r" % (c["tid"], c["seq"], run.blocked_at_end)))
    return out
