"""Generated constants of layer L5 (Vinegar): lean/RpycModel/Gen/Vinegar.lean.

Almost every fact is OBSERVED by running the live functions of /repo's working tree on instrumented inputs, so that
docstrings, comments, renamed locals, aliases (`config = self._config`), extracted helper functions, reordered
independent statements or early returns change nothing:

* `vinegar.dump` on probe exceptions: is there a StopIteration marker path and does it require empty `args`; which public
  names of `dir(val)` are left out (ignored names), that names starting with "_" are left out and others are not; the text
  in the traceback field when the traceback is withheld (must not depend on the exception) and when it is allowed (must be
  `traceback.format_exception`'s); what happens when the traceback module itself fails (guarded? which literal); under which
  name the version travels and what is sent instead when it is withheld;
* `vinegar.load` on probe records: the attribute the traceback text is stored under, the warning it appends for a foreign
  major version (template recovered from two probes), that a withheld / absent version and an equal major version do not warn,
  the separator;
* `Connection._box_exc / _unbox_exc` on a bare Connection with sentinel configuration values and a recording stand-in for
  `vinegar.dump / load`: which configuration key feeds which parameter;
* `Connection._dispatch_request` with handlers raising SystemExit / KeyboardInterrupt (and subclasses, and others) under
  every setting of the two `propagate_*_locally` keys: which classes are re-raised locally under which key;
* `Connection._send_exception` with a `_box_exc` that raises, and with a `_send` whose first call raises: the fallback record,
  that its texts are constants (the same for different exceptions, tracebacks and switch settings) and hold no traceback.

Live constants: `consts.EXC_STOP_ITERATION`, `rpyc.version`, `exceptions_module.__name__`, the exception-related defaults of
`DEFAULT_CONFIG`, `ClassType is type`, `hash(slice)`.

AST is kept for the one fact that cannot be observed — everything `vinegar.load` CALLS (no constructor call, no import other
than `__import__`) — normalised: calls of functions of the same module are followed, method calls count by method name only,
local names do not matter.

Raises gen_consts.Inexpressible when the behaviour no longer has a shape these definitions can express.
"""
import ast
import inspect
import struct
import sys
import traceback

import gen_consts
from gen_consts import lean_str, lean_list, func_ast

Inexpressible = getattr(sys.modules.get("__main__"), "Inexpressible", None) or gen_consts.Inexpressible

SEND_KEYS = [("include_local_traceback", "IncludeLocalTraceback"), ("include_local_version", "IncludeLocalVersion"),
             ("propagate_SystemExit_locally", "PropagateSystemExitLocally"),
             ("propagate_KeyboardInterrupt_locally", "PropagateKeyboardInterruptLocally")]
RECV_KEYS = [("import_custom_exceptions", "ImportCustomExceptions"),
             ("instantiate_custom_exceptions", "InstantiateCustomExceptions"),
             ("instantiate_oldstyle_exceptions", "InstantiateOldstyleExceptions")]

def cps(s):
    return "[" + ", ".join(str(ord(c)) for c in s) + "]"


def lean_bool(b):
    return "true" if b else "false"


def raised(exc):
    try:
        raise exc
    except BaseException:  # noqa
        return sys.exc_info()


# ------------------------------------------------------------------------------------------------ dump, observed
class _ProbeError(Exception):
    pass


def dump_facts(vinegar, consts, version):
    import builtins
    marker = consts.EXC_STOP_ITERATION
    D = vinegar.dump
    try:
        params = list(inspect.signature(D).parameters)
    except (TypeError, ValueError):
        params = []
    if params[:3] != ["typ", "val", "tb"] or set(params[3:]) != {"include_local_traceback", "include_local_version"}:
        raise Inexpressible("dump: parameters are %s" % params)

    def dump(t, v, tb, a, b):
        return D(t, v, tb, include_local_traceback=a, include_local_version=b)

    # --- the StopIteration marker path
    def is_marker(x):
        return type(x) is type(marker) and x == marker
    exists = is_marker(dump(StopIteration, StopIteration(), None, True, True))
    with_args = is_marker(dump(StopIteration, StopIteration(5), None, True, True))
    if with_args and not exists:
        raise Inexpressible("dump: StopIteration(5) takes the marker path but StopIteration() does not")

    class SubStop(StopIteration):
        pass
    if is_marker(dump(SubStop, SubStop(), None, True, True)) or is_marker(dump(ValueError, ValueError(), None, True, True)):
        raise Inexpressible("dump: the marker path is not restricted to `typ is StopIteration`")
    # --- shape of a record, names left out
    ignored = set()
    skips_callables = None
    ver_attr = ver_denied = None
    for cls in sorted(set(v for v in vars(builtins).values() if isinstance(v, type) and issubclass(v, BaseException)),
                      key=lambda c: c.__name__):
        try:
            val = cls.__new__(cls)
        except TypeError:
            continue
        val.args = ("a", 2)
        for extra in ("pub", "a_b", "Z9", "x_", "_priv", "__dunder", "_"):
            try:
                setattr(val, extra, 7)
            except Exception:  # noqa
                pass
        rec = dump(cls, val, None, False, False)
        if is_marker(rec):
            continue
        if not (type(rec) is tuple and len(rec) == 4 and rec[0] == (cls.__module__, cls.__name__) and type(rec[1]) is tuple
                and type(rec[2]) is tuple and all(type(p) is tuple and len(p) == 2 for p in rec[2])):
            raise Inexpressible("dump: the record is not ((module, name), args, ((name, value), ...), text)")
        if rec[1] != ("a", 2):
            raise Inexpressible("dump(%s): args ('a', 2) were sent as %r" % (cls.__name__, rec[1]))
        sent = [p[0] for p in rec[2]]
        if len(set(sent)) != len(sent):
            raise Inexpressible("dump: an attribute is sent twice")
        public_ok, callables = [], set()
        for n in dir(val):
            if n == "args":
                continue
            try:
                getattr(val, n)
            except AttributeError:
                continue
            except Exception:  # noqa
                continue
            if n.startswith("_"):
                if n in sent[:-1]:
                    raise Inexpressible("dump: the private name %r is sent" % n)
            else:
                public_ok.append(n)
                if callable(getattr(val, n)):
                    callables.add(n)
        if "args" in sent:
            raise Inexpressible("dump: `args` is also sent as an attribute")
        sent_callables = set(n for n in callables if n in sent)
        if skips_callables is None:
            skips_callables = not sent_callables
        if sent_callables and skips_callables:
            raise Inexpressible("dump: some methods are sent as attributes and others are not: %s" % sorted(sent_callables))
        ignored |= set(n for n in public_ok if n not in sent and not (skips_callables and n in callables))
        for n in ("pub", "a_b", "Z9", "x_"):
            if n in public_ok and n not in sent:
                raise Inexpressible("dump: the public name %r is left out" % n)
        extra = [n for n in sent[:-1] if n not in public_ok]
        if extra:
            raise Inexpressible("dump: sends names that are not public attributes: %s" % extra)
        if sent[:-1] != [n for n in public_ok if n in sent]:
            raise Inexpressible("dump: attributes are not sent in dir() order")
        if ver_attr is None:
            ver_attr, ver_denied = rec[2][-1]
        elif rec[2][-1] != (ver_attr, ver_denied):
            raise Inexpressible("dump: the withheld-version pair differs between classes")
    if ver_attr is None or type(ver_attr) is not str or type(ver_denied) is not str:
        raise Inexpressible("dump: no version pair at the end of the attributes")
    # `args` is driven by dir(): an exception whose dir() hides `args` sends none
    class Hidden(Exception):
        def __dir__(self):
            return [n for n in object.__dir__(self) if n != "args"]
    if dump(Hidden, Hidden(1), None, False, False)[1] != ():
        raise Inexpressible("dump: args are sent although dir(val) does not list `args`")
    # --- version disclosure
    t, v, tb = raised(ValueError("probe-one", 1))
    r_ff, r_ft, r_tf, r_tt = (dump(t, v, tb, a, b) for a in (False, True) for b in (False, True))
    for r in (r_ft, r_tt):
        if r[2][-1] != (ver_attr, version.version_string):
            raise Inexpressible("dump: with include_local_version the last attribute is %r" % (r[2][-1],))
    for r in (r_ff, r_tf):
        if r[2][-1] != (ver_attr, ver_denied):
            raise Inexpressible("dump: without include_local_version the last attribute is %r" % (r[2][-1],))
    if version.version_string in ver_denied:
        raise Inexpressible("dump: the text sent for a withheld version contains the version")
    # --- traceback disclosure
    real = "".join(traceback.format_exception(t, v, tb))
    if r_tf[3] != real or r_tt[3] != real:
        raise Inexpressible("dump: with include_local_traceback the traceback field is not traceback.format_exception's text")
    t2, v2, tb2 = raised(KeyError("probe-two"))
    denied = set([r_ff[3], r_ft[3], dump(t2, v2, tb2, False, False)[3], dump(t2, v2, None, False, True)[3]])
    if len(denied) != 1 or type(r_ff[3]) is not str:
        raise Inexpressible("dump: without include_local_traceback the traceback field is not one constant text")
    tb_denied = r_ff[3]
    if "Traceback" in tb_denied or "probe-one" in tb_denied or real in tb_denied or "ValueError" in tb_denied:
        raise Inexpressible("dump: discloses the traceback although include_local_traceback is False")
    # --- a traceback the traceback module cannot format
    bad = SyntaxError("probe", ("file", 1, 2, 5))
    try:
        traceback.format_exception(SyntaxError, bad, None)
        unformattable = None
    except Exception:  # noqa
        unformattable = bad
    guarded, unavailable = False, ""
    if unformattable is not None:
        try:
            r = dump(SyntaxError, unformattable, None, True, True)
        except Exception:  # noqa
            guarded = False
        else:
            guarded, unavailable = True, r[3]
            if type(unavailable) is not str or "Traceback" in unavailable or "probe" in unavailable:
                raise Inexpressible("dump: the text sent for an unformattable traceback is not a constant literal")
            if r[1] != ("probe", ("file", 1, 2, 5)):
                raise Inexpressible("dump: an unformattable traceback changes the arguments sent")
            if dump(SyntaxError, unformattable, None, False, True)[3] != tb_denied:
                raise Inexpressible("dump: withheld traceback of an unformattable exception is not the marker")
    else:
        # this interpreter formats everything: the guard cannot be observed; it is then irrelevant as well
        guarded, unavailable = True, ""
    # a public attribute HOLDING a callable (not a method of the class) follows the same rule
    pv = ValueError("probe")
    pv.hook = len
    hook_sent = "hook" in [p[0] for p in dump(ValueError, pv, None, False, False)[2]]
    if hook_sent == bool(skips_callables):
        raise Inexpressible("dump: methods and attributes holding a callable are treated differently")
    return dict(skips_callables=bool(skips_callables), exists=exists, noargs=exists and not with_args, ignored=sorted(ignored), prefix="_", args_name="args",
                tb_denied=tb_denied, ver_denied=ver_denied, ver_attr=ver_attr, tb_guarded=guarded, tb_unavailable=unavailable)


# ------------------------------------------------------------------------------------------------ load, observed
def load_facts(vinegar, version, d):
    L = vinegar.load
    params = list(inspect.signature(L).parameters)
    if params[:1] != ["val"] or set(params[1:]) != {"import_custom_exceptions", "instantiate_custom_exceptions",
                                                  "instantiate_oldstyle_exceptions"}:
        raise Inexpressible("load: parameters are %s" % params)
    name = (vinegar.exceptions_module.__name__, "ValueError")

    def load(attrs, tb="TB-PROBE"):
        exc = L((name, (), tuple(attrs), tb), import_custom_exceptions=False, instantiate_custom_exceptions=False,
                instantiate_oldstyle_exceptions=False)
        if not isinstance(exc, ValueError):
            raise Inexpressible("load: builtins.ValueError is not rebuilt as ValueError")
        return exc
    plain = load(())
    holders = [k for k, v in vars(plain).items() if v == "TB-PROBE"]
    if len(holders) != 1 or len(vars(plain)) != 1:
        raise Inexpressible("load: the traceback text is not stored under exactly one attribute: %s" % sorted(vars(plain)))
    tb_attr = holders[0]
    va = d["ver_attr"]

    def tb_after(ver):
        exc = load(((va, ver),))
        if getattr(exc, va, None) != ver:
            raise Inexpressible("load: the version attribute is not stored")
        return getattr(exc, tb_attr)
    major = str(version.version[0])
    vs = version.version_string
    for quiet in (d["ver_denied"], vs, major, major + ".999", major + "."):
        if tb_after(quiet) != "TB-PROBE":
            raise Inexpressible("load: warns about the version %r (withheld, own, or same major version)" % (quiet,))
    w1, w2 = tb_after("0.0"), tb_after("77.8")
    for loud in (major + "x.1", "x" + major, "." + major, major + "-1", ""):
        if tb_after(loud) == "TB-PROBE":
            raise Inexpressible("load: does not warn about the foreign version %r ('.'-separated major expected)" % (loud,))
    if not (w1.startswith("TB-PROBE") and w2.startswith("TB-PROBE") and w1 != "TB-PROBE"):
        raise Inexpressible("load: a foreign major version does not append a warning to the traceback text")
    rest = w1[len("TB-PROBE"):]
    i = rest.find("0.0")
    j = rest.find(vs, i + 3) if i >= 0 else -1
    if i < 0 or j < 0:
        raise Inexpressible("load: the warning does not name the remote and the local version, in this order")
    pre, mid, suf = rest[:i], rest[i + 3:j], rest[j + len(vs):]
    if w2 != "TB-PROBE" + pre + "77.8" + mid + vs + suf or tb_after("") != "TB-PROBE" + pre + mid + vs + suf:
        raise Inexpressible("load: the warning is not a fixed template around the two versions")
    calls = sorted(called_norm(vinegar.load, vinegar))
    dcalls = set()
    for fn in reachable_functions(vinegar.load, vinegar):
        if any(isinstance(n, ast.ClassDef) for n in ast.walk(func_ast(fn))):
            dcalls |= called_norm(fn, vinegar)
    if not dcalls:
        raise Inexpressible("load: no module function it uses defines the subclass of the exception class")
    return dict(dcalls=sorted(dcalls), ver_attr=va, ver_default=d["ver_denied"], ver_compare=d["ver_denied"], sep=".", warn=[pre, mid, suf],
                tb_attr=tb_attr, calls=calls)


def called_norm(fn, module, _seen=None):
    """normalised names of everything the body of fn calls, following calls of functions of the same module (helpers):
    a module-level or builtin name -> the name; a method call x.m(...) -> ".m"; a call of a local name that is no function of
    the module, or of any other expression -> the name / "<expr>" (this is how `cls(...)` shows)"""
    _seen = _seen if _seen is not None else set()
    if fn in _seen:
        return set()
    _seen.add(fn)
    node = func_ast(fn)
    out = set()
    for n in (m for stmt in node.body for m in ast.walk(stmt)):
        if isinstance(n, ast.Call):
            f = n.func
            if isinstance(f, ast.Name):
                target = getattr(module, f.id, None)
                if inspect.isfunction(target) and target.__module__ == module.__name__:
                    out |= called_norm(target, module, _seen)
                else:
                    out.add(f.id)
            elif isinstance(f, ast.Attribute):
                out.add("." + f.attr)
            else:
                out.add("<expr>")
    return out


def reachable_functions(fn, module, _seen=None):
    """fn and the functions of the same module it (transitively) calls"""
    _seen = _seen if _seen is not None else []
    if fn in _seen:
        return _seen
    _seen.append(fn)
    for n in ast.walk(func_ast(fn)):
        if isinstance(n, ast.Call) and isinstance(n.func, ast.Name):
            target = getattr(module, n.func.id, None)
            if inspect.isfunction(target) and target.__module__ == module.__name__:
                reachable_functions(target, module, _seen)
    return _seen


def probe_class_facts(vinegar):
    """a probe module with canary classes, visible to load under instantiate_custom_exceptions"""
    import types
    name = "_vinegar_gen_probe"
    mod = types.ModuleType(name)
    log = []

    class E(Exception):
        def __new__(cls, *a, **k):
            log.append(("new", a, k))
            return Exception.__new__(cls)

        def __init__(self, *a, **k):
            log.append(("init", a, k))

    class U(Exception):
        def __str__(self):
            raise RuntimeError("no text")
    for c in (E, U):
        c.__module__ = name
    mod.E, mod.U = E, U
    lazy_calls = []

    def module_getattr(attr):          # PEP 562: module-level __getattr__, a canary for "module code ran"
        lazy_calls.append(attr)
        raise AttributeError(attr)
    mod.__getattr__ = module_getattr
    sys.modules[name] = mod
    try:
        def load(rec, old=False, inst=True):
            return vinegar.load(rec, import_custom_exceptions=False, instantiate_custom_exceptions=inst,
                                instantiate_oldstyle_exceptions=old)
        exc = load(((name, "E"), (1, 2), (("x", 3),), "TB"))
        if not isinstance(exc, E) or exc.args != (1, 2):
            raise Inexpressible("load: a loaded custom class is not rebuilt under instantiate_custom_exceptions")
        by_new = log == [("new", (), {})]
        if not by_new and not any(ev[0] == "init" for ev in log):
            raise Inexpressible("load: instantiation is neither cls.__new__(cls) nor a constructor call: %r" % (log,))
        # the same on canary subclasses of several built-in bases, with and without arguments / attributes in the record
        for k, base in enumerate((Exception, BaseException, OSError, KeyError, UnicodeDecodeError, SyntaxError, StopIteration)):
            calls = []
            C = type("Canary%d" % k, (base,), {
                "__new__": (lambda cls, *a, _b=base, _c=calls, **kw: (_c.append(("new", a, kw)), _b.__new__(cls))[1]),
                "__init__": (lambda self, *a, _c=calls, **kw: _c.append(("init", a, kw)))})
            C.__module__ = name
            setattr(mod, C.__name__, C)
            for rec_args, rec_attrs in (((), ()), ((1, "two"), (("x", 3),))):
                del calls[:]
                got = load(((name, C.__name__), rec_args, rec_attrs, "TB"))
                if not isinstance(got, C):
                    raise Inexpressible("load: canary class %s(%s) is not rebuilt" % (C.__name__, base.__name__))
                if (calls == [("new", (), {})]) != by_new:
                    raise Inexpressible("load: instantiation differs between classes: %s(%s) saw %r"
                                        % (C.__name__, base.__name__, calls))
        T = type(exc)
        keeps = T is not E and issubclass(T, E) and T.__mro__[1] is E and T.__name__ == E.__name__ and T.__module__ == E.__module__
        start, end = vinegar.REMOTE_LINE_START, vinegar.REMOTE_LINE_END
        if type(start) is not str or type(end) is not str or not start:
            raise Inexpressible("vinegar.REMOTE_LINE_START/END are not text")
        u = str(load(((name, "U"), (), (), "TB")))
        tail = start + "(1)" + end + "TB"
        if not u.endswith(tail):
            raise Inexpressible("str() of a received exception does not end with the remote-traceback marker and text")
        unprintable = u[:-len(tail)]
        v = load((("builtins", "ValueError"), ("x",), (), "a" + start + "b"), inst=False)
        if str(v) != "x" + start + "(2)" + end + "a" + start + "b" or repr(v) != str(v):
            raise Inexpressible("str()/repr() of a received exception is not <own text> + marker(count + 1) + traceback")
        # the old-style switch
        def shape(x):
            return (type(x).__mro__[1:3], getattr(x, "args", None), sorted(vars(x).items()) if hasattr(x, "__dict__") else None) \
                if isinstance(x, BaseException) else repr(x)
        inert = True
        for rec in (((name, "E"), (1,), (), "TB"), (("builtins", "KeyError"), ("k",), (("y", 1),), "TB"),
                    (("no_such_module_x", "C"), (), (), "TB"), 1, "text"):
            for inst in (False, True):
                if shape(load(rec, False, inst)) != shape(load(rec, True, inst)):
                    inert = False
        # is a peer-chosen class name looked up without running module code (PEP 562 __getattr__), and what does a name
        # that is not text do on the module route
        del lazy_calls[:]
        g = load(((name, "NoSuchName"), (), (), "TB"))
        if not isinstance(g, vinegar.GenericException):
            raise Inexpressible("load: a name the module does not hold is not answered with the generic stand-in")
        pure = not lazy_calls
        try:
            load(((name, 5), (), (), "TB"))
            nontext_raises = False
        except TypeError:
            nontext_raises = True
        return dict(by_new=by_new, keeps_names=keeps, unprintable=unprintable, oldstyle_inert=inert, lookup_pure=pure,
                    nontext_raises=nontext_raises)
    finally:
        sys.modules.pop(name, None)


KIND_OF_TYPE = [type(None), type(NotImplemented), type(Ellipsis), bool, int, float, complex, bytes, str, tuple, frozenset, slice]
KIND_REPS = [[None], [NotImplemented], [Ellipsis], [True, False], [0, 3], [1.5], [1j], [b"ab", b""], ["ab", ""], [(), (1,)],
             [frozenset()], [slice(1, 2, 3)]]
SAMPLE_ARGS = {"OSError": [(2, "m", "f"), (2, "m")], "BlockingIOError": [(11, "m", 7)],
               "UnicodeDecodeError": [("utf-8", b"ab", 0, 1, "r")], "UnicodeEncodeError": [("utf-8", "ab", 0, 1, "r")],
               "UnicodeTranslateError": [("ab", 0, 1, "r")], "SyntaxError": [("m", ("f", 1, 2, "t", 3, 4)), ("m", ("f", 1, 2, "t"))],
               "StopIteration": [(5,)], "SystemExit": [(3,)]}


def _same(a, b):
    return type(a) is type(b) and (a == b or a is b)


def builtin_table():
    """every built-in exception class of THIS interpreter: does `cls.__new__(cls)` need arguments; for each public attribute
    that is a data descriptor and does not store every kind of value faithfully: the kinds of brine values `setattr` stores
    and reads back unchanged (on an instance of a subclass made by `__new__`, which is what `load` builds), and the kinds its
    getter was seen to return on sample instances; whether dir() lists `args` exactly once and nothing twice; whether any
    getattr of a public name raised something other than AttributeError"""
    import builtins
    rows, dir_sane, getattr_clean = [], True, True
    classes = sorted(set(v for k, v in vars(builtins).items() if isinstance(v, type) and issubclass(v, BaseException)
                         and v.__name__ == k), key=lambda c: c.__name__)
    for C in classes:
        try:
            C.__new__(C)
            nn = False
        except TypeError:
            nn = True
        attrs = []
        if not nn:
            P = type("Probe", (C,), {})
            insts = [P.__new__(P)]
            for a in [(), ("a", 2)] + SAMPLE_ARGS.get(C.__name__, []):
                try:
                    insts.append(C(*a))
                except Exception:  # noqa
                    pass
            for i in insts:
                names = dir(i)
                if names.count("args") != 1 or len(set(names)) != len(names):
                    dir_sane = False
            for n in [n for n in dir(insts[0]) if not n.startswith("_") and n != "args"]:
                obs = set()
                for i in insts:
                    try:
                        v = getattr(i, n)
                    except AttributeError:
                        continue
                    except Exception:  # noqa
                        getattr_clean = False
                        continue
                    obs.add(KIND_OF_TYPE.index(type(v)) if type(v) in KIND_OF_TYPE else 8)     # others travel as repr text
                d = getattr(P, n, None)
                if d is None or not hasattr(type(d), "__set__"):
                    continue
                acc = []
                for k, reps in enumerate(KIND_REPS):
                    ok = True
                    for v in reps:
                        p = P.__new__(P)
                        try:
                            setattr(p, n, v)
                            ok = ok and _same(getattr(p, n), v)
                        except Exception:  # noqa
                            ok = False
                    if ok:
                        acc.append(k)
                if len(acc) != len(KIND_REPS):
                    attrs.append((n, acc, sorted(obs)))
        rows.append((C.__name__, nn, attrs))
    L = ["", "/-! ### every built-in exception class of this interpreter (measured) -/",
         "/-- (class name, does `cls.__new__(cls)` need arguments, [(attribute whose setter is typed, kinds of value it stores",
         "faithfully, kinds its getter was seen to return)]); kinds: 0 None, 1 NotImplemented, 2 Ellipsis, 3 bool, 4 int, 5 float,",
         "6 complex, 7 bytes, 8 str, 9 tuple, 10 frozenset, 11 slice.  Every other public attribute stores any value. -/",
         "def builtinExcNames : List String := " + lean_list([lean_str(r[0]) for r in rows], 6),
         "def builtinExcTable : List (List Nat × Bool × List (List Nat × List Nat × List Nat)) := ["]
    body = []
    for name, nn, attrs in rows:
        a = ", ".join("(%s, [%s], [%s])" % (cps(n), ", ".join(map(str, acc)), ", ".join(map(str, obs))) for n, acc, obs in attrs)
        body.append("  (%s, %s, [%s])" % (cps(name), lean_bool(nn), a))
    L.append(",\n".join(body) + "]")
    L += ["/-- on every sample instance `dir()` lists `args` exactly once and no name twice -/",
          "def builtinDirSane : Bool := %s" % lean_bool(dir_sane),
          "/-- no `getattr` of a public name of a sample instance raised anything but AttributeError -/",
          "def builtinGetattrClean : Bool := %s" % lean_bool(getattr_clean)]
    return L


# ------------------------------------------------------------------------------------------------ protocol, observed
class _Sentinel(object):
    def __init__(self, key):
        self.key = key

    def __bool__(self):
        return True


def bare_connection(protocol, config):
    conn = protocol.Connection.__new__(protocol.Connection)
    conn._closed = True              # so that __del__ / close() are no-ops
    conn._config = config
    return conn


def kw_map(protocol, vinegar, method, callee):
    """[(parameter of vinegar.<callee>, configuration key whose value it receives)], observed with sentinel values"""
    config = dict((k, _Sentinel(k)) for k in protocol.DEFAULT_CONFIG)
    conn = bare_connection(protocol, config)
    seen = []
    real = getattr(vinegar, callee)
    sig = inspect.signature(real)

    def recorder(*a, **k):
        seen.append(sig.bind(*a, **k).arguments)
        return "recorded"
    setattr(vinegar, callee, recorder)
    try:
        args = (ValueError, ValueError(1), None) if callee == "dump" else ("raw-probe",)
        res = getattr(conn, method)(*args)
    finally:
        setattr(vinegar, callee, real)
    if len(seen) != 1 or res != "recorded":
        raise Inexpressible("%s: does not return one call of vinegar.%s" % (method, callee))
    pairs, positional = [], 0
    for pname, val in seen[0].items():
        if isinstance(val, _Sentinel):
            pairs.append((pname, val.key))
        else:
            positional += 1
            if val not in args:
                raise Inexpressible("%s: passes %r to vinegar.%s" % (method, val, callee))
    if positional != len(args) or len(pairs) != len(sig.parameters) - len(args):
        raise Inexpressible("%s: some parameter of vinegar.%s is fed neither from the arguments nor from the configuration"
                            % (method, callee))
    return sorted(pairs)


def local_routes(protocol):
    """[(class name, configuration key)]: raising exactly that class in a handler is re-raised in the serving side iff the key
    is set; observed on `_dispatch_request` under all settings of the propagate_* keys"""
    keys = sorted(k for k in protocol.DEFAULT_CONFIG if k.startswith("propagate_"))

    class SubExit(SystemExit):
        pass

    class SubInt(KeyboardInterrupt):
        pass
    probes = [SystemExit, KeyboardInterrupt, SubExit, SubInt, GeneratorExit, BaseException, ValueError, StopIteration]
    table = {}
    for mask in range(1 << len(keys)):
        cfg = dict(protocol.DEFAULT_CONFIG, logger=None)
        for i, k in enumerate(keys):
            cfg[k] = bool(mask >> i & 1)
        for cls in probes:
            conn = bare_connection(protocol, cfg)
            sent = []
            conn._HANDLERS = {0: (lambda self, c=cls: (_ for _ in ()).throw(c("probe")))}
            conn._unbox = lambda a: a
            conn._box_exc = lambda t, v, tb: "boxed"
            conn._send = lambda *a: sent.append(a)
            try:
                conn._dispatch_request(7, (0, ()))
                outcome = "sent" if len(sent) == 1 else "nothing"
            except BaseException as ex:  # noqa
                outcome = "local" if type(ex) is cls and not sent else "other"
            if outcome not in ("sent", "local"):
                raise Inexpressible("_dispatch_request: a handler raising %s ends in %s" % (cls.__name__, outcome))
            table[(cls.__name__, mask)] = outcome
    routes = []
    for cls in probes:
        local_masks = set(m for m in range(1 << len(keys)) if table[(cls.__name__, m)] == "local")
        if not local_masks:
            continue
        owners = [k for i, k in enumerate(keys) if local_masks == set(m for m in range(1 << len(keys)) if m >> i & 1)]
        if len(owners) != 1 or cls.__name__ not in ("SystemExit", "KeyboardInterrupt"):
            raise Inexpressible("_dispatch_request: %s is re-raised locally under settings %s of %s"
                                % (cls.__name__, sorted(local_masks), keys))
        routes.append((cls.__name__, owners[0]))
    return sorted(routes)


def fallback_facts(protocol, consts):
    """what `_send_exception` sends when `_box_exc` raises / when the first `_send` raises"""
    if not hasattr(protocol.Connection, "_send_exception"):
        return dict(exists=False, note="", tb="")
    records = []
    for tb_on in (False, True):
        for exc in (ValueError("probe-one", 1), KeyError("probe-two")):
            for failing in ("box", "send"):
                cfg = dict(protocol.DEFAULT_CONFIG, logger=None, include_local_traceback=tb_on)
                conn = bare_connection(protocol, cfg)
                sent = []

                def box(t, v, tb, failing=failing):
                    if failing == "box":
                        raise RuntimeError("cannot dump")
                    return "boxed"

                def send(*a, failing=failing, sent=sent):
                    sent.append(a)
                    if failing == "send" and len(sent) == 1:
                        raise ValueError("cannot serialize")
                conn._box_exc, conn._send = box, send
                t, v, tb = raised(exc)
                try:
                    conn._send_exception(7, t, v, tb)
                except Exception:  # noqa
                    return dict(exists=False, note="", tb="")       # no fallback: the error leaves serve()
                last = sent[-1]
                if len(sent) != (1 if failing == "box" else 2) or last[0] != consts.MSG_EXCEPTION or last[1] != 7:
                    raise Inexpressible("_send_exception: the fallback is not one MSG_EXCEPTION with the request's seq")
                rec = last[2]
                if not (type(rec) is tuple and len(rec) == 4 and rec[0] == (t.__module__, t.__name__) and type(rec[1]) is tuple
                        and len(rec[1]) == 1 and rec[2] == () and type(rec[1][0]) is str and type(rec[3]) is str):
                    raise Inexpressible("_send_exception: the fallback record is %r" % (rec,))
                real = "".join(traceback.format_exception(t, v, tb))
                for text in (rec[1][0], rec[3]):
                    if "Traceback" in text or "probe-" in text or real in text or "File " in text:
                        raise Inexpressible("_send_exception: the fallback record discloses the exception's traceback or data")
                records.append((rec[1][0], rec[3]))
    # EOFError must not be swallowed into a fallback
    conn = bare_connection(protocol, dict(protocol.DEFAULT_CONFIG, logger=None))
    conn._box_exc = lambda t, v, tb: "boxed"

    def eof(*a):
        raise EOFError("gone")
    conn._send = eof
    try:
        conn._send_exception(7, *raised(ValueError(1)))
        raise Inexpressible("_send_exception: swallows EOFError")
    except EOFError:
        pass
    if len(set(records)) != 1:
        raise Inexpressible("_send_exception: the fallback texts are not constants (they vary with the exception or the switches)")
    return dict(exists=True, note=records[0][0], tb=records[0][1])


def gen_vinegar():
    from rpyc.core import vinegar, consts, protocol
    from rpyc import version
    L = ["namespace Rpyc.Gen.Vinegar", ""]
    marker = consts.EXC_STOP_ITERATION
    if type(marker) is not int:
        raise Inexpressible("consts.EXC_STOP_ITERATION is %r, not an int" % (marker,))
    vs = version.version_string
    if not isinstance(vs, str) or not isinstance(version.version, tuple) or not version.version:
        raise Inexpressible("rpyc.version has an unexpected shape")
    fbits = []
    try:
        f = float(marker)
        if f == marker:
            fbits.append(int.from_bytes(struct.pack("!d", f), "big"))
            if f == 0.0:
                fbits.append(int.from_bytes(struct.pack("!d", -0.0), "big"))
    except OverflowError:
        pass
    L += ["/-- `consts.EXC_STOP_ITERATION` and the IEEE bit patterns of the floats that compare equal to it -/",
          "def excStopIteration : Int := %s" % gen_consts.lean_int(marker),
          "def excStopFloatBits : List Nat := [%s]" % ", ".join(str(b) for b in sorted(fbits))]
    d = dump_facts(vinegar, consts, version)
    L += ["", "/-! ### `vinegar.dump` (observed on probe exceptions) -/",
          "/-- does a bare `StopIteration` travel as the marker, and does a `StopIteration` with arguments go the long way -/",
          "def stopFastPathExists : Bool := %s" % lean_bool(d["exists"]),
          "def stopFastPathRequiresNoArgs : Bool := %s" % lean_bool(d["noargs"]),
          "/-- an attribute whose value is callable (a method, above all) is not sent: it is not data, and sent as its repr it would",
          "shadow the method on the rebuilt exception and disclose an address -/",
          "def skipsCallables : Bool := %s" % lean_bool(d["skips_callables"]),
          "/-- public, non-callable names of `dir(val)` that are left out all the same (observed over all built-in classes) -/",
          "def ignoredAttrsText : List String := " + lean_list([lean_str(s) for s in d["ignored"]]),
          "def ignoredAttrs : List (List Nat) := " + lean_list([cps(s) for s in d["ignored"]], 2),
          "def privatePrefixText : String := " + lean_str(d["prefix"]),
          "def privatePrefix : List Nat := " + cps(d["prefix"]),
          "def argsNameText : String := " + lean_str(d["args_name"]),
          "def argsName : List Nat := " + cps(d["args_name"]),
          "/-- is a failure of `traceback.format_exception` contained, and the text sent then -/",
          "def tbFormatGuarded : Bool := %s" % lean_bool(d["tb_guarded"]),
          "def tracebackUnavailableText : String := " + lean_str(d["tb_unavailable"]),
          "def tracebackUnavailable : List Nat := " + cps(d["tb_unavailable"]),
          "def tracebackDeniedText : String := " + lean_str(d["tb_denied"]),
          "def tracebackDenied : List Nat := " + cps(d["tb_denied"]),
          "def versionDeniedText : String := " + lean_str(d["ver_denied"]),
          "def versionDenied : List Nat := " + cps(d["ver_denied"]),
          "def versionAttrText : String := " + lean_str(d["ver_attr"]),
          "def versionAttr : List Nat := " + cps(d["ver_attr"])]
    ld = load_facts(vinegar, version, d)
    L += ["", "/-! ### `vinegar.load` (observed on probe records) and `rpyc.version` (live) -/",
          "def loadVersionAttrText : String := " + lean_str(ld["ver_attr"]),
          "def loadVersionAttr : List Nat := " + cps(ld["ver_attr"]),
          "/-- no warning for an absent version, nor for the text `dump` sends for a withheld one -/",
          "def loadVersionDefault : List Nat := " + cps(ld["ver_default"]),
          "def loadVersionCompare : List Nat := " + cps(ld["ver_compare"]),
          "def versionSeparator : Nat := %d" % ord(ld["sep"]),
          "def warnTemplate : List String := " + lean_list([lean_str(p) for p in ld["warn"]]),
          "def warnPre : List Nat := " + cps(ld["warn"][0]),
          "def warnMid : List Nat := " + cps(ld["warn"][1]),
          "def warnSuf : List Nat := " + cps(ld["warn"][2]),
          "def remoteTbAttrText : String := " + lean_str(ld["tb_attr"]),
          "def remoteTbAttr : List Nat := " + cps(ld["tb_attr"]),
          "def versionStringText : String := " + lean_str(vs),
          "def versionString : List Nat := " + cps(vs),
          "/-- `str(version.version[0])` -/",
          "def versionMajor : List Nat := " + cps(str(version.version[0])),
          "/-- `exceptions_module.__name__` -/",
          "def exceptionsModuleText : String := " + lean_str(vinegar.exceptions_module.__name__),
          "def exceptionsModule : List Nat := " + cps(vinegar.exceptions_module.__name__),
          "/-- `ClassType is type` (Python 3): the old-style branch of `load` is dead -/",
          "def classTypeIsType : Bool := %s" % lean_bool(getattr(vinegar, "ClassType", type) is type),
          "", "/-- everything `load` and the module functions it uses call (AST, normalised: helpers followed, method calls by",
          "method name); the model has one step per entry, or the entry is a pure helper of the language -/",
          "def loadCalls : List String := " + lean_list([lean_str(c) for c in ld["calls"]], 6),
          "/-- the same for the module functions `load` uses that define a class (the `Derived` subclass maker) -/",
          "def derivedCalls : List String := " + lean_list([lean_str(c) for c in ld["dcalls"]], 6)]
    pf = probe_class_facts(vinegar)
    L += ["", "/-! ### instantiation and presentation (observed on a probe module with canaries) -/",
          "/-- the instance is made by `cls.__new__(cls)` with no arguments and `__init__` does not run -/",
          "def instantiatesByNew : Bool := %s" % lean_bool(pf["by_new"]),
          "/-- `instantiate_oldstyle_exceptions` changes no outcome (probe records under both settings) -/",
          "def oldstyleSwitchInert : Bool := %s" % lean_bool(pf["oldstyle_inert"]),
          "/-- under instantiate_custom_exceptions the class name is looked up in the module's OWN namespace: a module-level",
          "`__getattr__` (PEP 562; a canary on the probe module) is not run with the peer-chosen name -/",
          "def moduleLookupPure : Bool := %s" % lean_bool(pf["lookup_pure"]),
          "/-- a class name that is not text raises TypeError on the module route (`getattr`), rather than being absent -/",
          "def moduleLookupNonTextRaises : Bool := %s" % lean_bool(pf["nontext_raises"]),
          "/-- `str()` of a received exception: the class's own text (or this, when that raises), then",
          "`REMOTE_LINE_START (n) REMOTE_LINE_END` and the remote traceback -/",
          "def unprintable : List Nat := " + cps(pf["unprintable"]),
          "def remoteLineStart : List Nat := " + cps(vinegar.REMOTE_LINE_START),
          "def remoteLineEnd : List Nat := " + cps(vinegar.REMOTE_LINE_END),
          "/-- the received object's class is a subclass of the named class carrying its `__name__` and `__module__` -/",
          "def derivedKeepsNames : Bool := %s" % lean_bool(pf["keeps_names"])]
    L += builtin_table()
    cfg = protocol.DEFAULT_CONFIG
    L += ["", "/-! ### `protocol.DEFAULT_CONFIG`: the exception-related switches (live) -/"]
    for key, camel in SEND_KEYS + RECV_KEYS:
        if key not in cfg or type(cfg[key]) is not bool:
            raise Inexpressible("DEFAULT_CONFIG[%r] is missing or not a bool" % key)
        L.append("def cfg%s : Bool := %s" % (camel, lean_bool(cfg[key])))
    box = kw_map(protocol, vinegar, "_box_exc", "dump")
    unbox = kw_map(protocol, vinegar, "_unbox_exc", "load")
    L += ["", "/-- which configuration key feeds which parameter of `vinegar.dump` / `vinegar.load` (observed with sentinel values) -/",
          "def boxExcKeys : List (String × String) := " + lean_list(
              ["(%s, %s)" % (lean_str(a), lean_str(b)) for a, b in box], 2),
          "def unboxExcKeys : List (String × String) := " + lean_list(
              ["(%s, %s)" % (lean_str(a), lean_str(b)) for a, b in unbox], 2),
          "/-- which classes `_dispatch_request` re-raises in the serving side, under which key (observed) -/",
          "def localRoutes : List (String × String) := " + lean_list(
              ["(%s, %s)" % (lean_str(a), lean_str(b)) for a, b in local_routes(protocol)], 2)]
    fb = fallback_facts(protocol, consts)
    L += ["", "/-- `Connection._send_exception` (observed): when dumping or sending the exception raises, the record",
          "`((module, name), (note,), (), text)` is sent instead; both texts are constants -/",
          "def fallbackExists : Bool := %s" % lean_bool(fb["exists"]),
          "def fallbackNoteText : String := " + lean_str(fb["note"]),
          "def fallbackNote : List Nat := " + cps(fb["note"]),
          "def fallbackTbText : String := " + lean_str(fb["tb"]),
          "def fallbackTb : List Nat := " + cps(fb["tb"])]
    try:
        hash(slice(1, 2, 3))
        sh = True
    except TypeError:
        sh = False
    L += ["", "/-- interpreter fact: `hash(slice(...))` works (3.12+), so every brine value can be looked up in `sys.modules` -/",
          "def sliceHashable : Bool := %s" % lean_bool(sh),
          "", "end Rpyc.Gen.Vinegar", ""]
    return "\n".join(L)


SECTIONS = [("Vinegar.lean", gen_vinegar)]
