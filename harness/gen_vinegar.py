"""Generated constants of layer L5 (Vinegar): lean/RpycModel/Gen/Vinegar.lean.

Read from /repo's working tree (gen_consts.py has put it first on sys.path):

* live objects: `consts.EXC_STOP_ITERATION`, `version.version`, `version.version_string`,
  `vinegar.exceptions_module.__name__`, the exception-related defaults of `protocol.DEFAULT_CONFIG`;
* by AST, facts that are not data:
  - `vinegar.dump`: the condition of the StopIteration fast path (does it require empty `args`?), the ignored
    attribute names, the private-name prefix, the name of the `args` branch, the "<traceback denied>" /
    "<version denied>" markers (the constant branches of the two `if include_local_*` statements), the
    attribute name the version travels under;
  - `vinegar.load`: the default and the comparison constant of the version check, the separator and the
    warning template, the attribute the traceback text is stored under, and EVERYTHING the body calls
    (for the allow-list theorem: no constructor call, no import other than the gated `__import__`);
  - `Connection._box_exc/_unbox_exc`: which configuration key feeds which parameter;
  - `Connection._dispatch_request`: which classes are re-raised locally under which configuration key;
* interpreter facts: is `slice` hashable, which floats equal the StopIteration marker.

Raises gen_consts.Inexpressible when the source no longer has a shape these definitions can express.
"""
import ast
import struct
import sys

import gen_consts
from gen_consts import lean_str, lean_list, func_ast, called_names

Inexpressible = getattr(sys.modules.get("__main__"), "Inexpressible", None) or gen_consts.Inexpressible

SEND_KEYS = [("include_local_traceback", "IncludeLocalTraceback"), ("include_local_version", "IncludeLocalVersion"),
             ("propagate_SystemExit_locally", "PropagateSystemExitLocally"),
             ("propagate_KeyboardInterrupt_locally", "PropagateKeyboardInterruptLocally")]
RECV_KEYS = [("import_custom_exceptions", "ImportCustomExceptions"),
             ("instantiate_custom_exceptions", "InstantiateCustomExceptions"),
             ("instantiate_oldstyle_exceptions", "InstantiateOldstyleExceptions")]

# what `vinegar.load` / `_get_exception_class` may call: every entry has a counterpart in the model
LOAD_CALLS_ALLOWED = ["ClassType", "InstanceType", "__import__", "_get_exception_class", "_warn.format", "cls.__new__",
                      "getattr", "isinstance", "issubclass", "remote_ver.split", "setattr", "str", "type"]
DERIVED_CALLS_ALLOWED = ["?.count", "REMOTE_LINE.format", "cls.__str__", "hasattr", "str"]


def cps(s):
    return "[" + ", ".join(str(ord(c)) for c in s) + "]"


def lean_bool(b):
    return "true" if b else "false"


def _text(node):
    try:
        return ast.unparse(node)
    except Exception:  # noqa
        return "?"


def _const_str(node):
    return node.value if isinstance(node, ast.Constant) and isinstance(node.value, str) else None


# ------------------------------------------------------------------------------------------------ dump
def _conjuncts(test):
    if isinstance(test, ast.BoolOp) and isinstance(test.op, ast.And):
        out = []
        for v in test.values:
            out += _conjuncts(v)
        return out
    return [test]


def _returns_marker(stmts):
    return (len(stmts) == 1 and isinstance(stmts[0], ast.Return) and stmts[0].value is not None
            and _text(stmts[0].value).split(".")[-1] == "EXC_STOP_ITERATION")


NOARGS_FORMS = {"not val.args", "len(val.args) == 0", "val.args == ()", "not len(val.args)", "() == val.args",
                "0 == len(val.args)"}


def stop_fast_path(dump_node):
    """(exists, requires_no_args): the `if` at the top of `dump` that returns EXC_STOP_ITERATION"""
    for stmt in dump_node.body:
        if not isinstance(stmt, ast.If):
            continue
        tests, body = _conjuncts(stmt.test), stmt.body
        while len(body) == 1 and isinstance(body[0], ast.If) and not body[0].orelse and not _returns_marker(body):
            tests += _conjuncts(body[0].test)
            body = body[0].body
        if not _returns_marker(body):
            continue
        if stmt.orelse:
            raise Inexpressible("dump: the StopIteration fast path has an else branch")
        texts = [_text(t) for t in tests]
        if "typ is StopIteration" not in texts and "StopIteration is typ" not in texts:
            raise Inexpressible("dump: the fast path is not guarded by `typ is StopIteration`: %s" % texts)
        rest = [t for t in texts if t not in ("typ is StopIteration", "StopIteration is typ")]
        if not rest:
            return True, False
        if all(t in NOARGS_FORMS for t in rest):
            return True, True
        raise Inexpressible("dump: unrecognised extra condition on the StopIteration fast path: %s" % rest)
    return False, False


def _is_format_assign(stmt):
    return isinstance(stmt, ast.Assign) and len(stmt.targets) == 1 and _text(stmt.targets[0]) == "tbtext" \
        and "traceback.format_exception(typ, val, tb)" in _text(stmt.value)


def tb_guard_shape(stmts):
    """(guarded, literal) for the branch that formats the traceback: plain assignment -> (False, ""); the assignment inside
    `try` with `except Exception: tbtext = <literal>` -> (True, literal); anything else -> None"""
    if len(stmts) == 1 and _is_format_assign(stmts[0]):
        return False, ""
    if len(stmts) == 1 and isinstance(stmts[0], ast.Try):
        t = stmts[0]
        if len(t.body) == 1 and _is_format_assign(t.body[0]) and len(t.handlers) == 1 and not t.orelse and not t.finalbody \
                and t.handlers[0].type is not None and _text(t.handlers[0].type) == "Exception":
            body = [b for b in t.handlers[0].body if not isinstance(b, ast.Pass)]
            if len(body) == 1 and isinstance(body[0], ast.Assign) and _text(body[0].targets[0]) == "tbtext" \
                    and _const_str(body[0].value) is not None:
                return True, _const_str(body[0].value)
    return None


def fallback_facts(protocol):
    """`Connection._send_exception`: try: send(box_exc) / except EOFError: raise / except Exception: send the fallback
    record `(name, (note,), (), <literal>)` with name = (str(module), str(name)) and note = <literal>"""
    fn = getattr(protocol.Connection, "_send_exception", None)
    if fn is None:
        return dict(exists=False, note="", tb="")
    node = func_ast(fn)
    tries = [n for n in node.body if isinstance(n, ast.Try)]
    if len(tries) != 1 or len(node.body) != 1:
        raise Inexpressible("_send_exception: body is not a single try statement")
    t = tries[0]
    if len(t.body) != 1 or "self._box_exc(t, v, tb)" not in _text(t.body[0]) or "MSG_EXCEPTION" not in _text(t.body[0]):
        raise Inexpressible("_send_exception: the try body is not one send of self._box_exc(t, v, tb)")
    hs = [(_text(h.type) if h.type is not None else None) for h in t.handlers]
    if hs != ["EOFError", "Exception"] or not (len(t.handlers[0].body) == 1 and isinstance(t.handlers[0].body[0], ast.Raise)):
        raise Inexpressible("_send_exception: handlers are %s" % hs)
    note = name_expr = rec = None
    for stmt in t.handlers[1].body:
        if isinstance(stmt, ast.Assign) and _text(stmt.targets[0]) == "note":
            note = _const_str(stmt.value)
        elif isinstance(stmt, ast.Assign) and _text(stmt.targets[0]) == "name":
            name_expr = _text(stmt.value)
        elif isinstance(stmt, ast.Expr) and isinstance(stmt.value, ast.Call) and _text(stmt.value.func) == "self._send" \
                and len(stmt.value.args) == 3 and isinstance(stmt.value.args[2], ast.Tuple):
            rec = stmt.value.args[2]
        else:
            raise Inexpressible("_send_exception: unexpected statement in the fallback: %s" % _text(stmt)[:80])
    if note is None or rec is None or name_expr is None or len(rec.elts) != 4:
        raise Inexpressible("_send_exception: the fallback is not `name = ...; note = <literal>; self._send(.., .., (name, (note,), (), <literal>))`")
    if "__module__" not in name_expr or "__name__" not in name_expr:
        raise Inexpressible("_send_exception: the fallback's class name is %s" % name_expr)
    e0, e1, e2, e3 = rec.elts
    if _text(e0) != "name" or _text(e1) != "(note,)" or _text(e2) != "()" or _const_str(e3) is None:
        raise Inexpressible("_send_exception: the fallback record is %s (its traceback field must be a literal)" % _text(rec))
    return dict(exists=True, note=note, tb=_const_str(e3))


def dump_facts(vinegar):
    node = func_ast(vinegar.dump)
    params = [a.arg for a in node.args.args]
    if params != ["typ", "val", "tb", "include_local_traceback", "include_local_version"]:
        raise Inexpressible("dump: parameters are %s" % params)
    exists, noargs = stop_fast_path(node)
    ignored = None
    prefix = None
    args_name = None
    tb_denied = None
    ver_denied = None
    ver_attr = set()
    tb_guard = None
    for n in ast.walk(node):
        if isinstance(n, ast.Assign) and len(n.targets) == 1 and _text(n.targets[0]) == "ignored_attrs":
            try:
                v = n.value
                lit = v.args[0] if isinstance(v, ast.Call) and _text(v.func) in ("frozenset", "set") else v
                ignored = sorted(ast.literal_eval(lit))
            except Exception:  # noqa
                raise Inexpressible("dump: ignored_attrs is not a literal collection")
            if not all(isinstance(s, str) for s in ignored):
                raise Inexpressible("dump: ignored_attrs has non-text members")
        if isinstance(n, ast.Call) and _text(n.func) == "name.startswith" and len(n.args) == 1:
            prefix = _const_str(n.args[0])
        if isinstance(n, ast.Compare) and _text(n.left) == "name" and len(n.ops) == 1 and isinstance(n.ops[0], ast.Eq):
            args_name = _const_str(n.comparators[0])
        if isinstance(n, ast.If) and _text(n.test) in ("include_local_traceback", "not include_local_traceback"):
            denied = n.orelse if _text(n.test) == "include_local_traceback" else n.body
            allowed_tb = n.body if _text(n.test) == "include_local_traceback" else n.orelse
            if len(denied) == 1 and isinstance(denied[0], ast.Assign) and _text(denied[0].targets[0]) == "tbtext":
                tb_denied = _const_str(denied[0].value)
            tb_guard = tb_guard_shape(allowed_tb)
        if isinstance(n, ast.If) and _text(n.test) in ("include_local_version", "not include_local_version"):
            denied = n.orelse if _text(n.test) == "include_local_version" else n.body
            allowed = n.body if _text(n.test) == "include_local_version" else n.orelse
            for branch, is_denied in ((denied, True), (allowed, False)):
                if len(branch) == 1 and isinstance(branch[0], ast.Expr) and isinstance(branch[0].value, ast.Call) \
                        and _text(branch[0].value.func) == "attrs.append" and len(branch[0].value.args) == 1 \
                        and isinstance(branch[0].value.args[0], ast.Tuple) and len(branch[0].value.args[0].elts) == 2:
                    k, v = branch[0].value.args[0].elts
                    ver_attr.add(_const_str(k))
                    if is_denied:
                        ver_denied = _const_str(v)
                    elif _text(v) != "version.version_string":
                        raise Inexpressible("dump: the disclosed version is %s, not version.version_string" % _text(v))
                else:
                    raise Inexpressible("dump: a branch of `if include_local_version` is not one attrs.append((name, value))")
    if ignored is None:
        raise Inexpressible("dump: no `ignored_attrs = frozenset([...])`")
    if prefix is None:
        raise Inexpressible("dump: no `name.startswith(<literal>)`")
    if args_name is None:
        raise Inexpressible("dump: no `name == <literal>` branch for the arguments")
    if tb_denied is None:
        raise Inexpressible("dump: no `if include_local_traceback: ... else: tbtext = <literal>`")
    if ver_denied is None or len(ver_attr) != 1 or None in ver_attr:
        raise Inexpressible("dump: no `if include_local_version: attrs.append((<name>, version_string)) else: "
                            "attrs.append((<name>, <literal>))`")
    if tb_guard is None:
        raise Inexpressible("dump: the allowed branch of `if include_local_traceback` is neither `tbtext = ...format_exception...` "
                            "nor that inside `try: ... except Exception: tbtext = <literal>`")
    return dict(tb_guarded=tb_guard[0], tb_unavailable=tb_guard[1], exists=exists, noargs=noargs, ignored=ignored, prefix=prefix, args_name=args_name,
                tb_denied=tb_denied, ver_denied=ver_denied, ver_attr=ver_attr.pop())


# ------------------------------------------------------------------------------------------------ load
def load_facts(vinegar):
    node = func_ast(vinegar.load)
    params = [a.arg for a in node.args.args]
    if params != ["val", "import_custom_exceptions", "instantiate_custom_exceptions", "instantiate_oldstyle_exceptions"]:
        raise Inexpressible("load: parameters are %s" % params)
    ver_attr = ver_default = ver_compare = sep = warn = tb_attr = major_cmp = None
    for n in ast.walk(node):
        if isinstance(n, ast.Call) and _text(n.func) == "getattr" and len(n.args) == 3 and _const_str(n.args[2]) is not None:
            ver_attr, ver_default = _const_str(n.args[1]), _const_str(n.args[2])
        if isinstance(n, ast.Compare) and _text(n.left) == "remote_ver" and len(n.ops) == 1 \
                and isinstance(n.ops[0], ast.NotEq):
            ver_compare = _const_str(n.comparators[0])
        if isinstance(n, ast.Call) and _text(n.func) == "remote_ver.split" and len(n.args) == 1:
            sep = _const_str(n.args[0])
        if isinstance(n, ast.Compare) and _text(n.left).startswith("remote_ver.split(") and len(n.ops) == 1:
            major_cmp = n
        if isinstance(n, ast.Assign) and len(n.targets) == 1 and _text(n.targets[0]) == "_warn":
            warn = _const_str(n.value)
        if isinstance(n, ast.Assign) and len(n.targets) == 1 and isinstance(n.targets[0], ast.Attribute) \
                and _text(n.targets[0].value) == "exc" and _text(n.value) == "tbtext":
            tb_attr = n.targets[0].attr
        if isinstance(n, ast.Call) and _text(n.func) == "_warn.format" and \
                [_text(a) for a in n.args] != ["remote_ver", "version.version_string"]:
            raise Inexpressible("load: the warning is formatted with %s" % [_text(a) for a in n.args])
    if None in (ver_attr, ver_default, ver_compare, sep, warn, tb_attr):
        raise Inexpressible("load: version check / warning / traceback attribute not in the expected shape: %r"
                            % ((ver_attr, ver_default, ver_compare, sep, warn, tb_attr),))
    if major_cmp is None or _text(major_cmp.left) != "remote_ver.split(%r)[0]" % (sep,) \
            or not isinstance(major_cmp.ops[0], ast.NotEq) or _text(major_cmp.comparators[0]) != "str(version.version[0])":
        raise Inexpressible("load: the major-version comparison is %s" % (_text(major_cmp) if major_cmp else None))
    if len(sep) != 1:
        raise Inexpressible("load: version separator %r is not one character" % (sep,))
    parts = warn.split("{}")
    if len(parts) != 3 or "{" in warn.replace("{}", "") or "}" in warn.replace("{}", ""):
        raise Inexpressible("load: the warning template is not `... {} ... {} ...`")
    calls = sorted(called_names(vinegar.load))
    dcalls = sorted(called_names(vinegar._get_exception_class))
    return dict(ver_attr=ver_attr, ver_default=ver_default, ver_compare=ver_compare, sep=sep, warn=parts,
                tb_attr=tb_attr, calls=calls, dcalls=dcalls)


# ------------------------------------------------------------------------------------------------ protocol
def kw_map(fn, callee):
    """[(parameter, config key)] of the single `vinegar.<callee>(...)` call in fn"""
    node = func_ast(fn)
    found = []
    for n in ast.walk(node):
        if isinstance(n, ast.Call) and _text(n.func) == "vinegar." + callee:
            pairs = []
            for k in n.keywords:
                v = k.value
                if not (isinstance(v, ast.Subscript) and _text(v.value) == "self._config" and _const_str(v.slice) is not None):
                    raise Inexpressible("%s: %s=%s is not self._config[<literal>]" % (fn.__name__, k.arg, _text(v)))
                pairs.append((k.arg, _const_str(v.slice)))
            found.append((len(n.args), pairs))
    if len(found) != 1:
        raise Inexpressible("%s: expected one call of vinegar.%s" % (fn.__name__, callee))
    return found[0]


def local_routes(protocol):
    """[(class name, config key)] of `if t is <Class> and self._config[<key>]: raise` in _dispatch_request"""
    node = func_ast(protocol.Connection._dispatch_request)
    out = []
    for n in ast.walk(node):
        if isinstance(n, ast.If) and len(n.body) == 1 and isinstance(n.body[0], ast.Raise) and n.body[0].exc is None:
            cj = _conjuncts(n.test)
            if len(cj) == 2 and isinstance(cj[0], ast.Compare) and _text(cj[0].left) == "t" \
                    and isinstance(cj[0].ops[0], ast.Is) and isinstance(cj[1], ast.Subscript) \
                    and _text(cj[1].value) == "self._config" and _const_str(cj[1].slice):
                out.append((_text(cj[0].comparators[0]), _const_str(cj[1].slice)))
            elif _text(n.test) != "?":
                raise Inexpressible("_dispatch_request: unrecognised local re-raise condition %s" % _text(n.test))
    return sorted(out)


def gen_vinegar():
    from rpyc.core import vinegar, consts, protocol
    from rpyc import version
    L = ["namespace Rpyc.Gen.Vinegar", ""]
    marker = consts.EXC_STOP_ITERATION
    if type(marker) is not int:
        raise Inexpressible("consts.EXC_STOP_ITERATION is %r, not an int" % (marker,))
    fbits = []
    try:
        f = float(marker)
        if f == marker:
            fbits.append(int.from_bytes(struct.pack("!d", f), "big"))
            if f == 0.0:
                fbits.append(int.from_bytes(struct.pack("!d", -0.0), "big"))
    except OverflowError:
        pass
    L += ["/-- `consts.EXC_STOP_ITERATION` and the IEEE bit patterns of the floats that compare equal to it -/",
          "def excStopIteration : Int := %s" % gen_consts.lean_int(marker),
          "def excStopFloatBits : List Nat := [%s]" % ", ".join(str(b) for b in sorted(fbits))]
    d = dump_facts(vinegar)
    L += ["", "/-! ### `vinegar.dump` (AST) -/",
          "/-- is there an `if typ is StopIteration ...: return EXC_STOP_ITERATION`, and does it also require `not val.args` -/",
          "def stopFastPathExists : Bool := %s" % lean_bool(d["exists"]),
          "def stopFastPathRequiresNoArgs : Bool := %s" % lean_bool(d["noargs"]),
          "def ignoredAttrsText : List String := " + lean_list([lean_str(s) for s in d["ignored"]]),
          "def ignoredAttrs : List (List Nat) := " + lean_list([cps(s) for s in d["ignored"]], 2),
          "def privatePrefixText : String := " + lean_str(d["prefix"]),
          "def privatePrefix : List Nat := " + cps(d["prefix"]),
          "def argsNameText : String := " + lean_str(d["args_name"]),
          "def argsName : List Nat := " + cps(d["args_name"]),
          "/-- is `traceback.format_exception` called inside `try: ... except Exception: tbtext = <literal>`, and that literal -/",
          "def tbFormatGuarded : Bool := %s" % lean_bool(d["tb_guarded"]),
          "def tracebackUnavailableText : String := " + lean_str(d["tb_unavailable"]),
          "def tracebackUnavailable : List Nat := " + cps(d["tb_unavailable"]),
          "def tracebackDeniedText : String := " + lean_str(d["tb_denied"]),
          "def tracebackDenied : List Nat := " + cps(d["tb_denied"]),
          "def versionDeniedText : String := " + lean_str(d["ver_denied"]),
          "def versionDenied : List Nat := " + cps(d["ver_denied"]),
          "def versionAttrText : String := " + lean_str(d["ver_attr"]),
          "def versionAttr : List Nat := " + cps(d["ver_attr"])]
    ld = load_facts(vinegar)
    vs = version.version_string
    if not isinstance(vs, str) or not isinstance(version.version, tuple) or not version.version:
        raise Inexpressible("rpyc.version has an unexpected shape")
    L += ["", "/-! ### `vinegar.load` (AST) and `rpyc.version` (live) -/",
          "def loadVersionAttrText : String := " + lean_str(ld["ver_attr"]),
          "def loadVersionAttr : List Nat := " + cps(ld["ver_attr"]),
          "def loadVersionDefault : List Nat := " + cps(ld["ver_default"]),
          "def loadVersionCompare : List Nat := " + cps(ld["ver_compare"]),
          "def versionSeparator : Nat := %d" % ord(ld["sep"]),
          "def warnTemplate : List String := " + lean_list([lean_str(p) for p in ld["warn"]]),
          "def warnPre : List Nat := " + cps(ld["warn"][0]),
          "def warnMid : List Nat := " + cps(ld["warn"][1]),
          "def warnSuf : List Nat := " + cps(ld["warn"][2]),
          "def remoteTbAttrText : String := " + lean_str(ld["tb_attr"]),
          "def remoteTbAttr : List Nat := " + cps(ld["tb_attr"]),
          "def versionStringText : String := " + lean_str(vs),
          "def versionString : List Nat := " + cps(vs),
          "/-- `str(version.version[0])` -/",
          "def versionMajor : List Nat := " + cps(str(version.version[0])),
          "/-- `exceptions_module.__name__` -/",
          "def exceptionsModuleText : String := " + lean_str(vinegar.exceptions_module.__name__),
          "def exceptionsModule : List Nat := " + cps(vinegar.exceptions_module.__name__),
          "/-- `ClassType is type` (Python 3): the old-style branch of `load` is dead -/",
          "def classTypeIsType : Bool := %s" % lean_bool(vinegar.ClassType is type),
          "", "/-- everything the bodies of `load` and `_get_exception_class` call (AST); the model has one step per entry -/",
          "def loadCalls : List String := " + lean_list([lean_str(c) for c in ld["calls"]], 6),
          "def loadCallsAllowed : List String := " + lean_list([lean_str(c) for c in sorted(LOAD_CALLS_ALLOWED)], 6),
          "def derivedCalls : List String := " + lean_list([lean_str(c) for c in ld["dcalls"]], 6),
          "def derivedCallsAllowed : List String := " + lean_list([lean_str(c) for c in sorted(DERIVED_CALLS_ALLOWED)], 6)]
    cfg = protocol.DEFAULT_CONFIG
    L += ["", "/-! ### `protocol.DEFAULT_CONFIG`: the exception-related switches (live) -/"]
    for key, camel in SEND_KEYS + RECV_KEYS:
        if key not in cfg or type(cfg[key]) is not bool:
            raise Inexpressible("DEFAULT_CONFIG[%r] is missing or not a bool" % key)
        L.append("def cfg%s : Bool := %s" % (camel, lean_bool(cfg[key])))
    nb, box = kw_map(protocol.Connection._box_exc, "dump")
    nu, unbox = kw_map(protocol.Connection._unbox_exc, "load")
    if nb != 3 or nu != 1:
        raise Inexpressible("_box_exc/_unbox_exc pass %d/%d positional arguments" % (nb, nu))
    L += ["", "/-- which configuration key feeds which parameter of `vinegar.dump` / `vinegar.load` (AST) -/",
          "def boxExcKeys : List (String × String) := " + lean_list(
              ["(%s, %s)" % (lean_str(a), lean_str(b)) for a, b in sorted(box)], 2),
          "def unboxExcKeys : List (String × String) := " + lean_list(
              ["(%s, %s)" % (lean_str(a), lean_str(b)) for a, b in sorted(unbox)], 2),
          "/-- `if t is <Class> and self._config[<key>]: raise` in `_dispatch_request` (AST) -/",
          "def localRoutes : List (String × String) := " + lean_list(
              ["(%s, %s)" % (lean_str(a), lean_str(b)) for a, b in local_routes(protocol)], 2)]
    fb = fallback_facts(protocol)
    L += ["", "/-- `Connection._send_exception` (AST): when dumping or sending the exception raises, the record",
          "`((module, name), (note,), (), <literal>)` is sent instead -/",
          "def fallbackExists : Bool := %s" % lean_bool(fb["exists"]),
          "def fallbackNoteText : String := " + lean_str(fb["note"]),
          "def fallbackNote : List Nat := " + cps(fb["note"]),
          "def fallbackTbText : String := " + lean_str(fb["tb"]),
          "def fallbackTb : List Nat := " + cps(fb["tb"])]
    try:
        hash(slice(1, 2, 3))
        sh = True
    except TypeError:
        sh = False
    L += ["", "/-- interpreter fact: `hash(slice(...))` works (3.12+), so every brine value can be looked up in `sys.modules` -/",
          "def sliceHashable : Bool := %s" % lean_bool(sh),
          "", "end Rpyc.Gen.Vinegar", ""]
    return "\n".join(L)


SECTIONS = [("Vinegar.lean", gen_vinegar)]
